#!/usr/bin/env python3
"""Mutation self-test: apply each edit of mutants.json to a scratch copy of /repo/fickling (outside /repo and /verif, removed afterwards),
run the targeted property's quick check against it (VERIF_REPO), and compare with the expectation.
usage: selftest/run.py [property ...] [--jobs N]"""
import json
import os
import shutil
import subprocess
import sys
import tempfile
from concurrent.futures import ThreadPoolExecutor

ROOT = os.path.dirname(os.path.dirname(os.path.abspath(__file__)))


def run_one(m):
    d = tempfile.mkdtemp(prefix="mut", dir=os.environ.get("TMPDIR", "/tmp"))
    try:
        shutil.copytree("/repo/fickling", os.path.join(d, "fickling"))
        f = os.path.join(d, "fickling", m["file"])
        before = open(f).read()
        if m.get("patch"):          # a multi-hunk edit kept as a diff (relative to /verif), optionally followed by the sed
            with open(os.path.join(ROOT, m["patch"])) as pf:
                subprocess.run(["patch", "-p1", "-s", "-d", d], stdin=pf, check=True)
        if m.get("sed"):
            subprocess.run(["sed", "-i", m["sed"], f], check=True)
        if not m.get("patch") and open(f).read() == before:
            return m, "NOT-APPLIED", ""
        env = dict(os.environ, VERIF_REPO=d, VERIF_EVIDENCE_DIR=os.path.join(d, "evidence"), VERIF_REPLAY_DIR=os.path.join(d, "replays"))
        r = subprocess.run([os.path.join(ROOT, "check"), m["property"], "--tier", "quick"], capture_output=True, text=True, env=env, timeout=1800)
        got = {0: "pass", 1: "violation", 2: "undecided", 3: "checker-error"}.get(r.returncode, f"exit{r.returncode}")
        first = next((l for l in r.stdout.splitlines() if l.startswith(("VIOLATION", "CHECKER-ERROR", "UNDECIDED"))), "")
        return m, got, first[:220]
    finally:
        shutil.rmtree(d, ignore_errors=True)


def main():
    args = [a for a in sys.argv[1:] if not a.startswith("--")]
    jobs = int(os.environ.get("SELFTEST_JOBS", "2"))
    muts = json.load(open(os.path.join(ROOT, "selftest", "mutants.json")))
    if args:
        muts = [m for m in muts if m["property"] in args or m["id"] in args]
    bad = 0
    with ThreadPoolExecutor(max_workers=jobs) as ex:
        for m, got, first in ex.map(run_one, muts):
            ok = got == m["expect"]
            bad += not ok
            print(f"{'ok ' if ok else 'BAD'} {m['id']:32s} expect={m['expect']:10s} got={got:14s} {first}")
    print(f"{len(muts) - bad}/{len(muts)} as expected")
    return 1 if bad else 0


if __name__ == "__main__":
    sys.exit(main())
