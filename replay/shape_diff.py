"""Replay / bounded cross-check for C09: step fickling's Interpreter and the reference VM side by side over the corpus and compare,
after every opcode, stack depth, mark positions and memo keys.  Prints JSON {"failures": [...], "programs": n, "steps": n}.
usage: shape_diff.py [opcode-name-filter]"""
import json
import sys
import os
sys.path.insert(0, os.path.dirname(os.path.abspath(__file__)))
from vmref import RefVM, corpus, MARK  # noqa: E402
import fickling.fickle as fk  # noqa: E402

flt = sys.argv[1] if len(sys.argv) > 1 else None
fails, nprog, nsteps, skipped = [], 0, 0, 0
for name, data in corpus():
    try:
        p = fk.Pickled.load(data)
    except Exception as e:  # noqa
        skipped += 1
        continue
    if flt and not any(o.info.name == flt for o in p):
        continue
    vm = RefVM(data)
    n, res = vm.run()
    interp = fk.Interpreter(p)
    nprog += 1
    for k in range(min(n, len(vm.trace))):
        opname, shape, keys = vm.trace[k]
        try:
            interp.step()
        except StopIteration:
            break
        except Exception as e:  # noqa
            # fickling refuses (or crashes) where the VM accepts: only a shape violation if it is not a declared refusal
            if not isinstance(e, NotImplementedError):
                fails.append({"program": name, "bytes": data.hex(), "step": k, "opcode": opname, "vm_shape": shape, "fickling": f"raises {type(e).__name__}: {e}"})
            break
        nsteps += 1
        fshape = [isinstance(x, fk.MarkObject) for x in interp.stack]
        fkeys = sorted(interp.memory)
        if fshape != shape or fkeys != keys:
            fails.append({"program": name, "bytes": data.hex(), "step": k, "opcode": opname, "vm_shape": shape, "fickling_shape": fshape,
                          "vm_memo_keys": keys, "fickling_memo_keys": fkeys})
            break
print(json.dumps({"failures": fails[:20], "n_failures": len(fails), "programs": nprog, "steps": nsteps, "unparsed": skipped}))
