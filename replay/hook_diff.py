"""Replay / bounded companion for C12 (and the arming clause of C02): operation sequences over
  {arm global check, activate ML env (without / with additions), remove hooks, enter context, leave context normally, leave context by
   exception, probe load, probe loads}
with contexts nested up to depth 3.  After every operation the four bindings (pickle.load, pickle.loads, _pickle.load, _pickle.loads) are
classified (original / fickling's checked load / an ML-environment wrapper and its additions) and compared with a reference state machine
taken from the statement:
  arm: pickle.load is the checked load;  activate(adds): all four are ML wrappers with exactly `adds`;  remove: all four are the originals;
  enter: pickle.load is the checked load;  leave (either way): pickle.load is *the very object* it was when the context was created,
  nothing else changes.
Probes: a flagged pickle handed to pickle.load / pickle.loads runs its payload iff the reference says that entry point is the original.
Bound: every sequence up to length 4 (plus closing of open contexts) and seeded random sequences up to length 9.  Prints one JSON object."""
import _pickle
import io
import itertools
import json
import os
import pickle
import random
import sys

sys.path.insert(0, os.path.dirname(os.path.abspath(__file__)))
from _report import spread  # noqa: E402
import fickling  # noqa: E402
import fickling.hook as hook  # noqa: E402
import fickling.loader as loader  # noqa: E402
from fickling.exception import UnsafeFileError  # noqa: E402

seed = int(sys.argv[1]) if len(sys.argv) > 1 else 0
rnd = random.Random(seed)
ORIG = {"pickle.load": pickle.load, "pickle.loads": pickle.loads, "_pickle.load": _pickle.load, "_pickle.loads": _pickle.loads}
NAMES = list(ORIG)
FLAGGED = b"c__builtin__\neval\n(S'__import__(\"sys\").modules.__setitem__(\"verif_hook_marker\", 1)'\ntR."
SAFE = pickle.dumps([1, 2, 3])
ADDS = ["fractions.Fraction"]
NEEDS_ADD = b"cfractions\nFraction\n."


def current():
    return {"pickle.load": pickle.load, "pickle.loads": pickle.loads, "_pickle.load": _pickle.load, "_pickle.loads": _pickle.loads}


def classify(name, f):
    if f is ORIG[name] or f is ORIG[name.replace("_pickle", "pickle")]:
        return ("orig",)
    if f is loader.load:
        return ("checked",)
    q = getattr(f, "__qualname__", "")
    if "activate_safe_ml_environment" in q:
        adds = None
        for cell, var in zip(f.__closure__ or (), f.__code__.co_freevars):
            if var == "also_allow":
                adds = cell.cell_contents
        return ("ml", tuple(adds or ()))
    return ("other", q)


class Boom(Exception):
    pass


# rated LIKELY_SAFE by the analysis, but the stock unpickler raises on it (a Python 2 byte string that is not ASCII): a load that fails half way
RAISING_BENIGN = b"\x80\x02U\x01\xe9q\x00."
OPS = ["arm", "ml", "ml+adds", "remove", "enter", "leave", "leave-exc", "probe-load", "probe-loads", "probe-load-that-raises"]


def run_sequence(seq):
    """-> failure dict or None"""
    hook.remove_hook()
    model = {n: ("orig",) for n in NAMES}
    stack = []          # (context manager, the object pickle.load was when the context was created)
    trace = []
    for op_ in seq:
        trace.append(op_)
        before = current()
        if op_ == "arm":
            fickling.always_check_safety()
            model["pickle.load"] = ("checked",)
        elif op_ in ("ml", "ml+adds"):
            adds = list(ADDS) if op_ == "ml+adds" else None
            hook.activate_safe_ml_environment(also_allow=adds)
            for n in NAMES:
                model[n] = ("ml", tuple(adds or ()))
        elif op_ == "remove":
            hook.remove_hook()
            for n in NAMES:
                model[n] = ("orig",)
        elif op_ == "enter":
            if len(stack) >= 3:
                continue
            saved_model = model["pickle.load"]
            cm = fickling.check_safety()
            saved_obj = pickle.load
            cm.__enter__()
            stack.append((cm, saved_obj, saved_model))
            model["pickle.load"] = ("checked",)
        elif op_ in ("leave", "leave-exc"):
            if not stack:
                continue
            cm, saved_obj, saved_model = stack.pop()
            if op_ == "leave":
                cm.__exit__(None, None, None)
            else:
                try:
                    raise Boom()
                except Boom as e:
                    cm.__exit__(Boom, e, e.__traceback__)
            model["pickle.load"] = saved_model
            if pickle.load is not saved_obj:
                return {"what": "leaving a context does not restore the very pickle.load that was in force when it was created",
                        "sequence": list(trace), "got": str(classify("pickle.load", pickle.load)), "want": str(saved_model)}
        elif op_ == "probe-load-that-raises":
            try:
                pickle.load(io.BytesIO(RAISING_BENIGN))
            except Exception:  # noqa
                pass
        elif op_ in ("probe-load", "probe-loads"):
            name = "pickle.load" if op_ == "probe-load" else "pickle.loads"
            sys.modules.pop("verif_hook_marker", None)
            outcome = None
            try:
                if op_ == "probe-load":
                    pickle.load(io.BytesIO(FLAGGED))
                else:
                    pickle.loads(FLAGGED)
                outcome = "returned"
            except UnsafeFileError:
                outcome = "unsafe-file-error"
            except Exception as e:  # noqa
                outcome = type(e).__name__
            ran = sys.modules.pop("verif_hook_marker", None) is not None
            protected = model[name][0] != "orig"
            if protected and ran:
                return {"what": f"a protection is in force ({model[name]}) but {name} executed a flagged pickle", "sequence": list(trace), "outcome": outcome}
            if not protected and not ran:
                return {"what": f"no protection is in force for {name} according to the statement, yet the flagged pickle did not run ({outcome}): a protection "
                                f"was left behind", "sequence": list(trace), "outcome": outcome}
            # benign data still loads, and the additions of the active environment are honoured exactly
            try:
                ok = (pickle.load(io.BytesIO(SAFE)) if op_ == "probe-load" else pickle.loads(SAFE)) == [1, 2, 3]
            except Exception as e:  # noqa
                ok = False
            if not ok:
                return {"what": f"{name} does not load plain data under {model[name]}", "sequence": list(trace)}
            if model[name][0] == "ml":
                try:
                    (pickle.load(io.BytesIO(NEEDS_ADD)) if op_ == "probe-load" else pickle.loads(NEEDS_ADD))
                    allowed = True
                except UnsafeFileError:
                    allowed = False
                if allowed != ("fractions.Fraction" in model[name][1]):
                    return {"what": f"additions in force are {model[name][1]} but fractions.Fraction is {'permitted' if allowed else 'refused'} through {name}",
                            "sequence": list(trace)}
        # bindings against the reference after every operation; untouched names must be the same objects as before
        now = current()
        for n in NAMES:
            got = classify(n, now[n])
            if got != model[n]:
                return {"what": f"after `{op_}` {n} is {got}, the statement gives {model[n]}", "sequence": list(trace), "binding": n}
        if op_ in ("arm", "enter", "leave", "leave-exc", "probe-load", "probe-loads", "probe-load-that-raises"):
            for n in NAMES:
                if n != "pickle.load" and now[n] is not before[n]:
                    return {"what": f"`{op_}` re-bound {n}", "sequence": list(trace), "binding": n}
    # close what is open, innermost first, then remove: the originals are back
    while stack:
        cm, saved_obj, saved_model = stack.pop()
        cm.__exit__(None, None, None)
        if pickle.load is not saved_obj:
            return {"what": "leaving a context does not restore the very pickle.load that was in force when it was created", "sequence": list(trace) + ["(close)"]}
    hook.remove_hook()
    for n in NAMES:
        if current()[n] is not ORIG[n]:
            return {"what": f"after removal with no context open {n} is not the original function ({classify(n, current()[n])})", "sequence": list(trace) + ["(close)", "remove"],
                    "binding": n}
    return None


fails, n = [], 0
seqs = []
for ln in range(1, 5):
    seqs += [list(s) for s in itertools.product(OPS, repeat=ln)]
for _ in range(3000):
    seqs.append([rnd.choice(OPS) for _ in range(rnd.randint(5, 9))])
seen = set()
for s in seqs:
    # a probe only makes sense as an observation: drop sequences that are all probes, and de-duplicate
    t = tuple(s)
    if t in seen or all(o.startswith("probe") for o in s):
        continue
    seen.add(t)
    n += 1
    try:
        f = run_sequence(s)
    except Exception as e:  # noqa
        f = {"what": f"the operation sequence raises {type(e).__name__}: {e}"[:200], "sequence": s}
    finally:
        try:
            hook.remove_hook()
        except Exception:  # noqa
            pass
        for nm, fn in ORIG.items():
            setattr(pickle if nm.startswith("pickle") else _pickle, nm.split(".")[1], fn)
    if f:
        fails.append(f)
print(json.dumps({"bounded": True, "sequences": n, "max_exhaustive_length": 4, "random_sequences_up_to_length": 9, "n_failures": len(fails),
                  "failures": spread(fails, lambda f: f["what"][:60], per=4)}))
