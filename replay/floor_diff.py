"""Replay / bounded companion for C04: programs built from a labelled vocabulary of globals (builtins eval/exec/compile/open, other
builtins, dangerous stdlib modules and submodules, benign stdlib, non-stdlib) crossed with every global-resolving opcode, every
call-making opcode, every way of disposing of / re-using the call's value, protocol framing and benign data before and after; the
verdict of check_safety is compared with the floor the statement gives for the label.  Prints one JSON object (bounded)."""
import io
import json
import os
import sys

sys.path.insert(0, os.path.dirname(os.path.abspath(__file__)))
from _report import spread  # noqa: E402
from vmref import assemble, op, G, SG  # noqa: E402
import fickling.fickle as fk  # noqa: E402
import fickling.analysis as fa  # noqa: E402

seed = int(sys.argv[1]) if len(sys.argv) > 1 else 0
RANK = {"LIKELY_SAFE": 0, "POSSIBLY_UNSAFE": 1, "SUSPICIOUS": 2, "LIKELY_UNSAFE": 3, "LIKELY_OVERTLY_MALICIOUS": 4, "OVERTLY_MALICIOUS": 5}
u = lambda s: op("SHORT_BINUNICODE", s)  # noqa

# label -> (floor when only resolved, floor when called)
VOCAB = []
for n in ("eval", "exec", "compile", "open"):
    for m in ("builtins", "__builtin__"):
        VOCAB.append((m, n, "bad-builtin", None, "OVERTLY_MALICIOUS"))
for m, n in (("io", "open"), ("_io", "open"), ("os", "open")):
    pass
VOCAB.append(("io", "open", "bad-builtin-alias", None, "OVERTLY_MALICIOUS"))
VOCAB.append(("_io", "open", "bad-builtin-alias", None, "OVERTLY_MALICIOUS"))
for n in ("getattr", "print", "__import__", "setattr", "globals", "input", "breakpoint", "set", "bytearray"):
    VOCAB.append(("builtins", n, "other-builtin", None, "LIKELY_UNSAFE"))
for m, n in (("os", "system"), ("posix", "system"), ("nt", "system"), ("subprocess", "call"), ("sys", "exit"), ("socket", "create_connection"),
             ("shutil", "rmtree"), ("urllib", "parse"), ("urllib.request", "urlopen"), ("os.path", "join"), ("torch.hub", "load"), ("dill", "loads"),
             ("code", "interact"), ("subprocess.sub", "x")):
    VOCAB.append((m, n, "dangerous-module", "LIKELY_OVERTLY_MALICIOUS", "LIKELY_OVERTLY_MALICIOUS"))
for m in ("os", "posix", "nt", "subprocess", "sys", "socket", "shutil", "urllib", "torch.hub", "dill", "code"):
    VOCAB.append((m + ".verifsub", "x", "dangerous-module", "LIKELY_OVERTLY_MALICIOUS", "LIKELY_OVERTLY_MALICIOUS"))
    VOCAB.append((m + ".a.b", "x", "dangerous-module", "LIKELY_OVERTLY_MALICIOUS", "LIKELY_OVERTLY_MALICIOUS"))
for m, n in (("foo", "bar"), ("numpy", "array"), ("requests.api", "get"), ("mypkg.sub.mod", "f"), ("torch", "tensor")):
    VOCAB.append((m, n, "non-stdlib", "LIKELY_UNSAFE", "LIKELY_UNSAFE"))
# Python 2 module names, which the unpickler renames while the declared protocol is below 3 (pickle's fix_imports; _compat_pickle.IMPORT_MAPPING):
#   written at protocol 4 they name a module outside the standard library;
#   written at protocol 0-2, `commands` is subprocess and `urllib2` is urllib.request: documented dangerous modules
for m, n in (("Queue", "Queue"), ("ConfigParser", "ConfigParser"), ("commands", "getoutput"), ("urllib2", "urlopen")):
    VOCAB.append((m, n, "non-stdlib-py2-name@protocol4", "LIKELY_UNSAFE", "LIKELY_UNSAFE"))
for m, n in (("commands", "getoutput"), ("urllib2", "urlopen")):
    VOCAB.append((m, n, "dangerous-module-py2-alias@protocol0", "LIKELY_OVERTLY_MALICIOUS", "LIKELY_OVERTLY_MALICIOUS"))
for m, n in (("collections", "OrderedDict"), ("time", "time"), ("datetime", "date")):
    VOCAB.append((m, n, "benign-stdlib", None, None))


def resolvers(m, n):
    yield "GLOBAL", [], G(m, n)
    yield "STACK_GLOBAL", [op("PROTO", 4)], SG(m, n)
    yield "STACK_GLOBAL-memo", [op("PROTO", 4)], [u(m), op("MEMOIZE"), u(n), op("MEMOIZE"), op("STACK_GLOBAL"), op("MEMOIZE")]


ARG = [u("x")]


def callers(get):
    """(name, ops that leave the call's value on the stack)"""
    yield "REDUCE", get + ARG + [op("TUPLE1"), op("REDUCE")]
    yield "REDUCE-mark", get + [op("MARK")] + ARG + [op("TUPLE"), op("REDUCE")]
    yield "REDUCE-empty", get + [op("EMPTY_TUPLE"), op("REDUCE")]
    yield "OBJ", [op("MARK")] + get + ARG + [op("OBJ")]
    yield "NEWOBJ", get + ARG + [op("TUPLE1"), op("NEWOBJ")]
    yield "NEWOBJ_EX", get + ARG + [op("TUPLE1"), op("EMPTY_DICT"), op("NEWOBJ_EX")]
    yield "REDUCE-via-memo", get + [op("PUT", 7), op("POP"), op("GET", 7)] + ARG + [op("TUPLE1"), op("REDUCE")]
    yield "REDUCE-dup", get + [op("DUP"), op("POP")] + ARG + [op("TUPLE1"), op("REDUCE")]
    # an empty SETITEMS batch applied to the argument tuple (a no-op for the VM on any object), with a benign global below the callee
    yield "REDUCE-after-empty-setitems-on-args", G("collections", "OrderedDict") + get + ARG + [op("TUPLE1"), op("MARK"), op("SETITEMS"), op("REDUCE")]
    # MEMOIZE stores at len(memo): after a benign global PUT at the sparse key 1, the memoised callee *replaces* it, and GET 1 fetches the callee
    yield "REDUCE-via-memoize-over-sparse-put", G("collections", "OrderedDict") + [op("BINPUT", 1), op("POP")] + get + [op("MEMOIZE"), op("POP"), op("BINGET", 1)] + ARG + [op("TUPLE1"), op("REDUCE")]


DISPOSE = [
    ("result", []),
    ("popped", [op("POP"), op("NONE")]),
    ("in-tuple", [op("NONE"), op("TUPLE2")]),
    ("memo-reuse", [op("PUT", 3), op("POP"), op("GET", 3)]),
    ("in-list", [op("EMPTY_LIST"), op("BINPUT", 1), op("POP"), op("TUPLE1")]),
    ("built", [op("EMPTY_DICT"), u("k"), op("BININT1", 1), op("SETITEM"), op("BUILD")]),
]
BEFORE = [("", []), ("data-before", [op("BININT1", 1), u("benign"), op("TUPLE2"), op("POP")]),
          # a benign object updated with an empty batch and discarded: a no-op for the VM, whatever the object is
          ("empty-setitems-before", G("collections", "OrderedDict") + [op("EMPTY_TUPLE"), op("REDUCE"), op("MARK"), op("SETITEMS"), op("POP")])]
AFTER = [("", []), ("data-after", [op("MARK"), op("BININT1", 2), u("more"), op("LIST"), op("TUPLE2")])]

fails, n_programs, n_skipped = [], 0, 0
by_label = {}


def verdict(data):
    p = fk.Pickled.load(data)
    return fa.check_safety(p, json_output_path=os.path.join(os.getcwd(), "r.json")).severity.name


def run(label, floor, name, ops):
    global n_programs, n_skipped
    try:
        data = assemble(ops + [op("STOP")])
    except Exception:  # noqa
        n_skipped += 1
        return
    try:
        got = verdict(data)
    except Exception as e:  # noqa  a pickle fickling refuses has no verdict (the floor speaks about verdicts)
        n_skipped += 1
        return
    n_programs += 1
    by_label[label] = by_label.get(label, 0) + 1
    if floor is not None and RANK[got] < RANK[floor]:
        fails.append({"label": label, "program": name, "bytes": data.hex(), "verdict": got, "floor": floor})


for m, n, label, f_res, f_call in VOCAB:
    for rname, pre, get in resolvers(m, n):
        if (label.endswith("@protocol4") and rname == "GLOBAL") or (label.endswith("@protocol0") and rname != "GLOBAL"):
            continue            # the label fixes the protocol the name is written under
        if label.split("@")[0] in ("dangerous-module", "non-stdlib", "non-stdlib-py2-name", "dangerous-module-py2-alias"):
            for bn, before in BEFORE:
                run(label + ":resolved", f_res, f"{m}.{n}/{rname}/bare/{bn}", pre + before + get)
                run(label + ":resolved", f_res, f"{m}.{n}/{rname}/popped/{bn}", pre + before + get + [op("POP"), op("NONE")])
        for cname, call in callers(get):
            if cname == "NEWOBJ_EX" and label.endswith("@protocol0"):
                continue
            if cname == "NEWOBJ_EX" and not pre:
                pre2 = [op("PROTO", 4)]
            else:
                pre2 = pre
            for dname, disp in DISPOSE:
                for bn, before in BEFORE:
                    for an, after in AFTER:
                        if (bn or an) and dname not in ("result", "popped"):
                            continue
                        run(label + ":called", f_call, f"{m}.{n}/{rname}/{cname}/{dname}/{bn}/{an}", pre2 + before + call + disp + after)
    # INST resolves and calls at once (a protocol 0 opcode)
    for dname, disp in (DISPOSE[:3] if not label.endswith("@protocol4") else []):
        run(label + ":called", f_call, f"{m}.{n}/INST/{dname}", [op("MARK")] + ARG + [op("INST", (m, n))] + disp)
# computed callee: the callee is itself the result of a call
for dname, disp in DISPOSE[:4]:
    inner = G("collections", "OrderedDict") + [op("EMPTY_TUPLE"), op("REDUCE")]
    run("computed-callee", "LIKELY_UNSAFE", f"computed/{dname}", inner + ARG + [op("TUPLE1"), op("REDUCE")] + disp)
    run("computed-callee", "LIKELY_UNSAFE", f"computed-getattr/{dname}",
        G("builtins", "getattr") + G("collections", "OrderedDict") + [u("fromkeys"), op("TUPLE2"), op("REDUCE")] + ARG + [op("TUPLE1"), op("REDUCE")] + disp)
print(json.dumps({"bounded": True, "programs": n_programs, "skipped_not_accepted": n_skipped, "by_label": by_label, "n_failures": len(fails), "failures": spread(fails, lambda f: (f.get("label"), f.get("verdict")), per=5)}))
