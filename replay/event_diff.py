"""Replay / bounded cross-check for C03: every import and call the reference VM performs (inert environment) must be present as a
top-level statement of the decompiled module, at least as many times.  Prints JSON."""
import ast
import collections
import json
import os
import sys
sys.path.insert(0, os.path.dirname(os.path.abspath(__file__)))
from _report import spread  # noqa: E402
from vmref import RefVM, corpus  # noqa: E402
import fickling.fickle as fk  # noqa: E402

BUILTINS = ("builtins", "__builtin__", "__builtins__")
fails, nprog, refused = [], 0, 0
for name, data in corpus():
    vm = RefVM(data)
    n, res = vm.run()
    if res[0] != "ok":
        continue
    try:
        p = fk.Pickled.load(data)
        mod = p.ast
    except Exception as e:  # noqa
        refused += 1       # refusing is allowed; silently dropping is not
        continue
    nprog += 1
    want_imports = collections.Counter((m, a) for k, m, a in [e for e in vm.log if e[0] == "import"] if m not in BUILTINS)
    want_calls = collections.Counter(e[1].split(".")[-1] for e in vm.log if e[0] == "call")
    want_builds = sum(1 for e in vm.log if e[0] == "build")
    want_pers = sum(1 for e in vm.log if e[0] == "persistent_load")
    have_imports, have_calls, have_builds, have_pers = collections.Counter(), collections.Counter(), 0, 0
    imported_names = set()
    for s in mod.body:
        if isinstance(s, ast.ImportFrom):
            for a in s.names:
                have_imports[(s.module, a.name)] += 1
        v = getattr(s, "value", None) if isinstance(s, (ast.Assign, ast.Expr)) else None
        if isinstance(v, ast.Call):
            f = v.func
            if isinstance(f, ast.Name):
                have_calls[f.id] += 1
            elif isinstance(f, ast.Attribute) and f.attr == "__setstate__":
                have_builds += 1
            elif isinstance(f, ast.Attribute) and f.attr == "persistent_load":
                have_pers += 1
            else:
                have_calls["<computed>"] += 1
    missing = []
    for k, c in want_imports.items():
        if have_imports[k] < 1:
            missing.append(f"import {k[0]}.{k[1]}")
    # calls: callee named by a global keep their name; calls of computed callees are counted together
    named = {a for (_, a) in want_imports} | {e[2] for e in vm.log if e[0] == "import"}
    total_want = sum(want_calls.values())
    total_have = sum(have_calls.values())
    if total_have < total_want:
        missing.append(f"{total_want - total_have} call statement(s): VM calls {dict(want_calls)}, decompile has {dict(have_calls)}")
    # the same callee: a call whose callee the VM obtained from a global must be a call statement of that name (OBJ / INST / REDUCE call the
    # global itself; NEWOBJ / NEWOBJ_EX call its __new__, which the decompiled program writes as an attribute call and is counted above)
    imps = [(m, a) for k, m, a in [e for e in vm.log if e[0] == "import"]]
    newobj_ops = {"NEWOBJ", "NEWOBJ_EX"} & {o.info.name for o in p}
    if not newobj_ops:
        want_named = collections.Counter()
        for e in vm.log:
            if e[0] == "call":
                cands = frozenset(a for (m, a) in imps if f"{m}.{a}" == e[1])
                if cands:
                    want_named[cands] += 1
        for cands, c in want_named.items():
            if sum(have_calls[a] for a in cands) < c:
                missing.append(f"{c - sum(have_calls[a] for a in cands)} call(s) of {sorted(cands)[0]}: the VM calls it {c} time(s), the decompiled program has "
                               f"{dict(have_calls)}")
    if have_builds < want_builds:
        missing.append(f"{want_builds - have_builds} __setstate__ statement(s)")
    if have_pers < want_pers:
        missing.append(f"{want_pers - have_pers} persistent_load statement(s)")
    if missing:
        try:
            src = ast.unparse(mod)
        except Exception as e:  # noqa
            src = f"<unparse failed: {e}>"
        fails.append({"program": name, "bytes": data.hex(), "missing": missing, "decompiled": src[:400],
                      "opcodes": sorted({o.info.name for o in p})})
print(json.dumps({"failures": spread(fails, lambda f: (tuple(sorted(f["opcodes"]))[-3:], f["missing"][0][:20]), per=3), "n_failures": len(fails), "programs": nprog, "refused": refused}))
