"""Replay / bounded companion for C17: format identification against the documented table, read-only-ness, and polyglot hygiene.
  table:    all 32 subsets of {data.pkl, constants.pkl, version, model.json, attributes.pkl} x placement (root / one directory deep) x
            trailing appended pickle / nothing, as zip-at-offset-0 files; plus leading junk (then no zip format may be reported);
            real files from torch.save / torch.jit.save / legacy save must contain their documented format ("at least PyTorch v1.3" for
            everything torch.load's zip reader accepts).
  readonly: the identified file's bytes are unchanged and no file appears in the working directory.
  polyglot: all ordered pairs of the real files + a text file: inputs unchanged, nothing left behind but the polyglot (on success),
            the polyglot is identified as each format the construction combines.
Prints one JSON object (bounded)."""
import io
import itertools
import json
import os
import pickle
import sys
import os as _os
sys.path.insert(0, _os.path.dirname(_os.path.abspath(__file__)))
from _report import spread  # noqa: E402
import tarfile
import zipfile

seed = int(sys.argv[1]) if len(sys.argv) > 1 else 0
CWD = os.getcwd()
import torch  # noqa: E402
import fickling.polyglot as pg  # noqa: E402

MARKERS = ["data.pkl", "constants.pkl", "version", "model.json", "attributes.pkl"]
# the documented table (README / module docstring), in the code's documented order of precedence
TABLE = [("TorchScript v1.4", {"data.pkl", "constants.pkl", "version"}), ("TorchScript v1.3", {"data.pkl", "constants.pkl"}),
         ("TorchScript v1.0", {"model.json"}), ("TorchScript v1.1", {"model.json", "attributes.pkl"}), ("PyTorch v1.3", {"data.pkl"})]
ZIP_FORMATS = {t[0] for t in TABLE}
fails, n = [], 0


def quiet(fn, *a, **k):
    so = sys.stdout
    sys.stdout = io.StringIO()
    try:
        return fn(*a, **k)
    finally:
        sys.stdout = so


def listing():
    return sorted(os.listdir(CWD))


def make_zip(path, members, deep, lead=b"", trail=b"", extra="other.txt"):
    buf = io.BytesIO()
    with zipfile.ZipFile(buf, "w") as z:
        for e_ in ([extra] if isinstance(extra, str) else list(extra or [])):
            z.writestr(("archive/" + e_) if deep else e_, "x")
        for m in members:
            z.writestr(("archive/" + m) if deep else m, pickle.dumps(1) if m.endswith(".pkl") else "2")
    with open(path, "wb") as f:
        f.write(lead + buf.getvalue() + trail)


# ---- table ---------------------------------------------------------------------------------------------------------------------------
for r in range(0, 6):
    for members in itertools.combinations(MARKERS, r):
        for deep in (False, True):
            for trail_name, trail in (("", b""), ("pickle", pickle.dumps([1, 2, 3]))):
                n += 1
                p = os.path.join(CWD, "t.zip")
                make_zip(p, members, deep, trail=trail)
                before = (open(p, "rb").read(), listing())
                try:
                    got = quiet(pg.identify_pytorch_file_format, p)
                except Exception as e:  # noqa
                    fails.append({"face": "table", "members": list(members), "deep": deep, "trailing": trail_name, "what": f"raises {type(e).__name__}: {e}"[:160]})
                    continue
                want = [name for name, need in TABLE if need <= set(members)]
                got_zip = [g for g in got if g in ZIP_FORMATS]
                if got_zip != want:
                    fails.append({"face": "table", "format": next(iter(sorted(set(want) ^ set(got_zip))), "order"), "members": list(members), "deep": deep,
                                  "trailing": trail_name, "what": f"zip formats reported {got_zip}, documented table gives {want}"})
                if (open(p, "rb").read(), listing()) != before:
                    fails.append({"face": "readonly", "members": list(members), "what": "identification changed the file or the working directory"})
# the same table when the marker members are the only members, or sit next to tensor records only (names sharing a prefix with data.pkl)
for r in range(1, 6):
    for members in itertools.combinations(MARKERS, r):
        for deep in (False, True):
            for extra_name, extra in (("none", None), ("tensor-records", ["data/0", "data/1"])):
                n += 1
                p = os.path.join(CWD, "t2.zip")
                make_zip(p, members, deep, extra=extra)
                try:
                    got = quiet(pg.identify_pytorch_file_format, p)
                except Exception as e:  # noqa
                    fails.append({"face": "table", "members": list(members), "deep": deep, "other_members": extra_name, "what": f"raises {type(e).__name__}: {e}"[:160]})
                    continue
                want = [name for name, need in TABLE if need <= set(members)]
                got_zip = [g for g in got if g in ZIP_FORMATS]
                if got_zip != want:
                    fails.append({"face": "table", "format": next(iter(sorted(set(want) ^ set(got_zip))), "order"), "members": list(members), "deep": deep,
                                  "other_members": extra_name, "what": f"zip formats reported {got_zip}, documented table gives {want}"})
# leading junk: not a zip at offset 0
n += 1
p = os.path.join(CWD, "junk.zip")
make_zip(p, ["data.pkl"], True, lead=b"JUNKJUNK")
got = quiet(pg.identify_pytorch_file_format, p)
if any(g in ZIP_FORMATS for g in got):
    fails.append({"face": "table", "format": "leading-junk", "what": f"a zip that does not start at offset 0 is reported as {got}"})

# ---- real files ----------------------------------------------------------------------------------------------------------------------
REAL = {}


class M(torch.nn.Module):
    def __init__(self):
        super().__init__()
        self.l = torch.nn.Linear(2, 2)

    def forward(self, x):
        return self.l(x)


def mk(name, fn):
    p = os.path.join(CWD, name)
    try:
        fn(p)
        REAL[name] = p
    except Exception as e:  # noqa
        pass


mk("std.pt", lambda p: torch.save({"w": torch.zeros(2, 2)}, p))
mk("legacy.pt", lambda p: torch.save({"w": torch.zeros(2)}, p, _use_new_zipfile_serialization=False))
mk("script.pt", lambda p: torch.jit.save(torch.jit.script(M()), p))
with open(os.path.join(CWD, "plain.txt"), "w") as f:
    f.write("not a model\n")
REAL["plain.txt"] = os.path.join(CWD, "plain.txt")
with open(os.path.join(CWD, "bare.pkl"), "wb") as f:
    pickle.dump([1, 2, 3], f)
REAL["bare.pkl"] = os.path.join(CWD, "bare.pkl")


def make_mar(p):
    with zipfile.ZipFile(p, "w") as z:
        z.writestr("MAR-INF/MANIFEST.json", "{}")
        z.writestr("model.pt", b"x")
        z.writestr("handler.py", "pass")


mk("model.mar", make_mar)
try:
    import numpy as np
    np.save(os.path.join(CWD, "arr.npy"), np.arange(4))
    REAL["arr.npy"] = os.path.join(CWD, "arr.npy")
except Exception:  # noqa
    pass
NOT_MODELS = ("plain.txt", "arr.npy")


def make_legacy_tar(p):
    with tarfile.open(p, "w", format=tarfile.PAX_FORMAT) as t:
        for nm in ("sys_info", "pickle", "storages", "tensors"):
            data = pickle.dumps(nm)
            ti = tarfile.TarInfo(nm)
            ti.size = len(data)
            t.addfile(ti, io.BytesIO(data))


mk("legacy.tar", make_legacy_tar)
EXPECT = {"std.pt": "PyTorch v1.3", "script.pt": "TorchScript v1.4", "legacy.pt": "PyTorch v0.1.10",
          "model.mar": "PyTorch model archive format", "legacy.tar": "PyTorch v0.1.1"}
IDENT = {}
for name, p in REAL.items():
    n += 1
    before = (open(p, "rb").read(), listing())
    try:
        got = quiet(pg.identify_pytorch_file_format, p)
    except Exception as e:  # noqa
        got = [f"raises {type(e).__name__}"]
    IDENT[name] = got
    if name in EXPECT and EXPECT[name] not in got:
        fails.append({"face": "table", "format": EXPECT[name], "file": name, "what": f"a real {EXPECT[name]} file is reported as {got}"})
    if name == "arr.npy" and got and got[0].startswith("raises") and not hasattr(__import__("numpy.lib.format", fromlist=["x"]), "_header_size_info"):
        # the baseline's numpy no longer has the private table check_numpy reads (the repository's own numpy tests fail for the same reason):
        # an environment mismatch recorded in the output, not a finding about identification
        IDENT[name] = ["skipped: numpy.lib.format._header_size_info is absent in this numpy"]
        continue
    if name in NOT_MODELS and got:
        fails.append({"face": "table", "format": got[0], "file": name, "what": f"a file that is none of the documented formats is reported as {got}"})
    if name in ("std.pt", "script.pt") and "PyTorch v1.3" not in got:
        fails.append({"face": "table", "format": "PyTorch v1.3", "file": name, "what": f"a file torch.load's zip reader accepts is reported as {got}"})
    if (open(p, "rb").read(), listing()) != before:
        fails.append({"face": "readonly", "file": name, "what": "identification changed the file or the working directory"})

# ---- polyglots -----------------------------------------------------------------------------------------------------------------------
COMBINES = [({"PyTorch model archive format", "PyTorch v0.1.10"}, "polyglot.mar.pt"), ({"PyTorch v1.3", "TorchScript v1.4"}, "polyglot.pt"),
            ({"PyTorch model archive format", "PyTorch v0.1.1"}, "polyglot.mar.tar")]
for a, b in itertools.permutations(sorted(REAL), 2):
    n += 1
    pa, pb = REAL[a], REAL[b]
    snap = {x: open(REAL[x], "rb").read() for x in REAL}
    before = set(listing())
    outcome = None
    try:
        ok = quiet(pg.create_polyglot, pa, pb, None, False)
        outcome = "found" if ok else "none"
    except Exception as e:  # noqa
        outcome = f"raises {type(e).__name__}"
    case = {"face": "polyglot", "first": a, "second": b, "outcome": outcome}
    changed = [x for x in REAL if open(REAL[x], "rb").read() != snap[x]]
    if changed:
        fails.append(dict(case, kind="inputs-modified", what=f"input files modified: {changed}"))
        for x in changed:
            with open(REAL[x], "wb") as f:
                f.write(snap[x])
    new = sorted(set(listing()) - before)
    allowed = {c[1] for c in COMBINES} if outcome == "found" else set()
    stray = [x for x in new if x not in allowed]
    if stray:
        fails.append(dict(case, kind="left-behind", what=f"left behind in the working directory: {stray}"))
    if outcome == "found":
        fa, fb = (IDENT.get(a) or [None])[0], (IDENT.get(b) or [None])[0]
        for fmts, out_name in COMBINES:
            if fmts <= {fa, fb} and os.path.exists(os.path.join(CWD, out_name)):
                got = quiet(pg.identify_pytorch_file_format, os.path.join(CWD, out_name))
                miss = sorted(fmts - set(got))
                if miss:
                    fails.append(dict(case, kind="not-identified", what=f"{out_name} is identified as {got}: missing {miss}"))
    for x in new:
        px = os.path.join(CWD, x)
        if os.path.isdir(px):
            import shutil
            shutil.rmtree(px, ignore_errors=True)
        else:
            os.remove(px)
print(json.dumps({"bounded": True, "runs": n, "real_files": {k: v for k, v in IDENT.items()}, "n_failures": len(fails), "failures": spread(fails, lambda f: (f.get("face"), f.get("format"), f.get("kind")), per=6)}))
