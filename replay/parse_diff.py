"""Replay / bounded cross-check for C06: parse + dumps is byte-exact for the first pickle of a stream, leaves the stream just after it,
does not consume/alter what follows (bytes, seekable and non-seekable streams), and stacked parsing partitions a concatenation.  JSON."""
import io
import json
import os
import pickletools
import random
import sys
sys.path.insert(0, os.path.dirname(os.path.abspath(__file__)))
from vmref import corpus  # noqa: E402
import fickling.fickle as fk  # noqa: E402

seed = int(sys.argv[1]) if len(sys.argv) > 1 else 0
rnd = random.Random(seed)


class NonSeekable(io.RawIOBase):
    def __init__(self, data):
        self._b = io.BytesIO(data)

    def readable(self):
        return True

    def seekable(self):
        return False

    def read(self, n=-1):
        return self._b.read(n)

    def readline(self, n=-1):
        return self._b.readline(n)

    def remaining(self):
        return self._b.read()


class Segmented(NonSeekable):
    """a non-seekable stream whose read(n) returns at most `seg` bytes per call (a pipe, a socket): short reads are not end of stream"""

    def __init__(self, data, seg):
        super().__init__(data)
        self._seg = seg

    def read(self, n=-1):
        if n is None or n < 0:
            return self._b.read()               # read to the end (RawIOBase.readall semantics)
        return self._b.read(min(n, self._seg))

    def readinto(self, b):
        chunk = self._b.read(min(len(b), self._seg))
        b[:len(chunk)] = chunk
        return len(chunk)


def first_len(data):
    end = None
    for info, arg, pos in pickletools.genops(io.BytesIO(data)):
        if info.name == "STOP":
            end = pos + 1
    return end


fails, n = [], 0
good = []
for name, data in corpus():
    try:
        ln = first_len(data)
        fk.Pickled.load(data)
    except Exception:  # noqa
        continue
    if ln != len(data):
        continue
    good.append((name, data))
# frames whose stated length disagrees with the opcode boundaries (pickletools and the accelerated unpickler accept them): understated so
# that the frame ends inside a variable-length argument, overstated, and ending exactly on a boundary
import struct  # noqa: E402
for j, payload in enumerate([b"\x8c\x05hello\x94\x8c\x03abc\x94\x86.", b"C\x04\x00\x01\x02\x03\x94.", b"X\x06\x00\x00\x00abcdef\x94\x8c\x02xy\x86."]):
    for k in sorted({1, 2, 3, 4, 5, len(payload) // 2, len(payload) - 2, len(payload), len(payload) + 7}):
        if k >= 0:
            good.append((f"frame-{j}-len{k}-of-{len(payload)}", b"\x80\x04\x95" + struct.pack("<Q", k) + payload))
import pickle as _pk  # noqa: E402
for _pr in range(0, 6):
    good.append((f"lone-surrogate-text-p{_pr}", _pk.dumps("x\udcff", _pr)))
    good.append((f"lone-surrogate-in-list-p{_pr}", _pk.dumps(["a", "\ud800b", 1], _pr)))
    good.append((f"text-opcodes-at-offset-0-p{_pr}", _pk.dumps(True, _pr)))
    good.append((f"long-int-at-offset-0-p{_pr}", _pk.dumps(2 ** 40, _pr)))
good.append(("py2-short-binstring-254", b"U\xfe" + b"a" * 254 + b"q\x00."))
good.append(("py2-short-binstring-255-with-proto", b"\x80\x02U\xff" + b"\xe9" * 255 + b"q\x00."))
_ok = []
for nm, d in good:
    try:
        if first_len(d) == len(d):
            fk.Pickled.load(d)
            _ok.append((nm, d))
    except Exception as _e:  # noqa
        if nm.startswith(("lone-surrogate", "text-opcodes", "long-int", "py2-short")):
            fails.append({"program": nm, "bytes": d.hex(), "how": "bytes", "what": f"a pickle the stock unpickler / pickletools accept is refused: {type(_e).__name__}: {_e}"[:200]})
good = _ok
for name, data in good:
    n += 1
    trail = rnd.choice([b"", b"TRAIL", b"\x00\xff.", b"N."])
    blob = data + trail
    # bytes
    p = fk.Pickled.load(blob)
    if p.dumps() != data:
        fails.append({"program": name, "bytes": blob.hex(), "how": "bytes", "what": "dumps() differs from the first pickle"})
        continue
    # seekable stream, with a prefix already consumed
    pre = b"xx"
    s = io.BytesIO(pre + blob)
    s.read(len(pre))
    p = fk.Pickled.load(s)
    if p.dumps() != data or s.tell() != len(pre) + len(data) or s.read() != trail or s.getvalue() != pre + blob:
        fails.append({"program": name, "bytes": blob.hex(), "how": "seekable stream", "what": f"dumps ok={p.dumps() == data}, position {s.tell()} (want {len(pre) + len(data)})"})
        continue
    # non-seekable stream
    ns = NonSeekable(blob)
    p = fk.Pickled.load(ns)
    rest = ns.remaining()
    if p.dumps() != data or rest != trail:
        fails.append({"program": name, "bytes": blob.hex(), "how": "non-seekable stream",
                      "what": f"dumps ok={p.dumps() == data}; what follows the pickle: {rest!r} (want {trail!r})"})
    # non-seekable stream that delivers short reads: the parse itself must not depend on how the bytes arrive
    for seg in (1, 7, max(1, len(data) // 2)):
        sg = Segmented(blob, seg)
        try:
            p = fk.Pickled.load(sg)
            ok = p.dumps() == data
            err = None
        except Exception as e:  # noqa
            ok, err = False, f"{type(e).__name__}: {e}"[:120]
        if not ok:
            fails.append({"program": name, "bytes": blob.hex(), "how": "non-seekable stream with short reads: wrong parse",
                          "what": f"reads of at most {seg} byte(s): " + (f"raises {err}" if err else "dumps() differs from the first pickle")})
            break
# stacked
for k in range(20):
    parts = [rnd.choice(good)[1] for _ in range(rnd.randint(2, 4))]
    blob = b"".join(parts)
    for seg in (5, len(parts[0])):
        try:
            got = [p.dumps() for p in fk.StackedPickle.load(Segmented(blob, seg))]
        except Exception as e:  # noqa
            got = f"raises {type(e).__name__}"
        if got != parts:
            fails.append({"program": f"stack-segmented{k}", "bytes": blob.hex(), "how": "stacked, non-seekable stream with short reads: wrong parse",
                          "what": f"{len(parts)} pickles in, reads of at most {seg} byte(s): " + (got if isinstance(got, str) else f"{len(got)} parts out, equal: {got == parts}")})
            break
for k in range(60):
    parts = [rnd.choice(good)[1] for _ in range(rnd.randint(1, 4))]
    blob = b"".join(parts)
    try:
        sp = fk.StackedPickle.load(blob)
        got = [p.dumps() for p in sp]
    except Exception as e:  # noqa
        got = f"raises {type(e).__name__}"
    if got != parts:
        fails.append({"program": f"stack{k}", "bytes": blob.hex(), "how": "stacked bytes", "what": f"{len(parts)} pickles in, parts equal: {got == parts}"})
by_how = {}
for f in fails:
    by_how.setdefault(f["how"], []).append(f)
fails_out = [f for fl in by_how.values() for f in fl[:10]]       # every way of delivery is represented in the report
print(json.dumps({"failures": fails_out, "n_failures": len(fails), "programs": n, "stacks": 60}))
