"""Replay / bounded companion for C05: acyclic Python values from a recursive generator (scalars at boundary sizes, containers, shared
sub-objects, instances with dict / slot / reduce / newargs state) at protocols 0-5, and the typed assembler corpus: the decompiled source
is executed in an environment where imported names are inert stand-ins, and its result is compared structurally — container shapes
and contents, constructor calls with their arguments, state applied, sharing where it affects the value — with what the reference VM
(pickle._Unpickler under the same stand-ins) builds.  For plain data the executed result must equal the original object.
Prints one JSON object (bounded)."""
import ast
import collections
import json
import os
import pickle
import random
import sys

sys.path.insert(0, os.path.dirname(os.path.abspath(__file__)))
from _report import spread  # noqa: E402
from vmref import RefVM, corpus  # noqa: E402
import fickling.fickle as fk  # noqa: E402

seed = int(sys.argv[1]) if len(sys.argv) > 1 else 0
rnd = random.Random(seed)


class Stand:
    """inert stand-in used by the executed decompilation: records calls / state like the reference VM's stubs do"""
    def __init__(self, qual, log):
        self.qual, self.log = qual, log

    def __call__(self, *a, **k):
        self.log.append(("call", self.qual, a, k))
        return Inst(self.qual, self.log)

    def __repr__(self):
        return f"G({self.qual})"


class Inst:
    def __init__(self, qual, log):
        self.qual, self.log, self.state = qual, log, []

    def __setstate__(self, state):
        self.log.append(("build", self.qual, state))
        self.state.append(state)

    # container protocols the decompiled program uses on a value that is not a display (x.update({...}), x[k] = v, x.append / extend / add)
    def update(self, *a, **k):
        self.state.append(("update", a, k))

    def __setitem__(self, k, v):
        self.state.append(("setitem", k, v))

    def append(self, v):
        self.state.append(("append", v))

    def extend(self, vs):
        self.state.append(("extend", list(vs)))

    def add(self, v):
        self.state.append(("add", v))

    def __repr__(self):
        return f"Ret({self.qual})"


def norm(x, seen=None, ids=None):
    """structural normal form: containers by shape, stand-ins / instances by qualified name and recorded state, plus a sharing signature for
    mutable containers (which occurrences are the same object)"""
    ids = {} if ids is None else ids
    if isinstance(x, (list, dict, set, bytearray)):
        k = ids.setdefault(id(x), len(ids))
    else:
        k = None
    if isinstance(x, (bool, int, float, str, bytes, type(None), complex)):
        return (type(x).__name__, repr(x))
    if isinstance(x, (list, tuple)):
        return (type(x).__name__, k, [norm(y, seen, ids) for y in x])
    if isinstance(x, dict):
        return ("dict", k, [(norm(a, seen, ids), norm(b, seen, ids)) for a, b in x.items()])
    if isinstance(x, (set, frozenset)):
        return (type(x).__name__, k, sorted(repr(norm(y, seen, ids)) for y in x))
    if isinstance(x, bytearray):
        return ("bytearray", k, bytes(x))
    if isinstance(x, Stand):
        return ("global", canon(x.qual))
    if isinstance(x, type):
        return ("global", canon(getattr(x, "__module__", "?") + "." + x.__name__))
    q = getattr(x, "qual", None) or (type(x).__module__ + "." + type(x).__qualname__)
    return ("object", canon(q))


SAFE_REAL = {"set", "frozenset", "bytearray", "complex", "list", "dict", "tuple", "int", "str", "bytes", "float", "bool", "range", "slice", "object"}


ALIASES = {"__builtin__": "builtins", "copy_reg": "copyreg", "__builtins__": "builtins"}


def canon(q):
    m, _, n = q.rpartition(".")
    n = {"xrange": "range", "unicode": "str", "long": "int"}.get(n, n) if ALIASES.get(m, m) == "builtins" else n
    return ALIASES.get(m, m) + "." + n


def run_decompiled(src, log, real=False):
    """real=False: every imported name and every builtin the program mentions is an inert stand-in (as in the reference VM's run);
    real=True (plain data): the data constructors pickle itself uses for plain data are the real ones (builtins above, _codecs.encode)"""
    tree = ast.parse(src)
    env = {"__builtins__": {}}
    import builtins
    import _codecs
    assigned = {t.id for st in tree.body for t in ast.walk(st) if isinstance(t, ast.Name) and isinstance(t.ctx, ast.Store)}
    imported = {(a.asname or a.name).split(".")[0] for st in tree.body if isinstance(st, (ast.Import, ast.ImportFrom)) for a in st.names}
    for n in {x.id for x in ast.walk(tree) if isinstance(x, ast.Name)} - imported - assigned:
        # a name the program neither imports nor assigns: a builtin (also Python 2 ones such as xrange) resolved in the ambient builtins
        env[n] = getattr(builtins, n) if (real and n in SAFE_REAL) else Stand(f"builtins.{n}", log)
    env["UNPICKLER"] = type("U", (), {"persistent_load": staticmethod(lambda pid: ("PERS", pid))})
    # statement by statement, in program order: an import binds its name at that point (a later import of the same name re-binds it)
    for st in tree.body:
        if isinstance(st, ast.ImportFrom):
            for a in st.names:
                if real and (st.module, a.name) == ("_codecs", "encode"):
                    env[a.asname or a.name] = _codecs.encode
                elif real and st.module in ("builtins", "__builtin__") and a.name in SAFE_REAL:
                    env[a.asname or a.name] = getattr(builtins, a.name)
                else:
                    env[a.asname or a.name] = Stand(f"{st.module}.{a.name}", log)
        elif isinstance(st, ast.Import):
            for a in st.names:
                env[(a.asname or a.name).split(".")[0]] = Stand(a.name, log)
        else:
            exec(compile(ast.Module(body=[st], type_ignores=[]), "<decompiled>", "exec"), env)
    return env.get("result")


def events(log):
    out = []
    for e in log:
        if e[0] == "call":
            out.append(("call", canon(e[1]), norm(list(e[2])), norm(dict(e[3]))))
        elif e[0] == "build":
            out.append(("build", canon(e[1]), norm(e[2])))
    return out


fails, n, n_plain = [], 0, 0


def cause(src):
    """why the decompiled source is not a Python program, for the two causes that are recorded findings (computed on the whole source)"""
    import re
    if "<ast.Set object at" in src:
        return "frozenset-constant"
    if re.search(r"(?m)^from \S+ import \w+\.\w[\w.]*$", src):
        return "dotted-import-name"
    return None

UNSUPPORTED = {}


def check(name, data, original=None, plain=False):
    global n, n_plain
    vm = RefVM(data)
    cnt, (status, val) = vm.run()
    if status != "ok":
        return
    try:
        p = fk.Pickled.load(data)
        src = ast.unparse(p.ast)
    except Exception as e:  # noqa
        if plain and not (isinstance(e, NotImplementedError) and "Add support for" in str(e)):
            # (an opcode fickling does not support is outside the statement: "at every protocol that encodes them with supported opcodes")
            fails.append({"program": name, "bytes": data.hex()[:300], "kind": "plain-data-refused", "what": f"plain data is not decompiled: {type(e).__name__}: {e}"[:200]})
        elif plain:
            UNSUPPORTED[str(e)[-40:]] = UNSUPPORTED.get(str(e)[-40:], 0) + 1
        return
    n += 1
    n_plain += plain
    log = []
    if plain:
        try:
            got = run_decompiled(src, log, real=True)
        except Exception as e:  # noqa
            fails.append({"program": name, "bytes": data.hex()[:300], "kind": "decompiled-source-fails", "note": cause(src),
                          "what": f"running the decompiled source raises {type(e).__name__}: {e}"[:200], "source": src[:300]})
            return
        a, b = strip_ids(norm(original)), strip_ids(norm(got))
        if a != b:
            fails.append({"program": name, "bytes": data.hex()[:300], "kind": "plain-data",
                          "what": f"the original is {short(a)}, the decompiled program builds {short(b)}", "source": src[:300]})
        return
    try:
        got = run_decompiled(src, log)
    except Exception as e:  # noqa
        fails.append({"program": name, "bytes": data.hex()[:300], "kind": "decompiled-source-fails", "what": f"running the decompiled source raises {type(e).__name__}: {e}"[:200],
                      "source": src[:300], "note": cause(src)})
        return
    a, b = norm(val), norm(got)
    if a != b:
        fails.append({"program": name, "bytes": data.hex()[:300], "kind": "value" if strip_ids(a) != strip_ids(b) else "sharing",
                      "what": f"VM builds {short(a)}, the decompiled program builds {short(b)}", "source": src[:300]})
        return
    ev_vm = [("call", canon(e[1]), norm(list(e[2])), norm(dict(e[3]))) if e[0] == "call" else ("build", canon(e[1]), norm(e[2]))
             for e in vm.log if e[0] in ("call", "build")]
    if strip_ids(ev_vm) != strip_ids(events(log)):
        fails.append({"program": name, "bytes": data.hex()[:300], "kind": "calls", "what": f"VM calls {short(ev_vm)}, decompiled program calls {short(events(log))}",
                      "source": src[:300]})


def strip_ids(t):
    if isinstance(t, tuple) and len(t) == 3 and t[0] in ("list", "dict", "set", "bytearray", "tuple", "frozenset"):
        return (t[0], strip_ids(t[2]))
    if isinstance(t, (list, tuple)):
        return type(t)(strip_ids(x) for x in t)
    return t


def short(t):
    return repr(strip_ids(t))[:160]


def gen_value(depth=0):
    k = rnd.random()
    if depth > 2 or k < 0.4:
        return rnd.choice([0, 1, -1, 255, 256, 65535, 65536, 2 ** 31 - 1, 2 ** 31, -2 ** 31, 2 ** 63, -2 ** 63 - 1, 10 ** 30, True, False, None, 1.5, -0.0, 1e300,
                           "", "a", "é", "€\U0001f600", "12", "a\nb", b"", b"ab", b"\x00\xff", "x" * 300, b"y" * 300])
    if k < 0.55:
        return [gen_value(depth + 1) for _ in range(rnd.randrange(0, 4))]
    if k < 0.7:
        return tuple(gen_value(depth + 1) for _ in range(rnd.randrange(0, 5)))
    if k < 0.85:
        return {rnd.choice(["k", "j", 1, 2, (1, 2), b"b"]): gen_value(depth + 1) for _ in range(rnd.randrange(0, 4))}
    if k < 0.93:
        return {rnd.choice([1, 2, 3, "s", (1,)]) for _ in range(rnd.randrange(0, 4))}
    return frozenset(rnd.choice([1, 2, "s"]) for _ in range(rnd.randrange(0, 3)))


PLAIN = []
for _ in range(60):
    PLAIN.append(gen_value())
d = {"k": 1}
lst = [1, 2]
s = {1, 2}
PLAIN += [[d, d], (lst, lst, {"x": lst}), [[]] * 3, {"a": d, "b": d}, [s, s], [lst, [lst, lst]], {"outer": {"inner": lst}, "again": lst}, [bytearray(b"x")] * 2,
          [{}, {}], [d, {"k": 1}], ([], []), [(), ()], {1: [], 2: []}]
for i, v in enumerate(PLAIN):
    for proto in range(0, 6):
        try:
            data = pickle.dumps(v, proto)
        except Exception:  # noqa
            continue
        check(f"plain{i}_p{proto}", data, original=v, plain=True)


class Slots:
    __slots__ = ("a", "b")

    def __init__(self):
        self.a, self.b = 1, [2]


class DictState:
    def __init__(self):
        self.x, self.y = 1, {"k": [1]}


class Reducer:
    def __reduce__(self):
        return (collections.OrderedDict, ([("a", 1)],), {"extra": 1})


class NewArgs:
    def __getnewargs_ex__(self):
        return ((1, 2), {"k": 3})

    def __getstate__(self):
        return {"s": 1}


import __main__  # noqa: E402
for c in (Slots, DictState, Reducer, NewArgs):
    c.__module__ = "__main__"
    setattr(__main__, c.__name__, c)
for i, make in enumerate([Slots, DictState, Reducer, NewArgs, lambda: [DictState(), DictState()], lambda: collections.OrderedDict(a=[1]), lambda: collections.Counter("aab"),
                          lambda: collections.deque([1, 2]), lambda: complex(1, 2), lambda: range(3), lambda: slice(1, 2, 3)]):
    for proto in range(0, 6):
        try:
            data = pickle.dumps(make(), proto)
        except Exception:  # noqa
            continue
        check(f"instance{i}_p{proto}", data)
for name, data in corpus():
    if not name.startswith("natural"):
        check("asm:" + name, data)
by = collections.Counter(f["kind"] for f in fails)
print(json.dumps({"bounded": True, "programs": n, "plain_data_programs": n_plain, "by_kind": dict(by), "unsupported_opcodes_skipped": UNSUPPORTED, "n_failures": len(fails), "failures": spread(fails, lambda f: (f["kind"], f.get("note")), per=8)}, default=str))
