"""Replay / companion for C10's ordering clause: all 36 ordered pairs of severities under all six comparison operators against the documented
ranking, plus max / min / sorted and comparisons with non-severity operands.  The domain is finite, so this enumeration is exhaustive for the
clause 'Severity is a strict total order identical to its documented ranking under every comparison operator'.  Prints one JSON object."""
import itertools
import json
import operator

from fickling.analysis import Severity

DOCUMENTED = ["LIKELY_SAFE", "POSSIBLY_UNSAFE", "SUSPICIOUS", "LIKELY_UNSAFE", "LIKELY_OVERTLY_MALICIOUS", "OVERTLY_MALICIOUS"]
rank = {n: i for i, n in enumerate(DOCUMENTED)}
OPS = {"<": operator.lt, "<=": operator.le, ">": operator.gt, ">=": operator.ge, "==": operator.eq, "!=": operator.ne}
fails, n = [], 0
members = list(Severity)
if sorted(m.name for m in members) != sorted(DOCUMENTED):
    fails.append({"what": f"the severities are {[m.name for m in members]}, the documented ones {DOCUMENTED}", "kind": "members"})
else:
    for a, b in itertools.product(members, repeat=2):
        for sym, fn in OPS.items():
            n += 1
            try:
                got = fn(a, b)
            except Exception as e:  # noqa
                got = f"raises {type(e).__name__}"
            want = fn(rank[a.name], rank[b.name])
            if got is not want:
                fails.append({"what": f"{a.name} {sym} {b.name} is {got!r}, the documented ranking gives {want!r}", "kind": f"operator {sym}", "pair": [a.name, b.name]})
    for perm in itertools.islice(itertools.permutations(members), 0, 720, 37):
        n += 1
        if [m.name for m in sorted(perm)] != DOCUMENTED or max(perm).name != DOCUMENTED[-1] or min(perm).name != DOCUMENTED[0]:
            fails.append({"what": f"sorted / max / min over {[m.name for m in perm]} disagree with the documented ranking", "kind": "sorted-max-min"})
            break
print(json.dumps({"bounded": True, "exhaustive_over": "36 ordered pairs x 6 operators", "comparisons": n, "n_failures": len(fails), "failures": fails[:40]}))
