"""Replay / bounded companion for C02: the checked load is fail-closed and loads exactly what it analysed.
Inputs: benign data, pickles that call a harmless *sink* (flagged at several severities), and inputs on which fickling's analysis raises
although the stock unpickler would happily run them (a sink call followed by an opcode fickling cannot model, a dangling memo GET after it, ...).
Delivery: BytesIO, a non-seekable stream, and a stream that serves different (flagged) bytes once it has been read to the end and rewound.
Arming: loader.load(file, max_acceptable_severity=t) for all six thresholds, pickle.load under the global hook, pickle.load inside the context
manager.  Observed: return value / exception and its info['severity'], pickle.find_class audit events and the sink's call log during the call.
Expected (from the statement): an object is returned only when fickling's verdict for those bytes is at or below the threshold, and then it
equals pickle.loads(bytes) of the bytes analysed; otherwise UnsafeFileError carrying that verdict — and whenever no object is returned,
nothing was resolved or called.  Prints one JSON object (bounded)."""
import io
import json
import os
import pickle
import sys
import types

sys.path.insert(0, os.path.dirname(os.path.abspath(__file__)))
from _report import spread  # noqa: E402
from vmref import assemble, op, G  # noqa: E402
import fickling  # noqa: E402
import fickling.fickle as fk  # noqa: E402
import fickling.hook as hook  # noqa: E402
import fickling.loader as loader  # noqa: E402
from fickling.analysis import Severity, check_safety  # noqa: E402
from fickling.exception import UnsafeFileError  # noqa: E402

seed = int(sys.argv[1]) if len(sys.argv) > 1 else 0
try:            # a mis-parsed length field must fail fast (MemoryError), not page through gigabytes
    import resource
    resource.setrlimit(resource.RLIMIT_AS, (3 << 30, 3 << 30))
except Exception:  # noqa
    pass
CALLS, FOUND, ACTIVE = [], [], [False]
sink = types.ModuleType("verif_c02_sink")


def hit(*a):
    CALLS.append(a)
    return ("sink-result", a)


sink.hit = hit
hit.__module__ = "verif_c02_sink"
sys.modules["verif_c02_sink"] = sink


def audit(event, args):
    if ACTIVE[0] and event == "pickle.find_class":
        FOUND.append(tuple(args))


sys.addaudithook(audit)
u = lambda s: op("SHORT_BINUNICODE", s)  # noqa
call_sink = G("verif_c02_sink", "hit") + [u("x"), op("TUPLE1"), op("REDUCE")]
INPUTS = [
    ("benign-list", pickle.dumps([1, 2, {"a": (3, 4)}], 2)),
    ("benign-proto4", pickle.dumps({"k": [1.5, "s", b"b"]}, 4)),
    ("benign-stdlib-object", pickle.dumps(__import__("collections").OrderedDict(a=1))),
    # flagged without any import or call: only the opcode-level analyses speak (duplicate / misplaced PROTO around plain data)
    ("plain-data-duplicate-proto", b"\x80\x02\x80\x02K\x01."),
    ("plain-data-duplicate-proto-other-version", b"\x80\x04\x80\x02]\x94."),
    ("plain-data-misplaced-proto", b"K\x01\x80\x030K\x02."),
    # plain data whose text is not ASCII, followed by a bytes constant that would be a sink call if the parser lost count of the bytes
    ("non-ascii-text-then-bytes-that-look-like-opcodes", pickle.dumps(("\u00e9\u00e9", b"cverif_c02_sink\nhit\n)R."), 4)),
    ("non-ascii-text-then-bytes-that-look-like-opcodes-p2", pickle.dumps(["\u20ac" * 3, b"cverif_c02_sink\nhit\n)R.", "z"], 3)),
    # 4 characters / 8 bytes of text, then BINPUT (2 bytes) and the 2-byte header of a SHORT_BINBYTES whose content is a sink call: a parser that
    # counts characters where the stream counts bytes re-serialises the text 4 bytes short, and the unpickler then runs the content as opcodes
    ("non-ascii-text-4-chars-8-bytes-then-opcode-like-bytes-p3", pickle.dumps(["\u00e9" * 4, b"cverif_c02_sink\nhit\n)R."], 3)),
    ("sink-call", assemble(call_sink + [op("STOP")])),
    ("sink-call-popped", assemble(call_sink + [op("POP"), op("NONE"), op("STOP")])),
    ("sink-import-only", assemble(G("verif_c02_sink", "hit") + [op("STOP")])),
    ("eval-then-sink-call", assemble(G("builtins", "eval") + [u("1"), op("TUPLE1"), op("REDUCE"), op("POP")] + call_sink + [op("STOP")])),
    ("sink-via-eval-name", assemble(G("builtins", "getattr") + G("verif_c02_sink", "hit") + [u("__call__"), op("TUPLE2"), op("REDUCE"), op("EMPTY_TUPLE"), op("REDUCE"), op("STOP")])),
    # analysis raises (the stock unpickler does not): an opcode fickling does not model / a state its interpreter rejects, after the sink call
    ("sink-then-unmodelled-FLOAT", assemble(call_sink + [op("POP")]) + b"F1.5\n."),
    ("sink-then-dangling-get", assemble(call_sink + [op("POP"), op("BINGET", 9), op("STOP")])),
    ("sink-then-append-to-non-list", assemble(call_sink + [op("NONE"), op("APPEND"), op("STOP")])),
    ("sink-then-truncated", assemble(call_sink + [op("POP")])),
]


class NonSeekable(io.RawIOBase):
    def __init__(self, data):
        self._b = io.BytesIO(data)

    def readable(self):
        return True

    def seekable(self):
        return False

    def read(self, n=-1):
        return self._b.read(n)

    def readline(self, n=-1):
        return self._b.readline(n)

    def readinto(self, b):
        return self._b.readinto(b)


class Changing(io.BytesIO):
    """serves `first`; once it has been read to its end and rewound it serves `then` (a flagged pickle) instead"""

    def __init__(self, first, then):
        super().__init__(first)
        self._then, self._hit_end, self._swapped = then, False, False

    def read(self, n=-1):
        r = super().read(n)
        if self.tell() >= len(self.getvalue()):
            self._hit_end = True
        return r

    def readline(self, n=-1):
        r = super().readline(n)
        if self.tell() >= len(self.getvalue()):
            self._hit_end = True
        return r

    def seek(self, pos, whence=0):
        if self._hit_end and not self._swapped and pos == 0 and whence == 0:
            self._swapped = True
            super().seek(0)
            self.truncate(0)
            super().write(self._then)
            return super().seek(0)
        return super().seek(pos, whence)


SWAP_TO = assemble(call_sink + [op("STOP")])
DELIVER = [("BytesIO", lambda d: io.BytesIO(d)), ("non-seekable", lambda d: NonSeekable(d)), ("changing-after-first-pass", lambda d: Changing(d, SWAP_TO))]
fails, n = [], 0
OTHER_ERRORS = {}


class Hang(Exception):
    pass


def _alarm(signum, frame):
    raise Hang("the call did not finish within 20 s")


import signal  # noqa: E402
signal.signal(signal.SIGALRM, _alarm)


def verdict_of(data):
    signal.alarm(20)
    try:
        return check_safety(fk.Pickled.load(data), json_output_path=os.path.join(os.getcwd(), "r.json")).severity
    except Exception as e:  # noqa
        return e
    finally:
        try:
            signal.alarm(0)
        except Hang:
            signal.alarm(0)


def observe(fn):
    del CALLS[:], FOUND[:]
    ACTIVE[0] = True
    signal.alarm(20)
    try:
        return ("returned", fn())
    except UnsafeFileError as e:
        return ("unsafe-file-error", e)
    except BaseException as e:  # noqa
        return ("raised", e)
    finally:
        try:
            signal.alarm(0)
        except Hang:            # (the alarm went off while C code was running and is delivered only now)
            signal.alarm(0)
        ACTIVE[0] = False


STOCK_CALLS = [0]


def stock(data):
    del CALLS[:]
    try:
        return pickle.loads(data)
    finally:
        STOCK_CALLS[0] = len(CALLS)
        del CALLS[:]


for iname, data in INPUTS:
    v = verdict_of(data)
    ways = [(f"loader.load(threshold={t.name})", t, (lambda f, t=t: loader.load(f, max_acceptable_severity=t)), None) for t in Severity]
    ways.append(("pickle.load under always_check_safety()", Severity.LIKELY_SAFE, lambda f: pickle.load(f), "global"))
    ways.append(("pickle.load inside check_safety()", Severity.LIKELY_SAFE, lambda f: pickle.load(f), "context"))
    for wname, thr, call, arm in ways:
        for dname, mk in DELIVER:
            n += 1
            case = {"input": iname, "way": wname, "delivery": dname}
            stream = mk(data)
            hook.remove_hook()
            try:
                if arm == "global":
                    fickling.always_check_safety()
                    kind, val = observe(lambda: call(stream))
                elif arm == "context":
                    def inside():
                        with fickling.check_safety():
                            return call(stream)
                    kind, val = observe(inside)
                else:
                    kind, val = observe(lambda: call(stream))
            finally:
                hook.remove_hook()
            calls, found = list(CALLS), list(FOUND)
            if kind != "returned" and (calls or found):
                fails.append(dict(case, kind="executed-without-returning", what=f"the load did not return ({kind}: {type(val).__name__}) but resolved {found[:2]} / called the sink {len(calls)} time(s)"))
                continue
            if isinstance(v, Exception):
                if kind == "returned":
                    fails.append(dict(case, kind="returned-when-analysis-raises", what=f"analysis of these bytes raises {type(v).__name__}, yet the checked load returned {val!r:.60}"))
                continue
            if v > thr:
                if kind != "unsafe-file-error":
                    fails.append(dict(case, kind="not-refused", what=f"verdict {v.name} is above the threshold {thr.name} but the load {kind} ({val!r:.80})"))
                elif str(val.info.get("severity")) != v.name:
                    fails.append(dict(case, kind="wrong-verdict-in-error", what=f"UnsafeFileError carries severity {val.info.get('severity')!r}, the verdict is {v.name}"))
            else:
                if kind == "unsafe-file-error":
                    fails.append(dict(case, kind="refused-though-accepted", what=f"verdict {v.name} is within the threshold {thr.name} but the load raised the unsafe-file error: {val!r:.100}"))
                elif kind != "returned":
                    OTHER_ERRORS[type(val).__name__] = OTHER_ERRORS.get(type(val).__name__, 0) + 1      # failing for another reason is not excluded by the statement
                else:
                    want = stock(data)
                    n_want = STOCK_CALLS[0]
                    if len(calls) != n_want:
                        fails.append(dict(case, kind="executed-other-than-analysed", what=f"the load called the sink {len(calls)} time(s); the analysed bytes call it {n_want} time(s) under the stock unpickler"))
                    elif not (val == want) and repr(val) != repr(want):
                        fails.append(dict(case, kind="other-bytes-loaded", what=f"returned {val!r:.80}; the stock unpickler gives {want!r:.80} for the bytes that were analysed"))
hook.remove_hook()
print(json.dumps({"bounded": True, "inputs": len(INPUTS), "runs": n, "accepted_but_failed_for_another_reason": OTHER_ERRORS, "n_failures": len(fails),
                  "failures": spread(fails, lambda f: (f["kind"], f["way"].split("(")[0], f["delivery"]), per=3)}, default=str))
