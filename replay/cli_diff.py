"""Replay / bounded companion for C18 and the CLI face of C10: stacks of 1..4 generated pickles through fickling.cli.main.
  inject:    for every target 0..n (n = one past the end) x --run-last x --replace-result x file / stdin: the output is n pickles, all but the
             target byte-identical to the input's, the target equal to the library's injection into that pickle; out-of-range: non-zero
             status and nothing written.
  decompile: the printed program is valid Python, binds result0..result{n-1}, and no _var name is assigned in two pickles' sections.
  check:     exit status 0 iff every stacked pickle's library verdict is LIKELY_SAFE; the JSON report holds one entry per pickle with that
             pickle's library severity.
Prints one JSON object (bounded)."""
import ast
import io
import json
import os
import pickle
import random
import sys

import fickling.fickle as fk
import fickling.analysis as fa
import fickling.cli as cli

seed = int(sys.argv[1]) if len(sys.argv) > 1 else 0
rnd = random.Random(seed)
CWD = os.getcwd()


class Obj:
    def __init__(self, v):
        self.v = v


BENIGN = [1, "text", [1, 2, 3], {"a": [1, 2]}, (1, (2, 3)), None, b"bytes", {"k": {"n": 1}}, True, False, 2 ** 40, -(2 ** 70)]
FLAGGED = [b"cos\nsystem\n(Vid\ntR.", b"cbuiltins\neval\n(V1\ntR.", b"cfoo\nbar\n(tR.", b"cbuiltins\ngetattr\n(cbuiltins\ndict\nVget\ntR.",
           # several findings of different severities from rules that share a name: the most severe first, then a lesser one (and the reverse)
           b"cbuiltins\neval\n(V1\ntR0cfoo\nbar\n(tR.", b"cfoo\nbar\n(tR0cbuiltins\neval\n(V1\ntR.", b"\x80\x02\x80\x02cfoo\nbar\n."]


def member():
    k = rnd.random()
    if k < 0.55:
        return pickle.dumps(rnd.choice(BENIGN), rnd.choice([0, 1, 2, 3, 4, 5]))
    return rnd.choice(FLAGGED)


class PipeRaw(io.RawIOBase):
    """what a real pipe looks like to the reader: not seekable, short reads"""

    def __init__(self, data):
        self._b = io.BytesIO(data)

    def readable(self):
        return True

    def seekable(self):
        return False

    def readinto(self, b):
        chunk = self._b.read(min(len(b), 64))
        b[:len(chunk)] = chunk
        return len(chunk)


def run_cli(argv, stdin_bytes=None, pipe=False):
    """-> (status, stdout bytes, stderr text)"""
    class Out(io.TextIOWrapper):
        pass
    raw_out = io.BytesIO()
    out = io.TextIOWrapper(raw_out, encoding="utf-8", write_through=True)
    err = io.StringIO()
    so, se, si = sys.stdout, sys.stderr, sys.stdin
    sys.stdout, sys.stderr = out, err
    if stdin_bytes is not None:
        sys.stdin = io.TextIOWrapper(io.BufferedReader(PipeRaw(stdin_bytes)) if pipe else io.BytesIO(stdin_bytes))
    try:
        try:
            rc = cli.main(argv)
        except SystemExit as e:
            rc = e.code if isinstance(e.code, int) else 1
        except BaseException as e:  # noqa
            rc = f"exception {type(e).__name__}: {e}"[:160]
        out.flush()
        return rc, raw_out.getvalue(), err.getvalue()
    finally:
        sys.stdout, sys.stderr, sys.stdin = so, se, si


def split_stack(data):
    out = []
    s = io.BytesIO(data)
    while s.tell() < len(data):
        start = s.tell()
        try:
            p = fk.Pickled.load(s)
        except Exception:  # noqa
            break
        if len(p) == 0:
            break
        out.append(data[start:s.tell()])
    return out


fails, n_runs = [], 0
stacks = []
for n in (1, 2, 3, 4):
    for _ in range(3):
        stacks.append([member() for _ in range(n)])
stacks.append([pickle.dumps([1], 0), pickle.dumps([2], 0), pickle.dumps([3], 2)])        # members without a PROTO header
stacks.append([FLAGGED[0], pickle.dumps(1), FLAGGED[1]])
stacks.append([pickle.dumps(1), FLAGGED[0], FLAGGED[1]])
for members in stacks:
    data = b"".join(members)
    path = os.path.join(CWD, "stack.pkl")
    with open(path, "wb") as f:
        f.write(data)
    n = len(members)
    # ---- inject ---------------------------------------------------------------------------------------------------------------------
    for target in range(0, n + 1):
        for run_last in (False, True):
            for replace in (False, True):
                for via in ("file", "stdin", "stdin-pipe"):
                    n_runs += 1
                    argv = ["fickling", "--inject", "print('x')", "--inject-target", str(target)] + (["--run-last"] if run_last else []) + \
                           (["--replace-result"] if replace else []) + ([path] if via == "file" else [])
                    rc, out, err = run_cli(argv, None if via == "file" else data, pipe=(via == "stdin-pipe"))
                    case = {"face": "inject", "stack": [m.hex()[:60] for m in members], "target": target, "run_last": run_last, "replace_result": replace, "via": via}
                    if target >= n:
                        if rc in (0, None) or out:
                            fails.append(dict(case, what="out-of-range target: expected non-zero status and no output", status=str(rc), output_len=len(out)))
                        continue
                    try:
                        p = fk.Pickled.load(members[target])
                        p.insert_python_eval("print('x')", run_first=not run_last, use_output_as_unpickle_result=replace)
                        want_k = p.dumps()
                    except Exception as e:  # noqa  the library refuses this injection: the CLI must not succeed silently
                        if rc in (0, None):
                            fails.append(dict(case, what=f"library injection raises {type(e).__name__} but the CLI exits 0"))
                        continue
                    want = b"".join(members[:target]) + want_k + b"".join(members[target + 1:])
                    if rc not in (0, None):
                        fails.append(dict(case, what="in-range target failed", status=str(rc), stderr=err[-200:]))
                    elif out != want:
                        got = split_stack(out)
                        detail = f"{len(got)} pickles emitted (want {n})"
                        if len(got) == n:
                            diff = [i for i in range(n) if got[i] != (want_k if i == target else members[i])]
                            detail = f"pickles {diff} differ from the expected bytes"
                        fails.append(dict(case, what="output is not the input with only the target replaced by its injected form", detail=detail))
    # ---- decompile -------------------------------------------------------------------------------------------------------------------
    for trace in (False, True):
        n_runs += 1
        rc, out, err = run_cli(["fickling"] + (["--trace"] if trace else []) + [path])
        case = {"face": "decompile", "stack": [m.hex()[:60] for m in members], "trace": trace}
        if rc not in (0, None):
            continue        # a member fickling cannot decompile: no program is promised
        text = out.decode("utf-8", "replace")
        if trace:
            continue        # the trace interleaves opcode lines; only the plain mode promises one program
        try:
            tree = ast.parse(text)
        except SyntaxError as e:
            fails.append(dict(case, what=f"the printed stack is not one valid program: {e}"[:200]))
            continue
        assigned = {}
        section = 0
        results = []
        for st in tree.body:
            names = [t.id for t in getattr(st, "targets", []) if isinstance(t, ast.Name)] if isinstance(st, ast.Assign) else []
            for nm in names:
                if nm.startswith("result"):
                    results.append(nm)
                    section += 1
                elif nm.startswith("_var"):
                    assigned.setdefault(nm, set()).add(section)
        if results != [f"result{i}" for i in range(n)]:
            fails.append(dict(case, what=f"result names are {results}, expected result0..result{n - 1}"))
        reused = sorted(k for k, v in assigned.items() if len(v) > 1)
        if reused:
            fails.append(dict(case, what=f"variables assigned in more than one pickle's section: {reused[:5]}"))
    # ---- check-safety ----------------------------------------------------------------------------------------------------------------
    for pr in (False, True):
        n_runs += 1
        rep = os.path.join(CWD, "report.json")
        if os.path.exists(rep):
            os.remove(rep)
        rc, out, err = run_cli(["fickling", "--check-safety", "--json-output", rep] + (["--print-results"] if pr else []) + [path])
        case = {"face": "check", "stack": [m.hex()[:60] for m in members], "print_results": pr}
        try:
            lib = [fa.check_safety(fk.Pickled.load(m), json_output_path=os.path.join(CWD, "lib.json")).severity.name for m in members]
        except Exception:  # noqa
            continue
        want_rc = 0 if all(s == "LIKELY_SAFE" for s in lib) else 1
        if rc != want_rc:
            fails.append(dict(case, what=f"exit status {rc}, library verdicts {lib}"))
        try:
            txt = open(rep).read()
            dec, i, entries = json.JSONDecoder(), 0, []
            while i < len(txt):
                while i < len(txt) and txt[i].isspace():
                    i += 1
                if i >= len(txt):
                    break
                obj, i = dec.raw_decode(txt, i)
                entries.append(obj.get("severity"))
        except Exception as e:  # noqa
            entries = f"unreadable report: {e}"[:100]
        if entries != lib:
            fails.append(dict(case, what=f"JSON report severities {entries}, library verdicts {lib}"))
print(json.dumps({"bounded": True, "stacks": len(stacks), "runs": n_runs, "n_failures": len(fails), "failures": fails[:60]}))
