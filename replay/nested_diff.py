"""Replay / bounded companion for C07: pickles whose globals are allow-listed or not, wrapped 0..3 levels deep in byte-string payloads
handed to allow-listed (torch.storage._load_from_bytes) or user-added (pickle.loads, _pickle.loads) loader callables, the innermost
payload being a bare pickle, a legacy stacked PyTorch container or a zip PyTorch container, through the four hooked entry points,
with several sets of explicit additions.  A *sentinel* global outside every allowlist records being resolved/called.
Prints one JSON object.  Bound: the combinations below (labelled bounded)."""
import _pickle
import collections
import io
import json
import pickle
import sys
import types

import fickling.hook as hook
import fickling.ml as ml
from fickling.exception import UnsafeFileError

try:
    import torch
except Exception:  # noqa
    torch = None

seed = int(sys.argv[1]) if len(sys.argv) > 1 else 0
RESOLVED = []
sink_mod = types.ModuleType("verif_c07_sink")


def not_allowed(tag):
    RESOLVED.append(tag)
    return tag


not_allowed.__module__ = "verif_c07_sink"
not_allowed.__qualname__ = "not_allowed"
sink_mod.not_allowed = not_allowed
sys.modules["verif_c07_sink"] = sink_mod


class Forbidden:
    def __init__(self, tag):
        self.tag = tag

    def __reduce__(self):
        return (not_allowed, (self.tag,))


class Via:
    """hands a byte-string payload to a loader callable"""

    def __init__(self, fn, data):
        self.fn, self.data = fn, data

    def __reduce__(self):
        return (self.fn, (self.data,))


def container(obj, kind):
    """innermost payload bytes"""
    if kind == "bare":
        return pickle.dumps(obj)
    b = io.BytesIO()
    if kind == "torch-legacy":
        torch.save(obj, b, _use_new_zipfile_serialization=False)
    else:
        torch.save(obj, b)
    return b.getvalue()


def build(obj, kind, depth, wrapper):
    data = container(obj, kind)
    for _ in range(depth):
        data = pickle.dumps(Via(wrapper, data))
    return data


ENTRY = {
    "pickle.loads(bytearray)": lambda b: pickle.loads(bytearray(b)),
    "_pickle.loads(memoryview)": lambda b: _pickle.loads(memoryview(b)),
    "pickle.loads": lambda b: pickle.loads(b),
    "_pickle.loads": lambda b: _pickle.loads(b),
    "pickle.load": lambda b: pickle.load(io.BytesIO(b)),
    "_pickle.load": lambda b: _pickle.load(io.BytesIO(b)),
}
WRAPPERS = [("pickle.loads", pickle.loads, ["pickle.loads", "_pickle.loads"]), ("_pickle.loads", _pickle.loads, ["pickle.loads", "_pickle.loads"])]
if torch is not None and "torch.storage" in ml.ML_ALLOWLIST and "_load_from_bytes" in ml.ML_ALLOWLIST["torch.storage"]:
    WRAPPERS.append(("torch.storage._load_from_bytes", torch.storage._load_from_bytes, []))
KINDS = ["bare"] + (["torch-legacy", "torch-zip"] if torch is not None else [])
ADDITION_SETS = [[], ["collections.Counter"], ["fractions.Fraction", "collections.Counter"]]

fails, n = [], 0
cases = []
for wname, wfn, need in WRAPPERS:
    for kind in KINDS:
        for depth in range(0, 4):
            if kind != "bare" and depth == 0:
                continue        # a container handed directly to pickle.load is just its first pickle
            if kind != "bare" and wname != "torch.storage._load_from_bytes":
                continue        # containers are opened by torch's loader
            try:
                bad = build(Forbidden(f"{wname}/{kind}/{depth}"), kind, depth, wfn)
                good = build(collections.OrderedDict(a=1), kind, depth, wfn)
            except Exception as e:  # noqa
                continue
            cases.append((wname, need, kind, depth, bad, good))
# qualified names (protocol 4+): a dotted name whose first component is allow-listed names an attribute chain that is itself in no list
def dotted_payload():
    for mod in ("collections", "builtins", "numpy", "torch"):
        for nm in sorted(ml.ML_ALLOWLIST.get(mod, [])):
            if f"{nm}.__name__" not in ml.ML_ALLOWLIST.get(mod, []):
                m, a = mod.encode(), f"{nm}.__name__".encode()
                return f"{mod}.{nm}.__name__", b"\x80\x04\x8c" + bytes([len(m)]) + m + b"\x8c" + bytes([len(a)]) + a + b"\x93."
    return None, None


dn, dp = dotted_payload()
if dp is not None:
    for wname, wfn, need in WRAPPERS:
        for depth in range(0, 3):
            data = dp
            for _ in range(depth):
                data = pickle.dumps(Via(wfn, data))
            cases.append((wname, need, f"dotted-name {dn}", depth, data, None))
# "before it is resolved": a forbidden global in a module that is importable but not imported yet — importing it leaves a trace
import os  # noqa: E402
PROBE_DIR = os.getcwd()
with open(os.path.join(PROBE_DIR, "verif_c07_probe.py"), "w") as _f:
    _f.write("import sys\nsys.modules.setdefault('verif_c07_probe_was_imported', sys.modules[__name__])\ndef thing(*a):\n    return a\n")
if PROBE_DIR not in sys.path:
    sys.path.insert(0, PROBE_DIR)
PROBE = b"cverif_c07_probe\nthing\n."
for wname, wfn, need in WRAPPERS:
    for depth in range(0, 3):
        data = PROBE
        for _ in range(depth):
            data = pickle.dumps(Via(wfn, data))
        cases.append((wname, need, "importable-forbidden-module", depth, data, None))
for wname, need, kind, depth, bad, good in cases:
    for adds in ADDITION_SETS:
        hook.remove_hook()
        hook.activate_safe_ml_environment(also_allow=list(adds) + list(need))
        try:
            for ename, ep in ENTRY.items():
                n += 1
                del RESOLVED[:]
                outcome = None
                try:
                    ep(bad)
                    outcome = "returned"
                except UnsafeFileError:
                    outcome = "unsafe-file-error"
                except Exception as e:  # noqa
                    outcome = f"{type(e).__name__}: {e}"[:120]
                imported = [m for m in ("verif_c07_probe", "verif_c07_probe_was_imported") if m in sys.modules]
                for m in imported:
                    del sys.modules[m]
                if imported:
                    fails.append({"entry_point": ename, "through": wname, "payload": kind, "depth": depth, "additions": list(adds) + list(need),
                                  "what": "a global outside the allowlist and the additions was resolved (its module was imported) before the load was aborted",
                                  "outcome": outcome})
                elif RESOLVED:
                    fails.append({"entry_point": ename, "through": wname, "payload": kind, "depth": depth, "additions": list(adds) + list(need),
                                  "what": "a global outside the allowlist and the additions was resolved and called", "outcome": outcome})
                elif outcome != "unsafe-file-error":
                    fails.append({"entry_point": ename, "through": wname, "payload": kind, "depth": depth, "additions": list(adds) + list(need),
                                  "what": "the load was not aborted with the unsafe-file error", "outcome": outcome})
        finally:
            hook.remove_hook()
groups = {}
for f in fails:
    groups.setdefault((f["through"], f["payload"]), []).append(f)
fails_out = [f for g in groups.values() for f in g[:4]]          # every (wrapper, payload kind) that fails is represented in the report
print(json.dumps({"bounded": True, "cases": len(cases), "runs": n, "torch": getattr(torch, "__version__", None), "wrappers": [w[0] for w in WRAPPERS],
                  "n_failures": len(fails), "failures": fails_out[:120]}))
