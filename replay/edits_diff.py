"""Replay / bounded cross-check for C14: random sequences of edits through the sequence interface, interleaved with reads of the derived
views; after every step each view must equal what a freshly constructed Pickled over the same opcode list gives, and dumps() must be the
concatenation of the opcodes' data.  Prints JSON.   usage: edits_diff.py [seed] [sequences]"""
import ast
import json
import os
import random
import sys
sys.path.insert(0, os.path.dirname(os.path.abspath(__file__)))
from vmref import corpus  # noqa: E402
import fickling.fickle as fk  # noqa: E402
from fickling.analysis import check_safety  # noqa: E402

seed = int(sys.argv[1]) if len(sys.argv) > 1 else 0
nseq = int(sys.argv[2]) if len(sys.argv) > 2 else 150
rnd = random.Random(seed)
bases = []
for name, data in corpus():
    try:
        p = fk.Pickled.load(data)
        _ = p.ast
        bases.append((name, data))
    except Exception:  # noqa
        pass
POOL = [lambda: fk.Global.create("os", "system"), lambda: fk.Pop(), lambda: fk.NoneOpcode(), lambda: fk.Mark(), lambda: fk.EmptyTuple(),
        lambda: fk.Global.create("builtins", "eval"), lambda: fk.EmptyList(), lambda: fk.Memoize(), lambda: fk.Proto(2)]


def views(p):
    out = {}
    import re
    norm = lambda t: re.sub(r"0x[0-9a-f]+", "0x", t)  # noqa
    for nm, f in (("ast", lambda: norm(ast.dump(p.ast))), ("has_import", lambda: p.has_import), ("has_call", lambda: p.has_call),
                  ("has_non_setstate_call", lambda: p.has_non_setstate_call),
                  ("imports", lambda: [norm(ast.dump(n)) for n in p.properties.imports]),
                  ("severity", lambda: check_safety(p).severity.name),
                  ("dumps", lambda: p.dumps().hex())):
        try:
            out[nm] = f()
        except Exception as e:  # noqa
            out[nm] = f"raises {type(e).__name__}"
    return out


fails, steps = [], 0
for s in range(nseq):
    name, data = rnd.choice(bases)
    p = fk.Pickled.load(data)
    history = []
    for k in range(rnd.randint(2, 7)):
        kind = rnd.choice(["insert", "del", "set", "append", "extend", "pop", "read", "read", "inject"])
        n = len(p)
        try:
            if kind == "insert":
                i = rnd.randint(0, n)
                p.insert(i, rnd.choice(POOL)())
            elif kind == "del" and n > 1:
                i = rnd.randrange(n)
                del p[i]
            elif kind == "set" and n > 0:
                i = rnd.randrange(n)
                p[i] = rnd.choice(POOL)()
            elif kind == "append":
                p.append(rnd.choice(POOL)())
            elif kind == "extend":
                p.extend([rnd.choice(POOL)(), rnd.choice(POOL)()])
            elif kind == "pop" and n > 1:
                p.pop(rnd.randrange(n))
            elif kind == "inject" and n > 0 and isinstance(p[-1], fk.Stop):
                p.insert_python_exec("pass", run_first=rnd.choice([True, False]))
            elif kind == "read":
                v = rnd.choice(["ast", "properties", "has_call", "check"])
                if v == "ast":
                    _ = p.ast
                elif v == "properties":
                    _ = p.properties
                elif v == "has_call":
                    _ = p.has_call
                else:
                    check_safety(p)
        except Exception as e:  # noqa
            history.append(f"{kind}: raises {type(e).__name__}")
            continue
        history.append(kind)
        steps += 1
        # compare a *subset* of views each time (reading every view after every edit would hide stale caches)
        which = rnd.choice([["severity"], ["has_call", "imports"], ["ast"], ["dumps"], ["has_import", "severity"]])
        got = views(p)
        fresh = views(fk.Pickled(list(p)))
        expect_dumps = b"".join(o.data for o in p).hex() if not str(fresh["dumps"]).startswith("raises") else fresh["dumps"]
        bad = [w for w in which if got[w] != fresh[w]]
        if got["dumps"] != expect_dumps:
            bad.append("dumps-concat")
        if bad:
            fails.append({"base": name, "bytes": data.hex(), "history": history, "stale_views": bad,
                          "got": {b: str(got.get(b))[:200] for b in bad}, "fresh": {b: str(fresh.get(b))[:200] for b in bad}})
            break
print(json.dumps({"failures": fails[:10], "n_failures": len(fails), "sequences": nseq, "steps": steps, "bases": len(bases)}))
