"""Replay / bounded companion for C01: every analysis entry point over hand-assembled programs naming *sentinel* globals through every
global-resolving and call-making opcode, natural pickles, and byte-level corruptions, under an audit hook.  Reports any import of a
module named by the input, any exec / compile, process spawn, socket, unpickling, or file opened for writing other than the JSON report
path the caller passes.  Prints one JSON object.  Bound: the corpus below x 9 entry points (labelled bounded)."""
import io
import json
import os
import random
import re
import sys

HERE = os.path.dirname(os.path.abspath(__file__))
sys.path.insert(0, HERE)
seed = int(sys.argv[1]) if len(sys.argv) > 1 else 0
rnd = random.Random(seed)
CWD = os.getcwd()

# sentinel package, importable from the scratch cwd: importing it (or its parent for a dotted name) leaves a marker
os.makedirs(os.path.join(CWD, "verif_sentinel_pkg"), exist_ok=True)
with open(os.path.join(CWD, "verif_sentinel_pkg", "__init__.py"), "w") as f:
    f.write("import os\nopen(os.path.join(%r, 'SENTINEL_IMPORTED'), 'a').write('x')\ndef run(*a, **k):\n    open(os.path.join(%r, 'SENTINEL_CALLED'), 'a').write('x')\n" % (CWD, CWD))
with open(os.path.join(CWD, "verif_sentinel_pkg", "sub.py"), "w") as f:
    f.write("def run(*a, **k):\n    pass\n")
sys.path.insert(0, CWD)

from vmref import corpus, assemble, op, G, SG  # noqa: E402
import fickling.fickle as fk  # noqa: E402
import fickling.analysis as fa  # noqa: E402
import fickling.tracing as ft  # noqa: E402
try:
    import fickling.cli as cli
except Exception:  # noqa
    cli = None
from ast import unparse  # noqa: E402

EVENTS = []
NAMED = [set()]
ACTIVE = [False]
JSON_OUT = os.path.join(CWD, "report.json")
PRELOADED = set(sys.modules)
WATCH = {"import", "exec", "compile", "subprocess.Popen", "os.system", "os.exec", "os.posix_spawn", "os.spawn", "os.fork", "socket.connect", "socket.bind",
         "pickle.find_class", "open", "os.remove", "os.rename", "os.mkdir", "shutil.rmtree", "ctypes.dlopen", "urllib.Request"}


def hook(event, args):
    if not ACTIVE[0] or event not in WATCH:
        return
    if event == "import":
        name = args[0]
        if name in PRELOADED or name in sys.modules:
            return
        # an import counts when the module (or its top-level package) is *named by the input*; lazy imports of the libraries the entry
        # point itself uses (argparse pulling in locale, ...) are not a consequence of the input's content
        if name in NAMED[0] or name.split(".")[0] in NAMED[0] or "verif_sentinel" in name:
            EVENTS.append(("import", name))
        elif name.startswith("encodings.") and name.split(".")[-1] in NAMED[0]:
            EVENTS.append(("import-of-input-named-codec", name))     # a codec looked up under a name the input chose
    elif event == "open":
        path, mode = args[0], args[1]
        if mode is None or not any(c in str(mode) for c in "wax+"):
            if isinstance(path, str) and "verif_sentinel" in path:
                EVENTS.append(("open-read-of-input-named-file", str(path)))
            return
        if isinstance(path, str) and os.path.abspath(path) == JSON_OUT:
            return
        EVENTS.append(("open-for-write", str(path), str(mode)))
    elif event == "compile":
        src = args[0]
        fn = args[1] if len(args) > 1 else ""
        text = src.decode("latin-1", "replace") if isinstance(src, (bytes, bytearray)) else (src if isinstance(src, str) else "")
        if "verif_sentinel" in text or "SENTINEL" in text:
            EVENTS.append(("compile-of-input-text", text[:80]))
    elif event == "exec":
        co = args[0]
        if getattr(co, "co_filename", "") in ("<string>", "<pickle>", "<unknown>") or "verif_sentinel" in getattr(co, "co_filename", ""):
            EVENTS.append(("exec", getattr(co, "co_filename", "?")))
    else:
        EVENTS.append((event,) + tuple(str(a)[:60] for a in args[:2]))


sys.addaudithook(hook)
import codecs  # noqa: E402


def _codec_search(name):
    if ACTIVE[0] and "verif_sentinel" in name:
        EVENTS.append(("codec-search-function-called-with-input-name", name))
    return None


codecs.register(_codec_search)

u = lambda s: op("SHORT_BINUNICODE", s)  # noqa
MAL = []
for mod, name in (("verif_sentinel_pkg", "run"), ("verif_sentinel_pkg.sub", "run"), ("os", "system"), ("builtins", "eval"), ("builtins", "exec"),
                  ("subprocess", "call"), ("socket", "create_connection"), ("verif_sentinel_missing.deep", "x")):
    for gname, g in (("global", G), ("stack_global", SG)):
        pre = [op("PROTO", 4)] if gname == "stack_global" else []
        arg = u("open('%s/SENTINEL_CALLED','a').write('x')" % CWD)
        MAL.append((f"{gname}:{mod}.{name}:reduce", pre + g(mod, name) + [arg, op("TUPLE1"), op("REDUCE"), op("STOP")]))
        MAL.append((f"{gname}:{mod}.{name}:reduce_popped", pre + g(mod, name) + [arg, op("TUPLE1"), op("REDUCE"), op("POP"), op("NONE"), op("STOP")]))
        MAL.append((f"{gname}:{mod}.{name}:obj", pre + [op("MARK")] + g(mod, name) + [arg, op("OBJ"), op("STOP")]))
        MAL.append((f"{gname}:{mod}.{name}:newobj", pre + g(mod, name) + [arg, op("TUPLE1"), op("NEWOBJ"), op("STOP")]))
        MAL.append((f"{gname}:{mod}.{name}:newobj_ex", [op("PROTO", 4)] + g(mod, name) + [arg, op("TUPLE1"), op("EMPTY_DICT"), op("NEWOBJ_EX"), op("STOP")]))
        MAL.append((f"{gname}:{mod}.{name}:build", pre + g(mod, name) + [op("EMPTY_TUPLE"), op("REDUCE"), op("EMPTY_DICT"), u("a"), arg, op("SETITEM"), op("BUILD"), op("STOP")]))
        MAL.append((f"{gname}:{mod}.{name}:bare", pre + g(mod, name) + [op("STOP")]))
    MAL.append((f"inst:{mod}.{name}", [op("MARK"), u("a"), op("INST", (mod, name)), op("STOP")]))
for gname, g in (("global", G), ("stack_global", SG)):
    pre = [op("PROTO", 4)] if gname == "stack_global" else []
    for codec in ("cp273", "verif_sentinel_codec"):
        # the protocol 0-2 idiom for bytes, with a codec name of the input's choosing
        MAL.append((f"{gname}:_codecs.encode:{codec}", pre + g("_codecs", "encode") + [u("x"), u(codec), op("TUPLE2"), op("REDUCE"), op("STOP")]))
# a global whose *name* is a str.format template: if any report text is produced by formatting input-derived text, the field is evaluated
# (an attribute / index chain on live objects chosen by the input)
MAL.append(("format-template-in-module-name", G("verif_fmt_{trigger.__class__.__name__}_end{0.__class__}", "x") + [op("STOP")]))
MAL.append(("format-template-in-attr-name", [op("PROTO", 4)] + SG("verif_sentinel_missing", "verif_fmt_{severity.name}_end") + [op("STOP")]))
MAL.append(("persid", [op("PERSID", "verif_sentinel_pkg"), op("STOP")]))
MAL.append(("binpersid", [u("verif_sentinel_pkg"), op("BINPERSID"), op("STOP")]))
inputs = [(n, assemble(p)) for n, p in MAL] + list(corpus())
base = list(inputs)
for n, b in base[::3]:
    if len(b) > 3:
        k = rnd.randrange(1, len(b))
        inputs.append((n + ":truncated", b[:k]))
        bb = bytearray(b)
        bb[rnd.randrange(len(bb))] ^= 1 << rnd.randrange(8)
        inputs.append((n + ":bitflip", bytes(bb)))
inputs.append(("stacked", base[0][1] + base[5][1] + base[9][1]))


def quiet(fn):
    so, se = sys.stdout, sys.stderr
    sys.stdout, sys.stderr = io.StringIO(), io.StringIO()
    try:
        return fn()
    except BaseException:  # noqa  raising is fine: the question is what happened on the way
        return None
    finally:
        sys.stdout, sys.stderr = so, se


def entry_points(data, path):
    def parse():
        return fk.Pickled.load(data)

    def stacked():
        return fk.StackedPickle.load(io.BytesIO(data))

    def decompile():
        return unparse(fk.Pickled.load(data).ast)

    def trace():
        return ft.Trace(fk.Interpreter(fk.Pickled.load(data))).run()

    def check():
        res = fa.check_safety(fk.Pickled.load(data), json_output_path=JSON_OUT)
        text = ""
        try:
            text = res.to_string() + " " + json.dumps(res.to_dict(), default=str) + " " + " ".join(str(r) for r in res.results)
        except Exception:  # noqa
            pass
        if re.search(r"verif_fmt_(?!\{)", text):
            EVENTS.append(("format-field-of-input-text-evaluated", re.search(r"verif_fmt_[^ `']{0,40}", text).group(0)))
        return res

    def likely_safe():
        return fa.is_likely_safe(path)

    eps = [("parse", parse), ("stacked-parse", stacked), ("decompile+unparse", decompile), ("trace", trace), ("check_safety", check),
           ("is_likely_safe", likely_safe)]
    if cli is not None:
        eps += [("cli decompile", lambda: cli.main(["fickling", path])), ("cli --trace", lambda: cli.main(["fickling", "--trace", path])),
                ("cli --check-safety", lambda: cli.main(["fickling", "--check-safety", "--json-output", JSON_OUT, path]))]
    return eps


fails, n = [], 0
markers = (os.path.join(CWD, "SENTINEL_IMPORTED"), os.path.join(CWD, "SENTINEL_CALLED"))
for name, data in inputs:
    path = os.path.join(CWD, "input.pkl")
    with open(path, "wb") as f:
        f.write(data)
    NAMED[0] = set(t.decode("ascii") for t in re.findall(rb"[A-Za-z_][A-Za-z0-9_.]*", data))
    NAMED[0] |= {t.split(".")[0] for t in NAMED[0]}
    for ep, fn in entry_points(data, path):
        n += 1
        del EVENTS[:]
        for m in markers:
            if os.path.exists(m):
                os.remove(m)
        ACTIVE[0] = True
        try:
            quiet(fn)
        finally:
            ACTIVE[0] = False
        ev = list(EVENTS)
        for m in markers:
            if os.path.exists(m):
                ev.append((os.path.basename(m),))
        if ev:
            fails.append({"program": name, "bytes": data.hex()[:400], "entry_point": ep, "events": [list(e) for e in ev[:6]]})
print(json.dumps({"bounded": True, "n_inputs": len(inputs), "n_runs": n, "n_failures": len(fails), "failures": fails[:100]}))
