"""Replay / bounded companion for C15: boundary-biased values through ConstantOpcode.new, Pickled.insert_python (and its list/dict encoder),
and `fickling --create`, loaded by the stock unpickler and compared (equal value *and* same kind, or refused when built); every
constructible opcode class with representative arguments through encode() and pickletools.genops.  Prints one JSON object.
Bound: the value list below (about 150 values + `seed`-derived random ones); labelled bounded in the evidence."""
import io
import json
import math
import os
import pickle
import pickletools
import random
import sys
import os as _os
sys.path.insert(0, _os.path.dirname(_os.path.abspath(__file__)))
from _report import spread  # noqa: E402
import types

import fickling.fickle as fk

seed = int(sys.argv[1]) if len(sys.argv) > 1 else 0
only = sys.argv[2] if len(sys.argv) > 2 else None
rnd = random.Random(seed)

sink_mod = types.ModuleType("verif_sink")
RECEIVED = []


def sink(*args):
    RECEIVED.append(args)
    return None


sink_mod.sink = sink
sys.modules["verif_sink"] = sink_mod


def kind_of(v):
    return type(v).__name__


def same(a, b):
    """equal value of the same kind (recursively); nan equals nan; -0.0 differs from 0.0"""
    if type(a) is not type(b):
        return False
    if isinstance(a, float):
        if math.isnan(a) or math.isnan(b):
            return math.isnan(a) and math.isnan(b)
        return a == b and math.copysign(1, a) == math.copysign(1, b)
    if isinstance(a, list):
        return len(a) == len(b) and all(same(x, y) for x, y in zip(a, b))
    if isinstance(a, dict):
        return list(a.keys()) == list(b.keys()) and all(same(k1, k2) and same(a[k1], b[k2]) for k1, k2 in zip(a, b))
    return a == b


def ints():
    out = [0, 1, -1, 2, 10, 127, 128, 129, 255, 256, 257, 65535, 65536, 65537, -127, -128, -129, -255, -256, -257, -32768, -32769,
           2**31 - 1, 2**31, 2**31 + 1, -2**31 + 1, -2**31, -2**31 - 1, 2**32 - 1, 2**32, 2**63 - 1, 2**63, 2**63 + 1, -2**63, -2**63 - 1,
           2**64, 2**100, -2**100, 10**40]
    out += [rnd.randrange(-2**70, 2**70) for _ in range(10)] + [rnd.randrange(-70000, 70000) for _ in range(10)]
    return out


def floats():
    return [0.0, -0.0, 1.0, -1.0, 1.5, -2.5, 0.1, 1e300, 1e-300, 2.0**53, float("inf"), float("-inf"), float("nan"), 123.0, 3.999]


def texts():
    out = ["", "a", "abc", "123", "-5", "1.5", "0", " 12 ", "1_000", "0x10", "True", "None", "é", "ÿ", "\x80", "\x7f", "\xa0", "Ā", "日本語", "€",
           "\U0001F600", "a\U00010000b", "\x00", "\x01", "\x1a", "\x1f", "\n", "\r", "\r\n", "a\nb", "tab\there", "\\", "\\n", "\\u0041", "\\\\", "a\\",
           "'", '"', "'\"", "it's", 'say "hi"', "'''", "\\'", "print('x')", "x" * 255, "x" * 256, "x" * 257, "é" * 128, "x" * 70000,
           "\ud800" if False else "�", " ", "\x85", "١٢٣", "１２３", "1e5", "inf", "nan", "\udcc3\udca9", "caf\udce9", "\udc80", "na\udcc3\udcafve", "x\udcff", "+7", "٣"]
    for _ in range(10):
        out.append("".join(chr(rnd.choice([rnd.randrange(0, 128), rnd.randrange(128, 256), rnd.randrange(256, 0xD800), rnd.randrange(0x10000, 0x10FFFF)]))
                           for _ in range(rnd.randrange(1, 8))))
    return out


def byteses():
    out = [b"", b"a", b"12", b"123", b"-5", b" 7 ", b"\x00", b"\xff", b"\n", b"\\", b"'", b'"', b"abc\ndef", b"x" * 255, b"x" * 256, b"x" * 257,
           b"x" * 70000, bytes(range(256)), b"1_0", b"0x10", b"1.5"]
    for _ in range(5):
        out.append(bytes(rnd.randrange(256) for _ in range(rnd.randrange(1, 12))))
    return out


def nested():
    return [[], [1], [1, "a", b"b"], [[1, 2], [3]], ["123", b"12", 1.5, True], {}, {"a": 1}, {"k": [1, 2]}, {1: "x", "y": {"z": b"w"}},
            [{"a": [-1, 2**40]}], {"123": "456"}, [True, False], {"t": True}, [-1, 65536, 2**63], ["é", "\n", "\\"]]


def classify(v):
    if isinstance(v, bool):
        return "bool"
    if isinstance(v, (list, dict)):
        return "nested"
    return {"int": "int", "float": "float", "str": "str", "bytes": "bytes"}[type(v).__name__]


fails, counts = [], {"new": 0, "insert_python": 0, "create": 0, "opcodes": 0, "refused": 0}
MAXREP = 160


def rep(v):
    r = repr(v)
    return r if len(r) <= MAXREP else r[:MAXREP] + f"...<{len(r)} chars>"


def record(kind, v, arrived, through, note=""):
    fails.append({"kind": kind, "value": rep(v), "arrived": arrived, "through": through, "note": note})


# ---- 1. ConstantOpcode.new(v).encode() read by the stock unpickler -------------------------------------------------------------------
scalars = ints() + [True, False] + floats() + texts() + byteses()
for v in scalars:
    k = classify(v)
    counts["new"] += 1
    try:
        op = fk.ConstantOpcode.new(v)
        data = op.encode()
    except Exception as e:  # noqa  refusal when built
        counts["refused"] += 1
        continue
    try:
        got = pickle.loads(data + b".")
    except Exception as e:  # noqa
        record(k, v, f"unpickler error {type(e).__name__}: {e}"[:200], f"ConstantOpcode.new -> {type(op).__name__}.encode()")
        continue
    if not same(got, v):
        record(k, v, f"{kind_of(got)} {rep(got)}", f"ConstantOpcode.new -> {type(op).__name__}.encode()")

# ---- 2. Pickled.insert_python(*args) with a sink ------------------------------------------------------------------------------------------
base = pickle.dumps(None, protocol=4)
for v in scalars + nested():
    k = classify(v)
    for run_first in (True, False):
        counts["insert_python"] += 1
        try:
            p = fk.Pickled.load(base)
            p.insert_python(v, module="verif_sink", attr="sink", run_first=run_first)
            data = p.dumps()
        except Exception as e:  # noqa
            counts["refused"] += 1
            continue
        del RECEIVED[:]
        try:
            pickle.loads(data)
        except Exception as e:  # noqa
            record(k, v, f"unpickler error {type(e).__name__}: {e}"[:200], f"insert_python(run_first={run_first})")
            continue
        if len(RECEIVED) != 1 or len(RECEIVED[0]) != 1:
            record(k, v, f"sink calls: {rep(RECEIVED)}", f"insert_python(run_first={run_first})")
        elif not same(RECEIVED[0][0], v):
            g = RECEIVED[0][0]
            record(k, v, f"{kind_of(g)} {rep(g)}", f"insert_python(run_first={run_first})")

# ---- 3. fickling --create TEXT ------------------------------------------------------------------------------------------------------------


class SinkUnpickler(pickle.Unpickler):
    def find_class(self, module, name):
        return sink


try:
    import fickling.cli as cli
except Exception:  # noqa
    cli = None
if cli is not None:
    for v in texts():
        if len(v) > 1000:
            continue
        counts["create"] += 1
        out = os.path.join(os.getcwd(), "created.pkl")
        try:
            so, se = sys.stdout, sys.stderr
            sys.stdout, sys.stderr = io.StringIO(), io.StringIO()
            try:
                rc = cli.main(["fickling", "--create", v, out])
            finally:
                sys.stdout, sys.stderr = so, se
        except BaseException as e:  # noqa  refusal
            counts["refused"] += 1
            continue
        if rc not in (0, None):
            counts["refused"] += 1
            continue
        del RECEIVED[:]
        try:
            with open(out, "rb") as f:
                SinkUnpickler(f).load()
        except Exception as e:  # noqa
            record("unicode", v, f"unpickler error {type(e).__name__}: {e}"[:200], "cli --create")
            continue
        if len(RECEIVED) != 1 or len(RECEIVED[0]) != 1 or not same(RECEIVED[0][0], v):
            record("unicode", v, rep(RECEIVED[0][0] if RECEIVED and RECEIVED[0] else RECEIVED), "cli --create")

# ---- 4. every constructible opcode class: encode() read back by pickletools.genops ----------------------------------------------------------
REPR_ARGS = {
    "int": [0, 1, -1, 255, 256, 65535, 65536, 2**31 - 1, -2**31, 2**31, 2**63, -129, 128, 10**30],
    "float": [0.0, 1.5, -2.25, 1e100],
    "str": ["", "a", "abc def", "é", "a\nb", "\\", "'", "x" * 300],
    "bytes": [b"", b"a", b"\x00\xff", b"x" * 300, b"a\nb"],
    "bool": [True, False],
    "none": [None],
}


def arg_equal(name, got, want):
    if isinstance(want, float) or isinstance(got, float):
        return type(got) is type(want) and (got == want or (got != got and want != want))
    return type(got) is type(want) and got == want


def try_opcode(cls, arg):
    """returns None (fine / refused) or a failure description"""
    try:
        op = cls(arg) if arg is not NOARG else cls()
        data = op.encode()
    except Exception:  # noqa  refused
        return None
    if not isinstance(data, (bytes, bytearray)):
        return f"encode() returned {type(data).__name__}"
    try:
        ops = list(pickletools.genops(bytes(data) + (b"" if cls.name == "STOP" else b".")))
    except Exception as e:  # noqa
        return f"disassembler error: {type(e).__name__}: {e}"[:160]
    if cls.name == "STOP":
        return None if [o[0].name for o in ops] == ["STOP"] else f"disassembles to {[o[0].name for o in ops]}"
    if len(ops) != 2 or ops[1][0].name != "STOP":
        return f"disassembles to {[o[0].name for o in ops]}"
    info, got, _ = ops[0]
    if info.name != cls.name:
        return f"disassembles to opcode {info.name}"
    want = op.arg
    if info.arg is None:
        return None if got is None else f"argument {got!r}"
    if isinstance(want, bytes) and isinstance(got, str):
        # pickletools decodes text arguments; a bytes argument that is the utf-8 of the decoded text is the same argument
        try:
            want_cmp = want.decode("utf-8")
        except UnicodeDecodeError:
            want_cmp = want
        want = want_cmp
    if not arg_equal(cls.name, got, want):
        return f"argument reads back as {kind_of(got)} {rep(got)}"
    return None


NOARG = object()
INT_ARGS = {"decimalnl_short", "decimalnl_long", "int4", "uint1", "uint2", "uint4", "uint8", "long1", "long4"}
STR_ARGS = {"stringnl", "string1", "string4", "unicodestringnl", "unicodestring1", "unicodestring4", "unicodestring8", "stringnl_noescape"}
BYTES_ARGS = {"bytes1", "bytes4", "bytes8", "bytearray8"}
FLOAT_ARGS = {"float8", "floatnl"}


def typed_args(info):
    """arguments of the type the opcode's pickletools descriptor reads (ill-typed constructor arguments are not 'representative')"""
    an = info.arg.name
    if an in INT_ARGS:
        return REPR_ARGS["int"]
    if an in STR_ARGS:
        out = list(REPR_ARGS["str"])
        if an.startswith("unicodestring"):
            out += [t.encode("utf-8") for t in REPR_ARGS["str"]]        # fickling's validators store the UTF-8 of the text
        return out
    if an in BYTES_ARGS:
        return REPR_ARGS["bytes"]
    if an in FLOAT_ARGS:
        return REPR_ARGS["float"]
    if an == "stringnl_noescape_pair":
        return ["os system", "builtins eval", "a.b c", "m n"]
    return []


for name, cls in sorted(fk.OPCODES_BY_NAME.items()):
    info = cls.info
    cands = [NOARG] if info.arg is None else typed_args(info)
    for a in cands:
        counts["opcodes"] += 1
        why = try_opcode(cls, a)
        if why:
            fails.append({"kind": "opcode", "value": f"{cls.__name__}({'' if a is NOARG else rep(a)})", "arrived": why, "through": "encode() -> pickletools.genops",
                          "note": name})

if only:
    fails = [f for f in fails if f["kind"] == only]
print(json.dumps({"bounded": True, "counts": counts, "n_failures": len(fails), "failures": spread(fails, lambda f: (f["kind"], f.get("note") or f["through"]), per=6, cap=600)}))
