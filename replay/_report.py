"""Shared by the companions: which failures go into the JSON report.  A report is capped, and a recorded known finding can account for many
failures: taking the first N would let it crowd out a different failure, so failures are grouped by a key (what failed, not on which input)
and every group is represented."""


def spread(fails, key, per=6, cap=300):
    groups = {}
    for f in fails:
        groups.setdefault(repr(key(f)), []).append(f)
    out = []
    for g in groups.values():
        out += g[:per]
    return out[:cap]
