"""Replay / bounded cross-check for C13: for every corpus pickle fickling accepts, the decompiled source, the verdict and the set of findings
are asked twice, in different orders, on a re-parsed copy, and (with --child) in a second process with another PYTHONHASHSEED; the answers and
the serialised bytes must not change.  Prints JSON."""
import ast
import io
import re
import json
import os
import subprocess
import sys
sys.path.insert(0, os.path.dirname(os.path.abspath(__file__)))
from _report import spread  # noqa: E402
from vmref import corpus  # noqa: E402
import fickling.fickle as fk  # noqa: E402
from fickling.analysis import check_safety  # noqa: E402


def answers(p):
    out = {}
    try:
        out["source"] = ast.unparse(p.ast)
    except Exception as e:  # noqa
        out["source"] = f"raises {type(e).__name__}"
    try:
        r = check_safety(p)
        out["verdict"] = r.severity.name
        out["findings"] = sorted({(x.severity.name, str(x)) for x in r.results})
    except Exception as e:  # noqa
        out["verdict"] = f"raises {type(e).__name__}"
        out["findings"] = []
    out["bytes"] = p.dumps().hex() if all(o.has_data() or True for o in p) else ""
    return out


def cause(x, y, diff):
    """the recorded finding that explains a difference, judged on the whole answers: FROZENSET's constant is an AST node, whose text is an address"""
    if all("<ast.Set object at" in str(x[k]) + str(y[k]) for k in diff):
        return "frozenset-constant"
    return None


def all_answers(reverse=False):
    """answers for every corpus program, asked in corpus order (or in the reverse order: what was analysed before a pickle differs)"""
    res = {}
    progs = list(corpus())
    if reverse:
        progs.reverse()
    for name, data in progs:
        try:
            p = fk.Pickled.load(data)
        except Exception:  # noqa
            continue
        res[name] = (data.hex(), answers(p))
    return res


if "--child" in sys.argv:
    # the second process also asks in the opposite order, so that an answer depending on what was analysed earlier in the process differs
    print(json.dumps({k: v[1] for k, v in all_answers(reverse=True).items()}))
    sys.exit(0)

fails, n = [], 0
first = all_answers()
for name, (hexdata, a1) in first.items():
    n += 1
    data = bytes.fromhex(hexdata)
    p = fk.Pickled.load(data)
    # different order: analyse first, then decompile, then again
    try:
        check_safety(p)
    except Exception:  # noqa
        pass
    a2 = answers(p)
    a3 = answers(p)
    a4 = answers(fk.Pickled.load(p.dumps())) if a1["bytes"] else a1
    # the same bytes read from the middle of a stream (after a header, as the members of a stack are)
    try:
        st_ = io.BytesIO(b"HEADER!!" + data)
        st_.read(8)
        a5 = answers(fk.Pickled.load(st_))
    except Exception:  # noqa
        a5 = a1
    for tag, a in (("other order", a2), ("asked again", a3), ("re-parsed copy", a4), ("read at a non-zero stream offset", a5)):
        diff = [k for k in a1 if a1[k] != a[k]]
        if diff:
            fails.append({"program": name, "bytes": hexdata, "when": tag, "differs": diff, "note": cause(a1, a, diff), "first": {k: str(a1[k])[:200] for k in diff},
                          "then": {k: str(a[k])[:200] for k in diff}})
            break
if "--two-process" in sys.argv:
    env = dict(os.environ, PYTHONHASHSEED="12345" if os.environ.get("PYTHONHASHSEED") != "12345" else "54321")
    r = subprocess.run([sys.executable, __file__, "--child"], capture_output=True, text=True, env=env)
    other = json.loads(r.stdout.strip().splitlines()[-1])
    for name, (hexdata, a1) in first.items():
        a = other.get(name)
        if a is None:
            continue
        a1j = json.loads(json.dumps(a1))
        diff = [k for k in a1j if a1j[k] != a[k]]
        if diff:
            fails.append({"program": name, "bytes": hexdata, "when": "second process, other hash seed, programs asked in the opposite order", "differs": diff,
                          "note": cause(a1j, a, diff),
                          "first": {k: str(a1j[k])[:200] for k in diff}, "then": {k: str(a[k])[:200] for k in diff}})
print(json.dumps({"failures": spread(fails, lambda f: (re.sub(r"[0-9]+", "", f["program"]), f.get("when"), f.get("differs")), per=3), "n_failures": len(fails), "programs": n}))
