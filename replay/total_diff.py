"""Replay / bounded cross-check for C19: over a labelled vocabulary of (module category x attribute name) globals, imported and optionally
called, every pickle that decompiles gets a verdict: check_safety returns, findings carry severity and message, to_dict() is JSON-serialisable,
and loader.load's UnsafeFileError carries the same report.  Prints JSON."""
import io
import json
import os
import sys
sys.path.insert(0, os.path.dirname(os.path.abspath(__file__)))
from vmref import assemble, op, corpus  # noqa: E402
import fickling.fickle as fk  # noqa: E402
from fickling.analysis import check_safety, Severity, AnalysisResult  # noqa: E402
from fickling.exception import UnsafeFileError  # noqa: E402
import fickling.loader as loader  # noqa: E402

MODULES = ["builtins", "__builtin__", "os", "posix", "subprocess", "sys", "socket", "shutil", "urllib.request", "torch.hub", "dill", "code",
           "collections", "operator", "torch", "torch.storage", "numpy.testing._private.utils", "foo", "foo.bar", "__main__", "pickle", "numpy", "torch.serialization", "operator.impl", "os.path", "numpy.testing"]
ATTRS = ["eval", "exec", "open", "compile", "load", "loads", "getitem", "attrgetter", "system", "OrderedDict", "_load_from_bytes", "runstring",
         "getattr", "__import__", "x"]
progs = []
for m in MODULES:
    for a in ATTRS:
        progs.append((f"import:{m}.{a}", assemble([op("GLOBAL", (m, a)), op("STOP")])))
        progs.append((f"call:{m}.{a}", assemble([op("GLOBAL", (m, a)), op("EMPTY_TUPLE"), op("REDUCE"), op("STOP")])))
        progs.append((f"sg:{m}.{a}", assemble([op("PROTO", 4), op("SHORT_BINUNICODE", m), op("SHORT_BINUNICODE", a), op("STACK_GLOBAL"), op("STOP")])))
# opcode-level findings at every position: one extra PROTO inserted before the k-th opcode of a 35-opcode pickle (messages that count positions)
import pickle as _pickle  # noqa: E402
import pickletools as _pt  # noqa: E402
_base = _pickle.dumps(list(range(30)), protocol=2)
_offs = [pos for _, _, pos in _pt.genops(_base)]
for _k, _off in enumerate(_offs):
    progs.append((f"extra-proto-before-opcode-{_k}", _base[:_off] + b"\x80\x02" + _base[_off:]))
    if _k % 7 == 3:
        progs.append((f"extra-proto-other-version-before-opcode-{_k}", _base[:_off] + b"\x80\x03" + _base[_off:]))
# findings from different rules at the same severity (their triggers have different types: int / str / tuple)
progs.append(("dup-proto+nonstd-import", b"\x80\x02\x80\x02cmypkg.models\nNet\n."))
progs.append(("dup-proto+nonstd-call", b"\x80\x02\x80\x02cmypkg.models\nNet\n)R."))
progs.append(("misplaced-proto+nonstd-import+unused", b"cmypkg\nf\n)R0\x80\x03cmypkg.models\nNet\n."))
progs += corpus()
fails, n, undecomp = [], 0, 0
for name, data in progs:
    try:
        p = fk.Pickled.load(data)
        _ = p.ast
        import ast as _ast
        _ast.unparse(p.ast)
    except Exception:  # noqa
        undecomp += 1
        continue
    n += 1
    try:
        res = check_safety(p)
        for r in res.results:
            assert isinstance(r, AnalysisResult), f"finding is {type(r).__name__}"
            assert isinstance(r.severity, Severity) and isinstance(str(r), str)
        d = res.to_dict()
        json.dumps(d)
        sev = res.severity
    except Exception as e:  # noqa
        fails.append({"program": name, "bytes": data.hex(), "error": f"check_safety: {type(e).__name__}: {e}"[:300]})
        continue
    if sev > Severity.LIKELY_SAFE:
        try:
            loader.load(io.BytesIO(data))
            fails.append({"program": name, "bytes": data.hex(), "error": "loader.load returned for a flagged pickle"})
        except UnsafeFileError as e:
            try:
                json.dumps(e.info)
                if e.info != d:
                    fails.append({"program": name, "bytes": data.hex(), "error": "UnsafeFileError.info differs from to_dict()"})
            except Exception as ex:  # noqa
                fails.append({"program": name, "bytes": data.hex(), "error": f"UnsafeFileError.info not JSON: {ex}"})
        except Exception as e:  # noqa
            fails.append({"program": name, "bytes": data.hex(), "error": f"loader.load: {type(e).__name__}: {e}"[:300]})
from _report import spread  # noqa: E402
print(json.dumps({"failures": spread(fails, lambda f: (f["program"].split(":")[0].rstrip("0123456789"), f["error"][:40]), per=3), "n_failures": len(fails), "programs": n, "not_decompilable": undecomp}))
