"""Replay / bounded companion for C08: base pickles (generated objects incl. instances, shared references, > 255 memo entries, protocols 0-5,
assembler programs with sparse memo keys and with effects of their own) x every injection helper x every flag combination; the rewritten
bytes are loaded by the accelerated unpickler and, for unframed pickles, by the pure-Python one (which also shows the stack at STOP).
Checked: the injected call runs exactly once with exactly the given arguments; the base pickle's own effects still happen, in order; the
stack is empty at STOP; the result is the original object / the injected call's value as the mode promises; the rewritten pickle ends
with its single STOP; check_safety does not rate it LIKELY_SAFE.  Prints one JSON object (bounded)."""
import collections
import io
import json
import os
import pickle
import sys
import types

sys.path.insert(0, os.path.dirname(os.path.abspath(__file__)))
from _report import spread  # noqa: E402
from vmref import assemble, op, G  # noqa: E402
import fickling.fickle as fk  # noqa: E402
import fickling.analysis as fa  # noqa: E402

seed = int(sys.argv[1]) if len(sys.argv) > 1 else 0
LOG = []
sinkmod = types.ModuleType("verif_c08")


def injected(*a):
    LOG.append(("injected", a))
    return ("value-of-injected-call", a)


def effect(n):
    LOG.append(("effect", n))
    return n


def fn_on_obj(obj, *a):
    LOG.append(("fn-on-object", a))
    return ("applied", obj)


sinkmod.injected, sinkmod.effect, sinkmod.fn_on_obj = injected, effect, fn_on_obj
sys.modules["verif_c08"] = sinkmod


class Inst:
    def __init__(self, a):
        self.a = a

    def __eq__(self, other):
        return type(other) is Inst and other.a == self.a


Inst.__module__ = "verif_c08"
sinkmod.Inst = Inst


class WithEffect:
    """reconstructing it calls verif_c08.effect(n): the base pickle has effects of its own"""

    def __init__(self, n):
        self.n = n

    def __reduce__(self):
        return (effect, (self.n,))


u = lambda s: op("SHORT_BINUNICODE", s)  # noqa
shared = [1, 2]
BASES = []
for proto in range(0, 6):
    for name, obj in (("int", 7), ("nested", {"a": [1, (2, 3)], "b": "x"}), ("shared", [shared, shared, {"k": shared}]), ("inst", Inst([1, 2])),
                      ("effects", [WithEffect(1), WithEffect(2), WithEffect(3)]), ("many-memo", [[i] for i in range(300)]),
                      # globals the pickler writes under their Python 2 names below protocol 3 (resolved through the unpickler's renaming)
                      ("py2-named-globals", [{1, 2}, frozenset({3}), range(3), bytearray(b"ab"), complex(1, 2)])):
        BASES.append((f"{name}/p{proto}", pickle.dumps(obj, proto), obj))
BASES.append(("asm-sparse-put5", assemble([op("EMPTY_LIST"), op("BINPUT", 5), op("BININT1", 1), op("APPEND"), op("BINGET", 5), op("POP"), op("STOP")]), [1]))
BASES.append(("asm-put-from-1", assemble([op("MARK"), op("BININT1", 1), op("PUT", 1), op("BININT1", 2), op("PUT", 2), op("LIST"), op("PUT", 3), op("STOP")]), [1, 2]))
BASES.append(("asm-sparse-then-memoize", assemble([op("PROTO", 4), op("EMPTY_LIST"), op("BINPUT", 9), op("BININT1", 1), op("MEMOIZE"), op("APPEND"), op("STOP")]), [1]))
BASES.append(("asm-magic-key", assemble([op("BININT1", 5), op("LONG_BINPUT", 321987), op("POP"), op("LONG_BINGET", 321987), op("STOP")]), 5))
BASES.append(("asm-effects", assemble(G("verif_c08", "effect") + [op("BININT1", 1), op("TUPLE1"), op("REDUCE")] + G("verif_c08", "effect") +
                                      [op("BININT1", 2), op("TUPLE1"), op("REDUCE"), op("TUPLE2"), op("STOP")]), (1, 2)))


class PyUnpickler(pickle._Unpickler):
    """pure-Python VM: records the stack depth when STOP executes"""
    depth_at_stop = None

    def load_stop(self):
        PyUnpickler.depth_at_stop = len(self.stack) - 1 + sum(len(s) for s in self.metastack)
        return pickle._Unpickler.load_stop(self)
    dispatch = dict(pickle._Unpickler.dispatch)
    dispatch[pickle.STOP[0]] = load_stop


ARG = "payload-text"
NESTED = [7, 1, {"k": 0, "j": [0, 1]}]


def same_typed(a, b):
    """equality that also compares the types (1 is not True, 0 is not False, 1 is not 1.0), through lists / tuples / dicts"""
    if type(a) is not type(b):
        return False
    if isinstance(a, (list, tuple)):
        return len(a) == len(b) and all(same_typed(x, y) for x, y in zip(a, b))
    if isinstance(a, dict):
        return len(a) == len(b) and all(same_typed(x, y) for x, y in zip(a.keys(), b.keys())) and all(same_typed(a[k], b[k]) for k in a)
    return a == b
MODES = []
for run_first in (True, False):
    for replace in (False, True):
        MODES.append((f"insert_python(run_first={run_first}, replace={replace})",
                      lambda p, rf=run_first, rp=replace: p.insert_python(ARG, 3, 0, 1, NESTED, module="verif_c08", attr="injected", run_first=rf, use_output_as_unpickle_result=rp),
                      ("keeps" if not replace else "replaces"), (ARG, 3, 0, 1, NESTED)))
for pop in (False, True):
    MODES.append((f"append_python(pop_result={pop})", lambda p, pr=pop: p.append_python(ARG, 1, 0, module="verif_c08", attr="injected", pop_result=pr),
                  "keeps" if pop else "on-top", (ARG, 1, 0)))
MODES.append(("insert_magic_int(4242)", lambda p: p.insert_magic_int(4242), "keeps-no-call", None))
MODES.append(("insert_magic_int(4242, index=0)", lambda p: p.insert_magic_int(4242, 0), "keeps-no-call", None))
FN_DEF = "def probe_fn(obj):\n    import verif_c08\n    return verif_c08.fn_on_obj(obj)\n"
for comp in (False, True):
    MODES.append((f"insert_function_call_on_unpickled_object(compile_code={comp})",
                  lambda p, c=comp: p.insert_function_call_on_unpickled_object(FN_DEF, compile_code=c), "applied", ()))

fails, n = [], 0


def framed(data):
    return any(o.name == "FRAME" for o, _, _ in __import__("pickletools").genops(data))


for bname, base, obj in BASES:
    del LOG[:]
    try:
        ref_value = pickle.loads(base)
        base_effects = [e for e in LOG if e[0] == "effect"]
    except Exception:  # noqa
        continue
    for mname, inject, promise, args in MODES:
        n += 1
        case = {"base": bname, "mode": mname}
        try:
            p = fk.Pickled.load(base)
            inject(p)
            data = p.dumps()
        except Exception as e:  # noqa  a refusal when the pickle is rewritten is not a violation of C08
            continue
        stops = [i for i, o in enumerate(p) if isinstance(o, fk.Stop)]
        if stops != [len(p) - 1]:
            fails.append(dict(case, what=f"STOP opcodes at {stops} of {len(p)} opcodes"))
            continue
        loaders = [("accelerated", lambda d: pickle.loads(d))]
        if not framed(data):
            loaders.append(("pure-python", lambda d: PyUnpickler(io.BytesIO(d)).load()))
        for lname, ld in loaders:
            del LOG[:]
            PyUnpickler.depth_at_stop = None
            try:
                got = ld(data)
            except Exception as e:  # noqa
                fails.append(dict(case, loader=lname, what=f"loading the rewritten pickle raises {type(e).__name__}: {e}"[:200], bytes=data.hex()[:300]))
                continue
            inj = [e for e in LOG if e[0] in ("injected", "fn-on-object")]
            eff = [e for e in LOG if e[0] == "effect"]
            if promise == "keeps-no-call":
                if inj:
                    fails.append(dict(case, loader=lname, what="a marker insertion made a call"))
            elif len(inj) != 1:
                fails.append(dict(case, loader=lname, what=f"the injected call ran {len(inj)} times"))
                continue
            elif args is not None and promise != "applied" and not same_typed(tuple(inj[0][1]), tuple(args)):
                fails.append(dict(case, loader=lname, what=f"the injected call got {inj[0][1]!r}, expected {args!r}"[:200]))
            if eff != base_effects:
                fails.append(dict(case, loader=lname, what=f"the base pickle's effects were {base_effects} and are now {eff}"[:200]))
            if promise in ("keeps", "keeps-no-call") and not (got == ref_value):
                fails.append(dict(case, loader=lname, what=f"the result is {got!r:.80}, the original object is {ref_value!r:.80}"))
            if promise == "replaces" and not (isinstance(got, tuple) and got and got[0] == "value-of-injected-call"):
                fails.append(dict(case, loader=lname, what=f"the result is {got!r:.80}, expected the injected call's value"))
            if promise == "applied" and not (isinstance(got, tuple) and got[0] == "applied" and got[1] == ref_value):
                fails.append(dict(case, loader=lname, what=f"the result is {got!r:.80}, expected the function applied to the original object"))
            if lname == "pure-python" and PyUnpickler.depth_at_stop not in (0, None) and promise != "on-top":
                fails.append(dict(case, loader=lname, what=f"{PyUnpickler.depth_at_stop} extra value(s) on the VM stack at STOP"))
        if promise != "keeps-no-call":
            try:
                sev = fa.check_safety(fk.Pickled.load(data), json_output_path=os.path.join(os.getcwd(), "r.json")).severity.name
                if sev == "LIKELY_SAFE":
                    fails.append(dict(case, what="fickling rates the rewritten pickle LIKELY_SAFE"))
            except Exception as e:  # noqa
                fails.append(dict(case, what=f"fickling cannot analyse the rewritten pickle: {type(e).__name__}: {e}"[:160]))
print(json.dumps({"bounded": True, "bases": len(BASES), "modes": len(MODES), "cases": n, "n_failures": len(fails), "failures": spread(fails, lambda f: (f.get("mode"), f.get("loader"), f["what"][:40]), per=4)}, default=str))
