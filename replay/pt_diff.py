"""Replay / bounded companion for C16: zip-format PyTorch files saved from generated models and state containers (modules, state
dicts, nested dicts / lists / tuples of tensors of several dtypes and shapes, zero-size tensors, shared storages) x payload strings x
both overwrite settings, through PyTorchModelWrapper.inject_payload(..., injection="insertion").
Checked: same member names in the same order; every member except the model pickle byte-identical; the model pickle is the original with
the injected call added (library injection on the extracted pickle gives the same bytes); torch.load(weights_only=False) runs the payload
exactly once and rebuilds an equal model; the input is untouched unless overwrite, in which case it is the injected archive and no stray
output remains.  Prints one JSON object (bounded)."""
import io
import json
import os
import shutil
import sys
import warnings
import zipfile

warnings.filterwarnings("ignore")
import torch  # noqa: E402
import fickling.fickle as fk  # noqa: E402
from fickling.pytorch import PyTorchModelWrapper  # noqa: E402

seed = int(sys.argv[1]) if len(sys.argv) > 1 else 0
torch.manual_seed(seed)
CWD = os.getcwd()
COUNTER = os.path.join(CWD, "payload_runs.txt")


class Net(torch.nn.Module):
    def __init__(self):
        super().__init__()
        self.a = torch.nn.Linear(3, 2)
        self.b = torch.nn.Linear(2, 1)

    def forward(self, x):
        return self.b(self.a(x))


import __main__  # noqa: E402
__main__.Net = Net
Net.__module__ = "__main__"
shared = torch.arange(6, dtype=torch.float32)
OBJECTS = [
    ("state-dict", lambda: Net().state_dict()),
    ("module", lambda: Net()),
    ("nested", lambda: {"a": [torch.ones(2, 2), (torch.zeros(3, dtype=torch.int64), {"k": torch.tensor(1.5, dtype=torch.float64)})], "n": 3, "s": "text"}),
    ("zero-size", lambda: {"empty": torch.zeros(0), "empty2d": torch.zeros(0, 4), "full": torch.ones(2)}),
    ("shared-storage", lambda: {"v1": shared[:3], "v2": shared[3:], "whole": shared}),
    ("dtypes", lambda: [torch.zeros(2, dtype=d) for d in (torch.float16, torch.bfloat16, torch.int8, torch.uint8, torch.bool, torch.complex64)]),
    ("scalar-only", lambda: {"x": 1, "y": [1, 2, 3]}),
]
PAYLOADS = ["open(%r, 'a').write('x')" % COUNTER,
            # fewer than 256 characters but more than 255 bytes of UTF-8 (and more than 255 characters): the length classes of the text opcodes
            "open(%r, 'a').write('x')  # %s" % (COUNTER, "漢字" * 60),
            "open(%r, 'a').write('x')  # %s" % (COUNTER, "é" * 300),
            "open(%r, 'a').write('x')  # café \\ 'quote' \"dq\"" % COUNTER,
            "[open(%r, 'a').write('x'), 123][1]" % COUNTER,
            # text that also occurs in the model pickle (a storage key / device name): valid Python, runs, writes nothing
            "0"]


def same(a, b):
    if isinstance(a, torch.Tensor):
        return isinstance(b, torch.Tensor) and a.dtype == b.dtype and a.shape == b.shape and torch.equal(a, b)
    if isinstance(a, torch.nn.Module):
        return isinstance(b, torch.nn.Module) and same(a.state_dict(), b.state_dict())
    if isinstance(a, dict):
        return isinstance(b, dict) and list(a.keys()) == list(b.keys()) and all(same(a[k], b[k]) for k in a)
    if isinstance(a, (list, tuple)):
        return type(a) is type(b) and len(a) == len(b) and all(same(x, y) for x, y in zip(a, b))
    return a == b


def members(path):
    with zipfile.ZipFile(path) as z:
        return [(i.filename, z.read(i.filename)) for i in z.infolist()]


fails, n = [], 0
for oname, make in OBJECTS:
    for pi, payload in enumerate(PAYLOADS):
        for overwrite in (False, True):
            n += 1
            case = {"object": oname, "payload": pi, "overwrite": overwrite}
            src = os.path.join(CWD, "model.pt")
            out = os.path.join(CWD, "injected.pt")
            for p in (src, out, COUNTER):
                if os.path.exists(p):
                    os.remove(p)
            obj = make()
            torch.save(obj, src)
            before = open(src, "rb").read()
            listing0 = set(os.listdir(CWD))
            orig = members(src)
            try:
                PyTorchModelWrapper(src).inject_payload(payload, out, injection="insertion", overwrite=overwrite)
            except Exception as e:  # noqa
                fails.append(dict(case, what=f"inject_payload raises {type(e).__name__}: {e}"[:200]))
                continue
            result_path = src if overwrite else out
            if overwrite:
                if os.path.exists(out):
                    fails.append(dict(case, what="overwrite requested but the output file is still there"))
                stray = sorted(set(os.listdir(CWD)) - listing0)
                if stray:
                    fails.append(dict(case, what=f"stray files after overwrite: {stray}"))
            else:
                if open(src, "rb").read() != before:
                    fails.append(dict(case, what="the input file was modified although overwrite was not requested"))
                stray = sorted(set(os.listdir(CWD)) - listing0 - {"injected.pt"})
                if stray:
                    fails.append(dict(case, what=f"stray files: {stray}"))
            try:
                new = members(result_path)
            except Exception as e:  # noqa
                fails.append(dict(case, what=f"the result is not a readable zip: {e}"[:160]))
                continue
            if [m[0] for m in new] != [m[0] for m in orig]:
                fails.append(dict(case, kind="members", what=f"member names / order differ: {[m[0] for m in orig]} -> {[m[0] for m in new]}"[:300]))
                continue
            for (nm, a), (_, b) in zip(orig, new):
                if nm.endswith("/data.pkl"):
                    p = fk.Pickled.load(a)
                    p.insert_python_exec(payload)
                    if b != p.dumps():
                        fails.append(dict(case, kind="model-pickle", what="the model pickle is not the original with the injected call added"))
                elif a != b:
                    fails.append(dict(case, kind="member-bytes", what=f"member {nm} is not byte-identical"))
            try:
                loaded = torch.load(result_path, weights_only=False)
            except Exception as e:  # noqa
                fails.append(dict(case, kind="reload", what=f"torch.load of the injected file raises {type(e).__name__}: {e}"[:200]))
                continue
            runs = len(open(COUNTER).read()) if os.path.exists(COUNTER) else 0
            if runs != 1 and "write" in payload:
                fails.append(dict(case, kind="payload-runs", what=f"the payload ran {runs} times"))
            if not same(obj, loaded):
                fails.append(dict(case, kind="model", what="the reloaded model differs from the original"))
# the same unchanged input wrapped and injected several times in one process (check, then inject; two payloads from one base file):
# every output is the original plus *its* payload only
for oname, make in OBJECTS[:3]:
    src = os.path.join(CWD, "model.pt")
    for p in (src, COUNTER):
        if os.path.exists(p):
            os.remove(p)
    obj = make()
    torch.save(obj, src)
    orig = dict(members(src))
    for k, payload in enumerate(PAYLOADS + PAYLOADS[:1]):
        n += 1
        case = {"object": oname, "payload": k, "overwrite": False, "kind": "repeated-injection", "round": k}
        out = os.path.join(CWD, f"injected{k}.pt")
        try:
            w = PyTorchModelWrapper(src)
            _ = w.pickled                                   # a read before the injection, as the CLI's check-then-inject does
            PyTorchModelWrapper(src).inject_payload(payload, out, injection="insertion", overwrite=False)
            new = dict(members(out))
        except Exception as e:  # noqa
            fails.append(dict(case, what=f"raises {type(e).__name__}: {e}"[:200]))
            continue
        for nm, a in orig.items():
            if nm.endswith("/data.pkl"):
                p = fk.Pickled.load(a)
                p.insert_python_exec(payload)
                if new.get(nm) != p.dumps():
                    fails.append(dict(case, what=f"injection #{k + 1} from the same unchanged file: the model pickle is not the original with the one injected call added "
                                                 f"({sum(1 for o in fk.Pickled.load(new.get(nm, a)) if o.name == 'REDUCE') - sum(1 for o in fk.Pickled.load(a) if o.name == 'REDUCE')} calls added)"))
        if os.path.exists(COUNTER):
            os.remove(COUNTER)
        try:
            torch.load(out, weights_only=False)
            runs = len(open(COUNTER).read()) if os.path.exists(COUNTER) else 0
            if runs != 1 and "write" in payload:
                fails.append(dict(case, what=f"injection #{k + 1} from the same unchanged file: loading runs the payload {runs} times"))
        except Exception as e:  # noqa
            fails.append(dict(case, what=f"torch.load raises {type(e).__name__}: {e}"[:160]))
        os.remove(out)
print(json.dumps({"bounded": True, "cases": n, "torch": torch.__version__, "n_failures": len(fails), "failures": fails[:60]}))
