"""Replay / bounded companion for C11 (and the entry-point part of C07): sequences of activate(additions) / deactivate /
construct-unpickler(additions) / probe-load operations; after every operation the set of globals the environment permits is compared
with  built-in allowlist + the additions of the currently active activation (or of the unpickler instance probed), and the built-in
allowlist (also what the static MLAllowlist analysis consults) is compared with its import-time snapshot.  Prints one JSON object.
Bound: the fixed scenarios below + `seed`-derived random sequences up to length 8 (labelled bounded)."""
import copy
import io
import json
import pickle
import _pickle
import random
import sys

import fickling.hook as hook
import fickling.ml as ml
from fickling.exception import UnsafeFileError

seed = int(sys.argv[1]) if len(sys.argv) > 1 else 0
rnd = random.Random(seed)
SNAP = copy.deepcopy(ml.ML_ALLOWLIST)
ORIG = (pickle.load, pickle.loads, _pickle.load, _pickle.loads)

# probes: (module, name); all importable in the baseline environment
BUILTIN_PROBES = [("collections", "OrderedDict"), ("_codecs", "encode"), ("_io", "BytesIO")]
BUILTIN_PROBES = [p for p in BUILTIN_PROBES if p[0] in SNAP and p[1] in SNAP[p[0]]]
NEW_MEMBER = [("collections", "Counter"), ("collections", "deque"), ("_io", "StringIO"), ("argparse", "ArgumentParser")]   # new member of an allow-listed module
NEW_MEMBER = [p for p in NEW_MEMBER if p[0] in SNAP and p[1] not in SNAP[p[0]]]
NEW_MODULE = [("fractions", "Fraction"), ("decimal", "Decimal"), ("datetime", "date")]                                  # module not on the list
NEW_MODULE = [p for p in NEW_MODULE if p[0] not in SNAP]
ADDABLE = NEW_MEMBER + NEW_MODULE
PROBES = BUILTIN_PROBES + ADDABLE + [("os", "system"), ("builtins", "eval")]


def blob(m, n):
    return b"c" + m.encode() + b"\n" + n.encode() + b"\n."


def permitted_through(loader):
    """which probes the loader resolves (the probe pickles only resolve a global: nothing is called)"""
    out = set()
    for m, n in PROBES:
        if (m, n) in (("os", "system"), ("builtins", "eval")) and loader in ORIG:
            continue            # never hand a dangerous global to an unmediated loader
        try:
            loader(blob(m, n))
            out.add((m, n))
        except UnsafeFileError:
            pass
        except Exception as e:  # noqa
            out.add((m, n, "error:" + type(e).__name__))
    return out


def expected(additions):
    want = set(BUILTIN_PROBES)
    for a in additions or []:
        m, n = a.rsplit(".", 1)
        want.add((m, n))
    return {p for p in want if p in PROBES}


fails, n_ops = [], 0


def check_builtin(history):
    if ml.ML_ALLOWLIST != SNAP:
        diff = {m: sorted(set(ml.ML_ALLOWLIST.get(m, {})) ^ set(SNAP.get(m, {}))) for m in set(ml.ML_ALLOWLIST) | set(SNAP)
                if ml.ML_ALLOWLIST.get(m) != SNAP.get(m)}
        fails.append({"history": list(history), "what": "the built-in allowlist (also read by the MLAllowlist analysis) changed", "difference": diff})
        return False
    return True


def run_sequence(seq):
    """seq: list of ('activate', additions) / ('deactivate',) / ('construct', additions) / ('probe',)"""
    global n_ops
    hook.remove_hook()
    ml.ML_ALLOWLIST.clear()
    ml.ML_ALLOWLIST.update(copy.deepcopy(SNAP))
    active = None        # additions of the active activation, or None when not active
    history = []
    for step in seq:
        n_ops += 1
        history.append(step if len(step) == 1 else (step[0], list(step[1] or [])))
        if step[0] == "activate":
            hook.activate_safe_ml_environment(also_allow=list(step[1]) if step[1] is not None else None)
            active = list(step[1] or [])
        elif step[0] == "deactivate":
            hook.deactivate_safe_ml_environment()
            active = None
        elif step[0] == "construct":
            adds = list(step[1] or [])
            got = permitted_through(lambda b, adds=adds: ml.FicklingMLUnpickler(io.BytesIO(b), also_allow=list(adds)).load())
            if got != expected(adds):
                fails.append({"history": list(history), "what": "an unpickler constructed with its own additions permits a different set",
                              "permitted_but_not_expected": sorted(map(str, got - expected(adds))), "expected_but_refused": sorted(map(str, expected(adds) - got))})
                return
        if not check_builtin(history):
            return
        if active is not None:
            for nm, ld in (("pickle.loads", pickle.loads), ("_pickle.loads", _pickle.loads), ("pickle.load", lambda b: pickle.load(io.BytesIO(b))),
                           ("_pickle.load", lambda b: _pickle.load(io.BytesIO(b)))):
                got = permitted_through(ld)
                if got != expected(active):
                    fails.append({"history": list(history), "what": f"{nm} under the active environment permits a different set", "through": nm,
                                  "permitted_but_not_expected": sorted(map(str, got - expected(active))),
                                  "expected_but_refused": sorted(map(str, expected(active) - got))})
                    return
        else:
            if (pickle.load, pickle.loads, _pickle.load, _pickle.loads) != ORIG:
                fails.append({"history": list(history), "what": "after deactivation the pickle entry points are not the original functions"})
                return


def adds(*ps):
    return [f"{m}.{n}" for m, n in ps]


FIXED = []
if NEW_MEMBER and NEW_MODULE:
    a, b = NEW_MEMBER[0], NEW_MODULE[0]
    FIXED = [
        [("activate", adds(a)), ("deactivate",), ("activate", [])],
        [("activate", adds(b)), ("deactivate",), ("activate", None)],
        [("activate", adds(a)), ("activate", adds(b))],
        [("activate", adds(a, b)), ("deactivate",), ("construct", [])],
        [("construct", adds(a)), ("construct", [])],
        [("construct", adds(a)), ("activate", [])],
        [("activate", []), ("construct", adds(a)), ("probe",)],
        [("activate", adds(a)), ("construct", adds(b)), ("probe",)],
        [("activate", adds(a)), ("deactivate",), ("deactivate",), ("activate", adds(b)), ("probe",)],
    ]
for s in FIXED:
    run_sequence(s)
for _ in range(40):
    seq = []
    for _ in range(rnd.randrange(1, 9)):
        k = rnd.choice(["activate", "activate", "deactivate", "construct", "probe"])
        if k in ("activate", "construct"):
            seq.append((k, adds(*rnd.sample(ADDABLE, rnd.randrange(0, min(3, len(ADDABLE)) + 1)))))
        else:
            seq.append((k,))
    run_sequence(seq)
# the same list object reused with other contents
if ADDABLE:
    hook.remove_hook()
    extra = adds(ADDABLE[0])
    hook.activate_safe_ml_environment(also_allow=extra)
    permitted_through(pickle.loads)
    hook.deactivate_safe_ml_environment()
    extra[:] = adds(ADDABLE[-1])
    hook.activate_safe_ml_environment(also_allow=extra)
    got = permitted_through(pickle.loads)
    n_ops += 4
    if got != expected(extra):
        fails.append({"history": ["activate(L)", "deactivate", "L[:] = other additions", "activate(L)"], "what": "additions list object reused with other contents",
                      "permitted_but_not_expected": sorted(map(str, got - expected(extra))), "expected_but_refused": sorted(map(str, expected(extra) - got))})
# one new member added to each allow-listed module in turn: the unpickler's tables must be the built-in ones plus that member in that one
# module, for every module (an addition must not show up under another module's name, whatever the built-in tables share)
hook.remove_hook()
ml.ML_ALLOWLIST.clear()
ml.ML_ALLOWLIST.update(copy.deepcopy(SNAP))
for m in sorted(SNAP):
    n_ops += 1
    u = ml.FicklingMLUnpickler(io.BytesIO(b""), also_allow=[f"{m}.VerifNewMember"])
    table = getattr(u, "allowlist", None)
    if not isinstance(table, dict):
        break           # (the tables are kept some other way: the probes above are what speaks)
    leaked = sorted(k for k in table if k != m and "VerifNewMember" in table[k])
    wrong = sorted(k for k in set(table) | set(SNAP) if set(table.get(k, {})) != set(SNAP.get(k, {})) | ({"VerifNewMember"} if k == m else set()))
    if leaked or wrong:
        fails.append({"history": [("construct", [f"{m}.VerifNewMember"])], "what": "an addition to one module changes what the unpickler permits under other modules",
                      "permitted_but_not_expected": [f"{k}.VerifNewMember" for k in leaked], "modules_whose_table_differs": wrong[:6]})
        break
    if not check_builtin([("construct", [f"{m}.VerifNewMember"])]):
        break
hook.remove_hook()
print(json.dumps({"bounded": True, "sequences": len(FIXED) + 41, "operations": n_ops, "probes": [list(p) for p in PROBES], "n_failures": len(fails),
                  "failures": fails[:40]}, default=str))
