"""Reference pickle VM for replays and bounded cross-checks: CPython's pure-Python pickle._Unpickler run under an inert environment
(find_class returns recording stubs, nothing is imported or executed), observed after every opcode.
Run under /venv/bin/python with PYTHONPATH=<tree under test>."""
import io
import pickle
import pickletools
import struct

MARK = "<MARK>"


def make_stub(log, module, name):
    """inert stand-in for a global: a *class* (so that NEWOBJ / OBJ / INST accept it) whose construction through any route — cls(...),
    cls.__new__(cls, ...) — records one call event and returns an inert instance; __setstate__ records a build event"""
    qual = f"{module}.{name}"

    class Meta(type):
        def __call__(cls, *a, **k):
            log.append(("call", qual, a, k))
            return object.__new__(cls)

        def __repr__(cls):
            return f"G({qual})"

    def _new(cls, *a, **k):
        log.append(("call", qual, a, k))
        return object.__new__(cls)

    def _setstate(self, state):
        log.append(("build", qual, state))

    def _repr(self):
        return f"Ret({qual})"
    return Meta(name, (), {"__new__": _new, "__setstate__": _setstate, "__repr__": _repr, "__module__": module,
                           "__eq__": lambda a, b: type(a) is type(b), "__hash__": lambda a: 0})


import copyreg  # noqa: E402
for _code, _name in ((240, "factory"), (241, "factory2"), (70000, "factory4")):
    if ("verif_ext_mod", _name) not in copyreg._extension_registry:
        copyreg.add_extension("verif_ext_mod", _name, _code)


class RefVM(pickle._Unpickler):
    def __init__(self, data):
        super().__init__(io.BytesIO(data))
        self.log = []
        self.trace = []      # after each opcode: (opcode name, flat shape, memo keys)

    def find_class(self, module, name):
        self.log.append(("import", module, name))
        return make_stub(self.log, module, name)

    def persistent_load(self, pid):
        self.log.append(("persistent_load", pid))
        return ("PERS", pid)

    def flat(self):
        out = []
        for s in self.metastack:
            out += list(s) + [MARK]
        return out + list(self.stack)

    def shape(self):
        return [x is MARK for x in self.flat()]

    def run(self, on_step=None):
        """returns (accepted prefix length in opcodes, result or exception)"""
        self._unframer = pickle._Unframer(self._file_read, self._file_readline)
        self.read = self._unframer.read
        self.readinto = self._unframer.readinto
        self.readline = self._unframer.readline
        self.metastack = []
        self.stack = []
        self.append = self.stack.append
        self.proto = 0
        names = {o.code.encode("latin-1")[0]: o.name for o in pickletools.opcodes}
        n = 0
        try:
            while True:
                key = self.read(1)
                if not key:
                    raise EOFError
                self.dispatch[key[0]](self)
                n += 1
                self.trace.append((names.get(key[0]), self.shape(), sorted(self.memo)))
                if on_step:
                    on_step(self)
        except pickle._Stop as st:
            n += 1
            return n, ("ok", st.value)
        except Exception as e:  # noqa
            return n, ("raise", e)


# ---- a small typed assembler ------------------------------------------------------------------------------------------------
def op(name, arg=None):
    return (name, arg)


def assemble(prog):
    """[(opcode name, arg)] -> bytes (arguments encoded as the stock pickler would)"""
    info = {o.name: o for o in pickletools.opcodes}
    out = bytearray()
    for name, arg in prog:
        o = info[name]
        out += o.code.encode("latin-1")
        if o.arg is None:
            continue
        an = o.arg.name
        if an == "uint1":
            out += bytes([arg])
        elif an == "uint2":
            out += struct.pack("<H", arg)
        elif an in ("int4",):
            out += struct.pack("<i", arg)
        elif an == "uint4":
            out += struct.pack("<I", arg)
        elif an == "uint8":
            out += struct.pack("<Q", arg)
        elif an in ("decimalnl_short", "decimalnl_long"):
            out += (str(arg) if not isinstance(arg, bool) else ("01" if arg else "00")).encode() + (b"L\n" if name == "LONG" else b"\n")
        elif an == "stringnl":
            out += repr(arg).encode() + b"\n"
        elif an == "stringnl_noescape":
            out += arg.encode() + b"\n"
        elif an == "stringnl_noescape_pair":
            m, n = arg
            out += m.encode() + b"\n" + n.encode() + b"\n"
        elif an == "unicodestringnl":
            out += arg.encode("raw-unicode-escape") + b"\n"
        elif an == "unicodestring1":
            b = arg.encode("utf-8")
            out += bytes([len(b)]) + b
        elif an == "unicodestring4":
            b = arg.encode("utf-8")
            out += struct.pack("<I", len(b)) + b
        elif an == "unicodestring8":
            b = arg.encode("utf-8")
            out += struct.pack("<Q", len(b)) + b
        elif an in ("bytes1", "string1"):
            out += bytes([len(arg)]) + arg
        elif an in ("bytes4", "string4"):
            out += struct.pack("<I", len(arg)) + arg
        elif an == "bytes8":
            out += struct.pack("<Q", len(arg)) + arg
        elif an == "float8":
            out += struct.pack(">d", arg)
        elif an == "floatnl":
            out += repr(arg).encode() + b"\n"
        elif an in ("long1",):
            b = pickle.encode_long(arg)
            out += bytes([len(b)]) + b
        elif an == "long4":
            b = pickle.encode_long(arg)
            out += struct.pack("<i", len(b)) + b
        else:
            raise ValueError(f"assembler: argument kind {an} for {name}")
    return bytes(out)


def G(m, n):
    return [op("GLOBAL", (m, n))]


def SG(m, n):
    return [op("SHORT_BINUNICODE", m), op("SHORT_BINUNICODE", n), op("STACK_GLOBAL")]


def corpus():
    """hand-assembled programs exercising every opcode fickling supports, in VM-accepted contexts, plus natural pickles"""
    P = []
    u = lambda s: op("SHORT_BINUNICODE", s)  # noqa
    one = op("BININT1", 1)
    P.append(("pop", [one, op("BININT1", 2), op("POP"), op("STOP")]))
    P.append(("dup", [one, op("DUP"), op("POP"), op("STOP")]))
    P.append(("pop_mark", [one, op("MARK"), one, one, op("POP_MARK"), op("STOP")]))
    P.append(("pop_of_mark", [one, op("MARK"), op("POP"), op("STOP")]))
    P.append(("tuple", [op("MARK"), one, one, op("TUPLE"), op("STOP")]))
    P.append(("tuples123", [one, op("TUPLE1"), one, one, op("TUPLE2"), one, one, one, op("TUPLE3"), op("TUPLE2"), op("EMPTY_TUPLE"), op("TUPLE2"), op("STOP")]))
    P.append(("list", [op("MARK"), one, one, op("LIST"), op("STOP")]))
    P.append(("appends", [op("EMPTY_LIST"), op("MARK"), one, one, op("APPENDS"), one, op("APPEND"), op("STOP")]))
    P.append(("dict", [op("MARK"), u("a"), one, u("b"), one, op("DICT"), op("STOP")]))
    P.append(("setitems", [op("EMPTY_DICT"), op("MARK"), u("a"), one, op("SETITEMS"), u("b"), one, op("SETITEM"), op("STOP")]))
    P.append(("setitems_nonempty", [op("EMPTY_DICT"), u("a"), one, op("SETITEM"), op("MARK"), u("b"), one, op("SETITEMS"), u("c"), one, op("SETITEM"), op("STOP")]))
    P.append(("additems", [op("PROTO", 4), op("EMPTY_SET"), op("MARK"), one, op("BININT1", 2), op("ADDITEMS"), op("STOP")]))
    P.append(("additems_below", [op("PROTO", 4), one, op("EMPTY_SET"), op("MARK"), one, op("ADDITEMS"), op("TUPLE2"), op("STOP")]))
    P.append(("frozenset", [op("PROTO", 4), op("MARK"), one, op("BININT1", 2), op("FROZENSET"), op("STOP")]))
    P.append(("memo", [one, op("PUT", 0), op("BINPUT", 1), op("LONG_BINPUT", 70000), op("POP"), op("GET", 0), op("BINGET", 1), op("LONG_BINGET", 70000),
                       op("TUPLE3"), op("STOP")]))
    P.append(("memoize", [op("PROTO", 4), one, op("MEMOIZE"), u("x"), op("MEMOIZE"), op("BINGET", 0), op("BINGET", 1), op("TUPLE3"), op("TUPLE2"), op("STOP")]))
    P.append(("memoize_after_put", [op("PROTO", 4), op("EMPTY_LIST"), op("BINPUT", 1), op("MARK"), op("NONE"), op("MEMOIZE"), op("APPENDS"), op("STOP")]))
    P.append(("consts", [op("NONE"), op("NEWTRUE"), op("NEWFALSE"), op("TUPLE3"), op("BININT", -5), op("BININT2", 300), op("TUPLE3"),
                         op("INT", 7), op("LONG", 12345678901234567890), op("TUPLE3"), op("LONG1", -3), op("LONG4", 1 << 70), op("TUPLE3"),
                         op("BINFLOAT", 1.5), op("BINUNICODE", "é"), op("TUPLE3"), op("SHORT_BINBYTES", b"ab"), op("BINBYTES", b"cd"), op("TUPLE3"),
                         op("STRING", "s"), op("SHORT_BINSTRING", b"t"), op("TUPLE3"), op("BINSTRING", b"v"), op("UNICODE", "w"), op("TUPLE3"), op("STOP")]))
    for nm, g in (("global", G), ("stack_global", SG)):
        P.append((f"{nm}_reduce", g("os", "system") + [op("MARK"), u("id"), op("TUPLE"), op("REDUCE"), op("STOP")]))
        P.append((f"{nm}_reduce_popped", g("os", "system") + [u("id"), op("TUPLE1"), op("REDUCE"), op("POP"), op("NONE"), op("STOP")]))
        P.append((f"{nm}_newobj", g("collections", "OrderedDict") + [op("EMPTY_TUPLE"), op("NEWOBJ"), op("STOP")]))
        P.append((f"{nm}_newobj_popped", g("builtins", "object") + [op("EMPTY_TUPLE"), op("NEWOBJ"), op("POP"), op("NONE"), op("STOP")]))
        P.append((f"{nm}_newobj_ex", [op("PROTO", 4)] + g("m", "C") + [op("EMPTY_TUPLE"), op("EMPTY_DICT"), op("NEWOBJ_EX"), op("STOP")]))
        P.append((f"{nm}_newobj_ex_kw", [op("PROTO", 4)] + g("m", "C") + [one, op("TUPLE1"), op("EMPTY_DICT"), u("k"), one, op("SETITEM"), op("NEWOBJ_EX"), op("STOP")]))
        P.append((f"{nm}_obj", [op("MARK")] + g("builtins", "exec") + [u("x=1"), op("OBJ"), op("STOP")]))
        P.append((f"{nm}_obj_popped", [op("MARK")] + g("builtins", "exec") + [u("x=1"), op("OBJ"), op("POP"), op("NONE"), op("STOP")]))
        P.append((f"{nm}_obj_noargs", [op("MARK")] + g("os", "getcwd") + [op("OBJ"), op("STOP")]))        # a callable that is not a class: the VM calls it
        P.append((f"{nm}_obj_noargs_popped", [op("MARK")] + g("os", "getcwd") + [op("OBJ"), op("POP"), op("NONE"), op("STOP")]))
        P.append((f"{nm}_build", g("m", "C") + [op("EMPTY_TUPLE"), op("REDUCE"), op("EMPTY_DICT"), u("a"), one, op("SETITEM"), op("BUILD"), op("STOP")]))
        P.append((f"{nm}_dup_memo", g("os", "getenv") + [op("DUP"), op("PUT", 3), op("POP"), u("HOME"), op("TUPLE1"), op("REDUCE"), op("GET", 3), op("TUPLE2"), op("STOP")]))
    P.append(("dotted_collision_a", [op("PROTO", 4)] + SG("os", "path.join") + SG("os.path", "join") + [op("TUPLE2"), op("STOP")]))
    P.append(("dotted_collision_b", [op("PROTO", 4)] + SG("pkg.sub", "run") + SG("pkg", "sub.run") + [op("TUPLE2"), op("STOP")]))
    # two globals with the same name from different modules, each called: the second import must not be taken for the first
    P.append(("same_name_two_modules", G("verifmod_a", "Point") + [one, op("TUPLE1"), op("REDUCE")] + G("verifmod_b", "Point") + [one, op("TUPLE1"), op("REDUCE"), op("TUPLE2"), op("STOP")]))
    P.append(("same_name_two_modules_sg", [op("PROTO", 4)] + SG("verifmod_a", "Point") + [op("EMPTY_TUPLE"), op("REDUCE")] + SG("verifmod_b", "Point") + [op("EMPTY_TUPLE"), op("REDUCE"), op("TUPLE2"), op("STOP")]))
    # SETITEMS / APPENDS / ADDITEMS with an empty batch are no-ops on their target, whatever the target is
    P.append(("empty_setitems_on_call_result", G("collections", "OrderedDict") + [op("EMPTY_TUPLE"), op("REDUCE"), op("MARK"), op("SETITEMS"), op("STOP")]))
    P.append(("empty_setitems_then_values_below", [one] + G("collections", "OrderedDict") + [op("EMPTY_TUPLE"), op("REDUCE"), op("MARK"), op("SETITEMS"), op("TUPLE2"), op("STOP")]))
    P.append(("empty_appends_on_list", [op("EMPTY_LIST"), op("MARK"), op("APPENDS"), op("STOP")]))
    # MEMOIZE stores at len(memo), whatever keys explicit PUTs used before: sparse keys make the two notions of "next key" differ
    P.append(("memoize_overwrites_sparse_put", [op("PROTO", 4), u("first"), op("BINPUT", 1), u("second"), op("MEMOIZE"), op("BINGET", 1), op("TUPLE3"), op("STOP")]))
    P.append(("memoize_after_put5", [op("PROTO", 4), op("BININT1", 10), op("BINPUT", 5), op("BININT1", 20), op("MEMOIZE"), op("BINGET", 1), op("BINGET", 5), op("TUPLE"), op("STOP")][0:1]
              + [op("MARK"), op("BININT1", 10), op("BINPUT", 5), op("BININT1", 20), op("MEMOIZE"), op("BINGET", 1), op("BINGET", 5), op("TUPLE"), op("STOP")]))
    P.append(("memoize_swaps_callee", [op("PROTO", 4)] + G("collections", "OrderedDict") + [op("BINPUT", 1), op("POP")] + G("os", "getcwd")
              + [op("MEMOIZE"), op("POP"), op("BINGET", 1), op("EMPTY_TUPLE"), op("REDUCE"), op("STOP")]))
    # the extension registry (EXT1 / EXT2 / EXT4): the VM resolves a global the pickle does not name — registered below for this process
    P.append(("ext1_resolved", [op("PROTO", 2), op("EXT1", 240), op("STOP")]))
    P.append(("ext1_called", [op("PROTO", 2), op("EXT1", 240), one, op("TUPLE1"), op("REDUCE"), op("STOP")]))
    P.append(("ext2_called", [op("PROTO", 2), op("EXT2", 241), op("EMPTY_TUPLE"), op("REDUCE"), op("STOP")]))
    P.append(("ext4_called_popped", [op("PROTO", 2), op("EXT4", 70000), op("EMPTY_TUPLE"), op("REDUCE"), op("POP"), op("NONE"), op("STOP")]))
    # imports of every rule category next to calls of every callee shape (name, attribute of a variable, UNPICKLER.persistent_load, .update):
    # rules that look at one must not assume the shape of the other
    for mod, name in (("os", "system"), ("subprocess", "run"), ("builtins", "eval"), ("foo", "eval"), ("torch.hub", "load"), ("numpy", "load"), ("collections", "OrderedDict")):
        imp = G(mod, name)
        tag = f"{mod}.{name}"
        P.append((f"cat:{tag}:after_build", G("m", "C") + [op("EMPTY_TUPLE"), op("REDUCE"), op("EMPTY_DICT"), op("BUILD")] + imp + [op("TUPLE2"), op("STOP")]))
        P.append((f"cat:{tag}:after_persid", [u("pid"), op("BINPERSID")] + imp + [op("TUPLE2"), op("STOP")]))
        P.append((f"cat:{tag}:after_dict_update", G("m", "D") + [op("EMPTY_TUPLE"), op("REDUCE"), op("MARK"), u("k"), one, op("SETITEMS")] + imp + [op("TUPLE2"), op("STOP")]))
        P.append((f"cat:{tag}:build_then_called", G("m", "C") + [op("EMPTY_TUPLE"), op("REDUCE"), op("EMPTY_DICT"), op("BUILD")] + imp + [u("x"), op("TUPLE1"), op("REDUCE"), op("TUPLE2"), op("STOP")]))
        P.append((f"cat:{tag}:computed_callee_first", G("m", "factory") + [op("EMPTY_TUPLE"), op("REDUCE"), op("EMPTY_TUPLE"), op("REDUCE")] + imp + [op("TUPLE2"), op("STOP")]))
    # a name under a standard-library package that is not itself in the standard library, next to a plain import of that package
    P.append(("stdlib_pkg_unknown_sub", G("collections.verifsub", "thing") + [op("STOP")]))
    P.append(("stdlib_pkg_then_unknown_sub", G("collections", "OrderedDict") + G("collections.verifsub", "thing") + [op("TUPLE2"), op("STOP")]))
    P.append(("stdlib_pkg_call", G("collections", "OrderedDict") + [op("EMPTY_TUPLE"), op("REDUCE"), op("STOP")]))
    P.append(("xml_unknown_sub", G("xml.dom.verifsub", "thing") + [op("STOP")]))
    P.append(("xml_call", G("xml.dom.minidom", "Document") + [op("EMPTY_TUPLE"), op("REDUCE"), op("STOP")]))
    P.append(("same_import_twice", G("os", "getcwd") + G("os", "getcwd") + [op("TUPLE2"), op("STOP")]))
    P.append(("four_equal_unused_calls", (G("time", "time") + [op("EMPTY_TUPLE"), op("REDUCE"), op("POP")]) * 4 + [op("NONE"), op("STOP")]))
    P.append(("inst", [op("MARK"), u("a"), op("INST", ("os", "system")), op("STOP")]))
    P.append(("inst_noargs", [op("MARK"), op("INST", ("os", "getcwd")), op("STOP")]))
    P.append(("inst_popped", [op("MARK"), u("a"), op("INST", ("os", "system")), op("POP"), op("NONE"), op("STOP")]))
    P.append(("binpersid", [u("pid"), op("BINPERSID"), op("STOP")]))
    P.append(("binpersid_popped", [u("pid"), op("BINPERSID"), op("POP"), op("NONE"), op("STOP")]))
    P.append(("persid", [op("PERSID", "pid"), op("STOP")]))
    P.append(("left_below", [one, op("NONE"), op("STOP")]))
    P.append(("frame", [op("PROTO", 4), op("FRAME", 3), one, op("STOP")]))
    progs = [(n, assemble(p)) for n, p in P]
    objs = [0, 1, -1, 255, 256, 65535, 65536, 2 ** 31 - 1, 2 ** 31, -2 ** 31, 2 ** 63, -2 ** 63 - 1, 10 ** 30, True, False, None, 1.5, "", "a", "é",
            "€\U0001f600", "12", b"", b"ab", b"\x00\xff", (), (1,), (1, 2), (1, 2, 3), (1, 2, 3, 4), [], [1], [1, [2, 3]], {}, {"a": 1},
            {"a": {"b": [1, 2]}}, {1, 2}, frozenset({1}), [[]] * 2, bytearray(b"x"), complex(1, 2), range(3), slice(1, 2)]
    shared = []
    d = {"k": 1}
    shared.append([d, d])
    lst = [1]
    shared.append((lst, lst, {"x": lst}))
    import collections
    objs += shared + [collections.OrderedDict(a=1), collections.Counter("ab"), collections.deque([1, 2])]
    for i, o in enumerate(objs):
        for proto in range(0, 6):
            try:
                progs.append((f"natural{i}_p{proto}", pickle.dumps(o, proto)))
            except Exception:  # noqa
                pass
    return progs
