"""The verifier: one function at a time, against its sidecar contract; callers see callee contracts only."""
import ast
import time
import z3
from .sorts import (Int, Bool, Str, Val, SeqV, V, VNONE, vint, vbool, vref, box, fresh, sort_of_type)
from .state import State, Obligation, feasible, clsid, static_ref, ALLOC0
from .eval import ExprMixin, Unsupported
from .eval2 import ExprMixin2
from .stmts import StmtMixin
from .loops import LoopMixin
from .calls import CallMixin, Contract
from .models import ModelMixin
from .comp import CompMixin
from .rules import Rules
from .source import SourceError


class FnResult:
    def __init__(self, qual):
        self.qual = qual
        self.obligations = []
        self.paths = 0
        self.normal_paths = 0
        self.raise_paths = 0
        self.body_hash = None
        self.covers = []
        self.final_states = []
        self.gen_s = 0.0
        self.effects = []


class Engine(ExprMixin, ExprMixin2, StmtMixin, LoopMixin, CallMixin, CompMixin, ModelMixin):
    def __init__(self, repo, contracts=None, fields=None, spec_funcs=None, ext_models=None, ext_methods=None):
        self.repo = repo
        self.contracts = contracts or {}
        self.fields = fields or {}
        self.spec_funcs = spec_funcs or {}
        self.ext_models = ext_models or {}
        self.ext_methods = ext_methods or {}
        self.ext_attrs = {}
        self.rules = Rules()
        from . import state as _state
        from .sorts import Val as _Val
        _state.BELOW0[0] = self.rules.forall_pred(
            "BELOW0", lambda x: z3.Implies(_Val.is_R(x), z3.And(_Val.r(x) >= 0, _Val.r(x) < ALLOC0)))
        self.spec_mode = False
        self.old_state = None
        self.cur_fn = "?"
        self.cur_mod = "fickle"
        self.cur_contract = None
        self.loop_ordinals = {}
        self.obligations = []
        self.calls_seen = []
        self.closures = {}
        self._spec_cache = {}
        self.max_paths = 4000
        self.quant_goal = False
        self.private_pred = None
        self.back_edge_hook = None
        self.class_info = None
        self.background = []
        self.iter_kinds = {}
        self.unannotated_loops = []
        self.inline_depth = 0
        self.stale_loops = []
        self.auto_fields = []
        self.inlined = []
        # repo classes that get __iter__ from collections.abc.Sequence (index 0..len-1 through __getitem__): class -> backing list field
        self.sequence_backing = {"fickle.Stack": "_stack", "fickle.StackedPickle": "pickled"}
        self._spec_mod = None
        self.enums = {}            # enum class -> member names (closed world)
        self.heap_axioms = []      # callables(engine, state) -> [z3 facts about the initial heap]
        self.auto_declare_fields()
        self.auto_globals = set()
        self._gdecl_cache = {}
        self.auto_declare_globals()
        self.ast_field_names = {f for fs in repo.live["ast_fields"].values() for f in fs} | {"lineno", "col_offset", "end_lineno", "end_col_offset", "kind", "type_comment"}

    def auto_declare_fields(self):
        """fields a class assigns as `self.X = ...` in its own methods exist on its instances: declare those the sidecar does not type
        (annotation-derived type where it is plain, else `val`), so that new fields in changed code are not mistaken for missing attributes"""
        ann_map = {"str": "str", "int": "int", "bool": "bool", "bytes": "bytes"}
        for cname, cdef in self.repo.classes_src.items():
            for fn in [n for n in cdef.body if isinstance(n, ast.FunctionDef)]:
                if not fn.args.args or fn.args.args[0].arg != "self":
                    continue
                for n in ast.walk(fn):
                    tgt, ann = None, None
                    if isinstance(n, ast.AnnAssign):
                        tgt, ann = n.target, ast.unparse(n.annotation)
                    elif isinstance(n, ast.Assign) and len(n.targets) == 1:
                        tgt = n.targets[0]
                    if isinstance(tgt, ast.Attribute) and isinstance(tgt.value, ast.Name) and tgt.value.id == "self":
                        if self.field_type(cname, tgt.attr) is not None:
                            continue
                        ty = "val"
                        if ann:
                            head = ann.split("[")[0].strip()
                            if head in ("Set", "set"):
                                ty = "set"
                            elif head in ("Dict", "dict"):
                                ty = "dict"
                            elif head in ("List", "list"):
                                ty = "list[val]"
                            elif ann in ann_map:
                                ty = ann_map[ann]
                        self.fields.setdefault(cname, {})[tgt.attr] = ty
                        self.auto_fields.append((cname, tgt.attr, ty))

    def auto_declare_globals(self):
        """a module-level name some function re-binds through a `global` statement is mutable state of the module object: declare it as a field
        (type `val` unless the sidecar types it), so that reads go to the heap (not to the literal the module assigns at import time) and writes
        are heap writes the frame check sees"""
        for q, fn in self.repo.qual.items():
            mod = q.split(".")[0]
            for n in ast.walk(fn):
                if isinstance(n, ast.Global):
                    for name in n.names:
                        fs = self.fields.setdefault("module:" + mod, {})
                        if name not in fs:
                            fs[name] = "val"
                            self.auto_globals.add(f"module:{mod}.{name}")

    def global_decls(self):
        """names the function under execution declares `global` (its own body, not nested defs)"""
        key = self.cur_fn
        if key not in self._gdecl_cache:
            fn = self.repo.qual.get(key.split("#")[0].split("@")[0])
            names = set()
            if fn is not None:
                todo = list(fn.body)
                while todo:
                    n = todo.pop()
                    if isinstance(n, ast.Global):
                        names |= set(n.names)
                    if not isinstance(n, (ast.FunctionDef, ast.AsyncFunctionDef, ast.Lambda, ast.ClassDef)):
                        todo += list(ast.iter_child_nodes(n))
            self._gdecl_cache[key] = names
        return self._gdecl_cache[key]

    # ---- verifying one function -----------------------------------------------------------------------------------------
    def resolve_fn(self, c):
        if c.fn_override is not None and c.fn_override[1] is None:
            return self.repo.function(getattr(c, "variant_of", c.qual.split("#")[0]))
        if c.fn_override is not None:
            return c.fn_override
        return self.repo.function(c.qual)

    def initial_state(self, c, mod):
        st = State()
        self.cur_mod = mod
        for ax in self.heap_axioms:
            for f in ax(self, st):
                st.assume(f)
        for name, ty, default in c.params:
            n = name.lstrip("*")
            if name.startswith("**"):
                st.env[n] = V("kwargs", xs={})
            elif name.startswith("*"):
                st.env[n] = self.fresh_of("seq" if ty in ("val", "") else ty, st, n) if ty != "empty" else V("tuple", xs=[])
            elif ty.startswith("cls:"):
                st.env[n] = V("cls", z3.IntVal(static_ref("class:" + ty[4:])), cls=ty[4:])
            elif ty.startswith("func:"):
                st.env[n] = V("param_func", xs=self.contracts[ty[5:]])
            else:
                st.env[n] = self.fresh_of(ty, st, n)
                v = st.env[n]
                if v.k == "val" and v.t is not None:
                    # a parameter that may be a reference denotes an object that existed at entry
                    st.assume(z3.Implies(Val.is_R(v.t), z3.And(Val.r(v.t) >= 0, Val.r(v.t) < ALLOC0)))
                if v.t is not None and v.k in ("ref", "val"):
                    st.old_ids.add(v.t.get_id())
                    if v.k == "ref" and z3.is_app(v.t) and v.t.num_args() == 1:
                        st.old_ids.add(v.t.arg(0).get_id())
        if c.closure_env:
            for n, v in c.closure_env(self, st).items():
                st.env.setdefault(n, v)
        return st

    def verify(self, qual, extra_post=None, contract_key=None, self_type=None):
        """generate every obligation of function `qual` against its contract -> FnResult.
        contract_key: verify the function against an inherited (base-class) contract; self_type narrows `self`"""
        c = self.contracts.get(contract_key or qual)
        if c is None:
            raise SourceError(f"no contract for {contract_key or qual}")
        t0 = time.time()
        if contract_key is not None and contract_key != qual:
            import copy
            c = copy.copy(c)
            c.qual = qual
            c.fn_override = self.repo.function(qual)
            if self_type:
                c.params = [(n, self_type if n == "self" else t, d) for n, t, d in c.params]
        mod, fn = self.resolve_fn(c)
        res = FnResult(qual)
        res.contract = c
        res.body_hash = self.repo.body_hash(fn)
        self.cur_fn, self.cur_contract = qual, c
        self.verify_contract = c
        self.loop_ordinals = {id(l): i for i, l in enumerate(self.repo.loops(fn))}
        stale = [k for k in c.loops if k >= len(self.loop_ordinals)]
        if stale:
            # the function no longer has the loop(s) the sidecar annotates: the annotations are ignored and the obligations decide
            self.stale_loops.append((qual, len(self.loop_ordinals), stale))
        self.obligations = []
        self.check_decorators(qual, fn)
        self.check_signature(c, fn)          # (may adapt c.params: parameters added with a default)
        st = self.initial_state(c, mod)
        for r in c.requires:
            st.assume(self.spec_eval(r, st))
        cover_ok = feasible(st.pc, 10000)
        res.covers.append((f"{qual}:cover:requires", cover_ok))
        entry = st.fork()
        self.cur_entry = entry
        is_gen = any(isinstance(n, (ast.Yield, ast.YieldFrom)) for n in ast.walk(fn))
        if is_gen:
            st.yielded = z3.Empty(SeqV)
        finals = self.exec_block(fn.body, [st])
        res.paths = len(finals)
        raised_conds = {k: self.spec_eval(v, entry.fork()) for k, v in c.raises.items()}
        for j, f in enumerate(finals):
            if f.status in ("run", "ret"):
                res.normal_paths += 1
                self.post_obligations(c, f, entry, j, is_gen, raised_conds, None)
                self.run_extra(extra_post, c, f, entry, j, None)
            elif f.status == "raise":
                res.raise_paths += 1
                self.raise_obligations(c, f, entry, j, raised_conds)
                self.run_extra(extra_post, c, f, entry, j, f.exc[0])
            else:
                raise Unsupported(f"{qual}: path ends with status {f.status}")
            res.effects += [e for e in f.log if e not in res.effects]
        res.obligations = self.obligations
        tagged = {id(f) for f in finals if f.ghost.get("unannotated_loop")}
        if any(f.ghost.get("unannotated_loop") for f in finals):
            for o in res.obligations:
                if "#path" in o.name:
                    try:
                        jj = int(o.name.rsplit("#path", 1)[1].split(".")[0].split("loop")[0] or -1)
                    except ValueError:
                        jj = -1
                    if 0 <= jj < len(finals) and finals[jj].ghost.get("unannotated_loop"):
                        o.meta["unannotated_loop"] = True
        res.final_states = finals
        res.gen_s = time.time() - t0
        self.obligations = []
        return res

    def run_extra(self, extra, c, f, entry, j, raised):
        """property-specific obligations read off the path's ghost log: extra(engine, contract, final state, entry state, j, raised)"""
        if extra is None:
            return
        saved = (f.env, f.status)
        f.ghost = dict(f.ghost, final_env=dict(f.env))        # the locals at the end of the path, for property-specific obligations
        f.env = {n.lstrip("*"): entry.env[n.lstrip("*")] for n, _, _ in c.params}
        f.status = "run"
        try:
            extra(self, c, f, entry, j, raised)
        finally:
            f.env, f.status = saved

    TRANSPARENT_DECORATORS = ("property", "staticmethod", "classmethod", "abstractmethod", "abc.abstractmethod", "overload", "typing.overload")

    def check_decorators(self, qual, fn):
        """a decorator other than the binding ones (property / setter, staticmethod, classmethod, abstractmethod, overload) replaces the function
        by whatever the decorator returns (a memoising wrapper, a context-manager factory, ...): the body is then not the code that runs at
        a call, and neither a contract on it nor executing it in place says what a call does"""
        for d in getattr(fn, "decorator_list", []):
            t = ast.unparse(d)
            if t in self.TRANSPARENT_DECORATORS or t.endswith(".setter") or t.endswith(".getter"):
                continue
            raise Unsupported(f"{qual} is wrapped by the decorator @{t}: what a call does is the wrapper's behaviour, which is outside the verified subset")

    def check_signature(self, c, fn):
        if getattr(c, "_sig_checked", None) is fn:
            return
        self._check_signature(c, fn)
        c._sig_checked = fn

    def _check_signature(self, c, fn):
        names = [a.arg for a in fn.args.posonlyargs + fn.args.args]
        if fn.args.vararg:
            names.append("*" + fn.args.vararg.arg)
        names += [a.arg for a in fn.args.kwonlyargs]
        if fn.args.kwarg:
            names.append("**" + fn.args.kwarg.arg)
        declared = [p[0] for p in c.params if p[0] != "__closure__"]
        decos = [ast.unparse(d) for d in getattr(fn, "decorator_list", [])]
        if declared != names and names and names[0] == "cls" and "classmethod" in decos and declared == names[1:]:
            # a static method turned into a class method: the class is passed first (callers reach it the same way)
            owner = ".".join(c.qual.split("#")[0].split("@")[0].split(".")[:-1])
            closure = [p for p in c.params if p[0] == "__closure__"]
            c.params = closure + [("cls", "cls:" + owner, None)] + [p for p in c.params if p[0] != "__closure__"]
            return
        if declared != names:
            # parameters *added with a default* since the sidecar was written: the contract is kept (its clauses do not mention them)
            # and they are bound to their defaults / to what callers pass; anything else (renamed, removed, reordered) is stale
            defaults = {}
            pos = fn.args.posonlyargs + fn.args.args
            for a, d in zip(pos[len(pos) - len(fn.args.defaults):], fn.args.defaults):
                defaults[a.arg] = d
            for a, d in zip(fn.args.kwonlyargs, fn.args.kw_defaults):
                if d is not None:
                    defaults[a.arg] = d
            extra = [n for n in names if n not in declared]
            it = iter(names)
            subseq = all(any(n == d_ for n in it) for d_ in declared)
            if subseq and extra and all(n in defaults and isinstance(defaults[n], ast.Constant) for n in extra):
                by_name = {p[0]: p for p in c.params}
                closure = [p for p in c.params if p[0] == "__closure__"]
                c.params = closure + [by_name[n] if n in by_name else (n, "val", ast.unparse(defaults[n])) for n in names]
                self.adapted_signatures = getattr(self, "adapted_signatures", []) + [(c.qual, extra)]
                return
            raise Unsupported(f"stale contract: {c.qual} parameters are {names} in the source but {declared} in the sidecar")

    def post_obligations(self, c, f, entry, j, is_gen, raised_conds, extra_post):
        ret = f.ret if f.status == "ret" and f.ret is not None else VNONE
        if is_gen:
            ret = V("gen", f.yielded if f.yielded is not None else z3.Empty(SeqV), elem=c.yields)
        elif c.returns and ret.k in ("ref", "val"):
            ret = self.coerce(ret, c.returns, f)
        env = {"result": ret}
        f.status = "run"
        for name, ty, _ in c.params:
            n = name.lstrip("*")
            env[n] = entry.env[n]          # contracts speak about the values the parameters had on entry
        saved = f.env
        f.env = dict(env)
        for g in f.ghost.get("ghost_names", ()):       # loop ghosts stay visible to (internal) postconditions
            if g in saved and g not in f.env:
                f.env[g] = saved[g]
        try:
            for i, cl in enumerate(list(c.ensures) + list(c.internal)):
                goal = self.spec_eval(cl, f, None, old=entry, goal=True)
                self.obligations.append(Obligation(f"{c.qual}:post:{i}#path{j}", "post", f.hyps(), goal, where=c.qual,
                                                   meta={"clause": cl, "trail": f.trail}))
            for i, (exc, cond) in enumerate(raised_conds.items()):
                # a normal exit is only allowed when no `raises` condition held on entry
                self.obligations.append(Obligation(f"{c.qual}:exc:no-normal-exit-when-{exc}#path{j}", "exc", f.hyps(), z3.Not(cond),
                                                   where=c.qual, meta={"clause": c.raises[exc], "trail": f.trail}))
            if extra_post:
                extra_post(self, c, f, entry, j, ret)
            self.frame_obligations(c, f, entry, j)
        finally:
            f.env = saved

    def raise_obligations(self, c, f, entry, j, raised_conds):
        exc = f.exc[0]
        allowed = None
        for k in list(c.raises) + list(c.may_raise):
            if self.is_subclass_static(exc, k):
                allowed = k
                break
        if allowed is None:
            self.obligations.append(Obligation(f"{c.qual}:exc:unexpected-{exc}#path{j}", "exc", f.hyps(), z3.BoolVal(False), where=c.qual,
                                               meta={"clause": f"raises only {sorted(set(c.raises) | set(c.may_raise))}", "trail": f.trail}))
            return
        if allowed in c.may_raise and c.may_raise_if:
            cond = self.spec_eval(c.may_raise_if, entry.fork())
            self.obligations.append(Obligation(f"{c.qual}:exc:{exc}-only-if#path{j}", "exc", f.hyps(), cond, where=c.qual,
                                               meta={"clause": f"raises only if {c.may_raise_if}", "trail": f.trail}))
        if allowed in c.raises and c.exact_raises:
            self.obligations.append(Obligation(f"{c.qual}:exc:{exc}-only-when#path{j}", "exc", f.hyps(), raised_conds[allowed], where=c.qual,
                                               meta={"clause": c.raises[allowed], "trail": f.trail}))
        env = {}
        for name, ty, _ in c.params:
            env[name.lstrip("*")] = entry.env[name.lstrip("*")]
        if f.exc[1] is not None:
            env["exc"] = f.exc[1]
        saved, f.env, f.status = f.env, env, "run"
        try:
            for i, cl in enumerate(list(c.ensures_raise.get(allowed, [])) + list(c.ensures_raise.get("*", []))):
                goal = self.spec_eval(cl, f, None, old=entry, goal=True)
                self.obligations.append(Obligation(f"{c.qual}:exc-post:{allowed}:{i}#path{j}", "exc", f.hyps(), goal, where=c.qual,
                                                   meta={"clause": cl, "trail": f.trail}))
            if c.ensures_raise.get("*frame*", True) is not False and "frame-on-raise" in c.props:
                self.frame_obligations(c, f, entry, j)
        finally:
            f.env, f.status = saved, "raise"

    def frame_obligations(self, c, f, entry, j):
        """every heap write of this path hits a location named in `modifies` or an object allocated by this call"""
        if c is None or "no-frame" in c.props:
            return
        allowed = []      # (component, ref term or None, condition callable or None)
        for m in c.modifies:
            allowed += self.footprint(m, f, entry)
        seen = set()
        own_final = f.comp("list.nodeowned")
        for comp, ref, _origin, wcond in f.writes[len(entry.writes):]:
            if comp in ("cls",):
                continue
            key = (comp, ref.get_id() if ref is not None else None, id(wcond))
            if key in seen:
                continue
            seen.add(key)
            if any(a[0] == comp and a[1] is None and a[2] is None for a in allowed):
                continue
            if comp == "list.nodeowned":
                # ghost flag: monotone; only objects this call allocated, or already node-owned ones, may be (re)flagged
                # the flag is only ever set, never cleared (what may be flagged is constrained by the `private(...)` postconditions)
                if ref is None:
                    goal = z3.BoolVal(False)
                else:
                    goal = z3.Or(ref >= entry.alloc_ptr(), z3.Implies(z3.Select(entry.comp("list.nodeowned"), ref), z3.Select(own_final, ref)))
            elif ref is None and getattr(wcond, "fresh_only", False):
                continue        # a havoc that keeps every object existing at entry touches only this call's own allocations
            elif ref is None:
                # a wholesale havoc "except cond" (from a callee's frame): allowed when our own frame has the same exception
                goal = z3.BoolVal(any(a[0] == comp and a[1] is None and a[2] is not None for a in allowed) and wcond is not None)
            else:
                opts = [ref == a[1] for a in allowed if a[0] == comp and a[1] is not None]
                opts += [z3.Not(a[2](ref)) for a in allowed if a[0] == comp and a[1] is None and a[2] is not None]
                goal = z3.Or(opts + [ref >= entry.alloc_ptr()])
            meta = {"clause": f"modifies {c.modifies}", "component": comp, "trail": f.trail}
            if comp in self.auto_globals:
                # module state the sidecar does not know (introduced by the code under verification): whether writing it matters is decided
                # by the property's replay, not by the frame alone
                meta["weak"] = True
            self.obligations.append(Obligation(f"{c.qual}:frame:{comp}#path{j}", "frame", f.hyps(), goal, where=c.qual, meta=meta))

    def footprint(self, text, f, entry):
        text = text.strip()
        if text.startswith("@") and ":" in text:
            comp, _, flag = text[1:].partition(":")
            if flag == "fresh":
                lo = getattr(entry, "fresh_base", None)
                lo = entry.alloc_ptr() if lo is None else lo           # (a loop's own frame: "fresh" still means allocated since the *function* was entered)
                return [(comp, None, lambda r, lo=lo: r < lo)]      # kept at every object that existed at entry
            own = f.comp("list.nodeowned")
            return [(comp, None, lambda r, own=own: z3.Not(z3.Select(own, r)))]     # kept where not node-owned (final flags: monotone)
        if text.startswith("@"):
            return [(text[1:], None, None)]
        saved_H = f.H
        f.H = dict(entry.H)      # footprints are evaluated in the pre-state
        try:
            if text.endswith("[]"):
                v = self.spec_value(text[:-2], f)
                r = self.as_ref(v, f)
                comps = {"list": ["list.items"], "tuple": ["list.items"], None: ["list.items"], "dict": ["dict.keys", "dict.map", "dict.has"],
                         "set": ["set.has", "set.card"], "bytearray": ["bytearray.data"]}.get(v.cls, [])
                return [(cname, r, None) for cname in comps]
            node = self.parse_spec(text)
            o = self.spec_value(ast.unparse(node.value), f)
            if o.k == "module":
                return [(f"module:{o.cls}.{node.attr}", o.t, None)]
            ft = self.field_type(o.cls, node.attr) if o.cls else self.unique_field(node.attr)
            if ft is None and node.attr in self.ast_field_names:
                ft = ("ast", "val")
            return [(f"{ft[0]}.{node.attr}", self.as_ref(o, f), None)]
        finally:
            for k, t in f.H.items():
                saved_H.setdefault(k, t)
            f.H = saved_H
