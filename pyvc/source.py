"""Read the functions under contract from the working tree (never a copy) and pair them with the live class tables."""
import ast
import hashlib
import json
import os
import subprocess

HERE = os.path.dirname(os.path.abspath(__file__))
VENV_PY = os.environ.get("VERIF_REPO_PYTHON", "/venv/bin/python")


class SourceError(Exception):
    """checker error (exit 3): the source cannot be read the way the contracts need"""


class Repo:
    def __init__(self, root="/repo", modules=None, with_torch=False):
        self.root = os.environ.get("VERIF_REPO", root)
        self.modnames = modules or ["fickle", "analysis", "loader", "hook", "context", "exception", "tracing", "ml", "cli"]
        if with_torch:
            self.modnames += [m for m in ("polyglot", "pytorch") if m not in self.modnames]
        self.trees, self.src, self.sha = {}, {}, {}
        self.by_line = {}        # (module, lineno) -> FunctionDef
        self.parents = {}        # id(FunctionDef) -> qualified name
        self.qual = {}           # qualified name 'fickle.Stack.pop' -> FunctionDef
        self.classes_src = {}    # 'fickle.Stack' -> ClassDef
        self.imports = {}        # module -> {local name: dotted target}
        self.globals_src = {}    # module -> {name: ast value node} (module level simple assignments)
        for m in self.modnames:
            p = os.path.join(self.root, "fickling", m + ".py")
            s = open(p).read()
            self.src[m] = s
            self.sha[m] = hashlib.sha256(s.encode()).hexdigest()
            try:
                t = ast.parse(s)
            except SyntaxError as e:
                raise SourceError(f"{p}: {e}")
            self.trees[m] = t
            self._index(m, t)
        self.live = self._live()

    # -- indexing -------------------------------------------------------------------------------------------------
    def _index(self, m, tree):
        imps, globs = {}, {}

        def walk(node, prefix):
            for n in ast.iter_child_nodes(node):
                if isinstance(n, (ast.FunctionDef, ast.AsyncFunctionDef)):
                    q = f"{prefix}.{n.name}"
                    self.by_line[(m, n.lineno)] = n
                    for d in n.decorator_list:   # co_firstlineno is the first decorator's line
                        self.by_line[(m, d.lineno)] = n
                    decos = [ast.unparse(d) for d in n.decorator_list]
                    if any(d.endswith(".setter") for d in decos):
                        q = f"{q}.setter"
                    elif "overload" in decos or "typing.overload" in decos:
                        q = f"{q}@overload{n.lineno}"        # typing stubs are not the function that runs
                    self.qual[q] = n                         # a later plain def replaces an earlier one, as in Python
                    self.parents[id(n)] = q
                    walk(n, q + ".<locals>")
                elif isinstance(n, ast.ClassDef):
                    q = f"{prefix}.{n.name}"
                    self.classes_src[q] = n
                    walk(n, q)
                elif isinstance(n, ast.If) and "version_info" in ast.unparse(n.test):
                    arm = ast.Module(body=self._version_arm(n), type_ignores=[])      # only the arm the baseline interpreter takes
                    walk(arm, prefix)
                elif isinstance(n, (ast.If, ast.Try, ast.With, ast.For, ast.While)):
                    walk(n, prefix)
        walk(tree, m)
        for n in tree.body:
            self._collect_top(n, imps, globs)
        self.imports[m], self.globals_src[m] = imps, globs

    def _collect_top(self, n, imps, globs):
        if isinstance(n, ast.Import):
            for a in n.names:
                imps[a.asname or a.name.split(".")[0]] = a.name if a.asname else a.name.split(".")[0]
        elif isinstance(n, ast.ImportFrom):
            base = n.module or ""
            if n.level:
                base = "fickling" + ("." + base if base else "")
            for a in n.names:
                imps[a.asname or a.name] = f"{base}.{a.name}"
        elif isinstance(n, ast.Assign) and len(n.targets) == 1 and isinstance(n.targets[0], ast.Name):
            globs[n.targets[0].id] = n.value
        elif isinstance(n, ast.AnnAssign) and isinstance(n.target, ast.Name) and n.value is not None:
            globs[n.target.id] = n.value
        elif isinstance(n, ast.If):
            # sys.version_info arms: the arm the baseline interpreter (3.12) takes
            arm = self._version_arm(n)
            for k in arm:
                self._collect_top(k, imps, globs)
        elif isinstance(n, ast.Try):
            for k in n.body:
                self._collect_top(k, imps, globs)

    @staticmethod
    def _version_arm(n):
        """evaluate `sys.version_info <op> (a, b)` / `version_info ...` for 3.12; other tests: take the body"""
        t = n.test
        try:
            src = ast.unparse(t)
            if "version_info" in src:
                val = eval(src.replace("sys.version_info", "VI").replace("version_info", "VI"), {"VI": (3, 12)})
                return n.body if val else n.orelse
        except Exception:  # noqa
            pass
        return n.body

    def _live(self):
        env = dict(os.environ, PYTHONPATH=self.root, PYTHONDONTWRITEBYTECODE="1")
        cmd = [VENV_PY, os.path.join(HERE, "livetables.py"), self.root] + self.modnames
        r = subprocess.run(cmd, capture_output=True, text=True, env=env, cwd="/")
        if r.returncode != 0:
            raise SourceError("live import of the working tree failed:\n" + r.stderr[-2000:])
        d = json.loads(r.stdout)
        for m, info in d["modules"].items():
            if "error" in info:
                raise SourceError(f"live import of fickling.{m} failed: {info['error']}")
        return d

    def add_virtual_module(self, name, source):
        """a lemma program: python source executed by the verifier over the contracts of the functions it calls (never run)"""
        t = ast.parse(source)
        self.trees[name] = t
        self.src[name] = source
        self.sha[name] = hashlib.sha256(source.encode()).hexdigest()
        self.virtual = getattr(self, "virtual", set()) | {name}
        self._index(name, t)

    # -- lookups --------------------------------------------------------------------------------------------------
    def mod_of_file(self, f):
        b = os.path.basename(f)
        return b[:-3] if b.endswith(".py") else b

    def fn_from_info(self, info):
        m = self.mod_of_file(info["file"])
        fn = self.by_line.get((m, info["line"]))
        if fn is None:
            raise SourceError(f"no function at {info['file']}:{info['line']} ({info.get('qualname')})")
        return m, fn

    def cls(self, name):
        c = self.live["classes"].get(name)
        if c is None:
            raise SourceError(f"class {name} not in the live tables")
        return c

    def has_class(self, name):
        return name in self.live["classes"]

    def attr(self, clsname, attr):
        """resolve `attr` on class through the live MRO -> (info, module, FunctionDef) or None"""
        c = self.cls(clsname)
        info = c["attrs"].get(attr)
        if info is None:
            return None
        m, fn = self.fn_from_info(info)
        return info, m, fn

    def const(self, clsname, attr, default=KeyError):
        c = self.cls(clsname)["consts"]
        if attr in c:
            return unjson(c[attr])
        if default is KeyError:
            raise SourceError(f"{clsname}.{attr}: no such class constant in the live tables")
        return default

    def subclasses(self, clsname, strict=False):
        out = [k for k, c in self.live["classes"].items() if clsname in c["mro"]]
        if strict:
            out = [k for k in out if k != clsname]
        return sorted(out)

    def function(self, qual):
        """'loader.load' or 'fickle.Stack.pop' -> (module, FunctionDef) from source by qualified name"""
        fn = self.qual.get(qual)
        if fn is None:
            raise SourceError(f"stale contract key: no function {qual} in the working tree")
        return qual.split(".")[0], fn

    def body_hash(self, fn):
        return hashlib.sha256(ast.dump(fn).encode()).hexdigest()[:16]

    def loops(self, fn):
        """loops of a function in source order, not descending into nested defs"""
        out = []

        def walk(n):
            for k in ast.iter_child_nodes(n):
                if isinstance(k, (ast.FunctionDef, ast.AsyncFunctionDef, ast.Lambda, ast.ClassDef)):
                    continue
                if isinstance(k, (ast.For, ast.While)):
                    out.append(k)
                walk(k)
        walk(fn)
        return out


def unjson(x):
    if isinstance(x, dict):
        if "__tuple__" in x:
            return tuple(unjson(i) for i in x["__tuple__"])
        if "__bytes__" in x:
            return bytes(x["__bytes__"])
        if "__dict__" in x:
            keys = [unjson(k) for k in x["__keys__"]]
            return {k: unjson(x["__dict__"][str(k)]) for k in keys}
        if "__enum__" in x:
            return EnumConst(x["__enum__"], x["name"], unjson(x["value"]))
    if isinstance(x, list):
        return [unjson(i) for i in x]
    return x


class EnumConst:
    def __init__(self, cls, name, value):
        self.cls, self.name, self.value = cls, name, value

    def __repr__(self):
        return f"{self.cls}.{self.name}"
