"""Uninterpreted sequence functions and their ground rule instances (DESIGN 2.2a).

z3/cvc5 do not decide quantified facts over Seq, so pointwise notions are uninterpreted symbols and the verifier
adds *ground instances* of a fixed library of valid rules on the sequence terms that occur in each VC.  The rule
library is stated (and proved) in /verif/lemmas/SeqRules.lean.
"""
import z3
from .sorts import Int, Bool, Str, Val, SeqV


class Rules:
    def __init__(self):
        self.REV = z3.Function("REV", SeqV, SeqV)
        self.EVENS = z3.Function("EVENS", SeqV, SeqV)
        self.ODDS = z3.Function("ODDS", SeqV, SeqV)
        self.apreds = {}
        self.generators = []   # sidecar-supplied ground-instance generators: f(rules, exprs) -> [z3 Bool]
        self.preds = {}     # name -> (Function SeqV->Bool, elem predicate python callable(Val term)->Bool) : "all elements satisfy"

    def INT2STR(self, t):
        return z3.If(t >= 0, z3.IntToStr(t), z3.Concat(z3.StringVal("-"), z3.IntToStr(-t)))

    def forall_pred_array(self, name, elem_pred, sort):
        """'every entry of the map satisfies elem_pred' for arrays Val -> Val (dict.map): Store / Select / const-array rules"""
        if name not in self.apreds:
            self.apreds[name] = (z3.Function(name, sort, Bool), elem_pred)
        return self.apreds[name][0]

    def array_instances(self, exprs):
        out = []
        if not self.apreds:
            return out
        for t in self.subterms(exprs):
            if not z3.is_app(t):
                continue
            k = t.decl().kind()
            for name, (f, ep) in self.apreds.items():
                dom = f.domain(0)
                if k == z3.Z3_OP_STORE and t.sort() == dom:
                    out.append(z3.Implies(z3.And(f(t.arg(0)), ep(t.arg(2))), f(t)))
                elif k == z3.Z3_OP_SELECT and t.arg(0).sort() == dom:
                    out.append(z3.Implies(f(t.arg(0)), ep(t)))
                elif k == z3.Z3_OP_CONST_ARRAY and t.sort() == dom:
                    out.append(f(t) == ep(t.arg(0)))
        return out

    def forall_pred(self, name, elem_pred):
        if name not in self.preds:
            self.preds[name] = (z3.Function(name, SeqV, Bool), elem_pred)
        return self.preds[name][0]

    # ---- ground instantiation ---------------------------------------------------------------------------------------
    @staticmethod
    def subterms(exprs):
        seen, out, todo = set(), [], list(exprs)
        while todo:
            t = todo.pop()
            if t.get_id() in seen:
                continue
            seen.add(t.get_id())
            out.append(t)
            if z3.is_app(t):
                todo += t.children()
            elif z3.is_quantifier(t):
                todo.append(t.body())
        return out

    def instances(self, exprs, rounds=2):
        """ground instances of the rule library over the SeqV terms occurring in exprs"""
        out = []
        emitted = set()
        cur = list(exprs)
        out += self.nth_of_concat(exprs)
        out += self.array_instances(exprs)
        out += self.prefix_extension(exprs)
        for g in self.generators:
            out += g(self, exprs)
        # every predicate is unfolded on every structured sequence term of the VC (congruence then carries it across equalities)
        seeds = []
        for t in self.subterms(exprs):
            if z3.is_app(t) and t.sort() == SeqV and t.decl().kind() in (z3.Z3_OP_SEQ_CONCAT, z3.Z3_OP_SEQ_UNIT, z3.Z3_OP_SEQ_EMPTY,
                                                                          z3.Z3_OP_SEQ_EXTRACT):
                for pname, (f, ep) in self.preds.items():
                    seeds.append(f(t))
            elif z3.is_app(t) and t.sort() == SeqV and t.decl().name() in ("REV", "EVENS", "ODDS"):
                for pname, (f, ep) in self.preds.items():
                    seeds.append(f(t))
        cur = cur + seeds
        for _ in range(rounds):
            new = []
            for t in self.subterms(cur):
                if not z3.is_app(t) or (t.sort() != SeqV and t.sort() != Bool and t.sort() != Val):
                    continue
                for r in self._for_term(t):
                    if r.get_id() not in emitted:
                        emitted.add(r.get_id())
                        new.append(r)
            if not new:
                break
            out += new
            cur = new
        return out

    def nth_of_concat(self, exprs):
        """ground instances of  (a ++ b)[t] = a[t] if t < |a| else b[t - |a|]  for the concatenations and index terms of the VC"""
        idx, cats, seen_i = [], [], set()
        for t in self.subterms(exprs):
            if not z3.is_app(t):
                continue
            k = t.decl().kind()
            if (k == z3.Z3_OP_SEQ_NTH or t.decl().name() in ("seq.nth", "seq.nth_i", "seq.nth_u")) and t.arg(0).sort() == SeqV:
                if t.arg(1).get_id() not in seen_i:
                    seen_i.add(t.arg(1).get_id())
                    idx.append(t.arg(1))
            elif k == z3.Z3_OP_SEQ_CONCAT and t.sort() == SeqV:
                cats.append(t)
        out = []
        for c in cats[:12]:
            ch = c.children()
            a = ch[0]
            b = ch[1] if len(ch) == 2 else z3.Concat(*ch[1:])
            la = z3.Length(a)
            for t in idx[:16]:
                out.append(z3.Implies(z3.And(t >= 0, t < z3.Length(c)), c[t] == z3.If(t < la, a[t], b[t - la])))
        return out

    def prefix_extension(self, exprs):
        """ground instances of  s[:b+1] = s[:b] ++ [s[b]]  for the prefixes of the same sequence that occur in the VC"""
        by_seq = {}
        for t in self.subterms(exprs):
            if z3.is_app(t) and t.decl().kind() == z3.Z3_OP_SEQ_EXTRACT and t.sort() == SeqV:
                off = z3.simplify(t.arg(1))
                if z3.is_int_value(off) and off.as_long() == 0:
                    by_seq.setdefault(t.arg(0).get_id(), []).append(t)
        out = []
        for ts in by_seq.values():
            for a in ts[:6]:
                for b in ts[:6]:
                    if a.get_id() == b.get_id():
                        continue
                    s_, la, lb = a.arg(0), a.arg(2), b.arg(2)
                    out.append(z3.Implies(z3.And(la == lb + 1, lb >= 0, lb < z3.Length(s_)), a == z3.Concat(b, z3.Unit(s_[lb]))))
        return out

    def _for_term(self, t):
        d = t.decl()
        name = d.name()
        rules = []
        if name in ("REV", "EVENS", "ODDS"):
            f = {"REV": self.REV, "EVENS": self.EVENS, "ODDS": self.ODDS}[name]
            a = t.arg(0)
            n = z3.Length(a)
            if name == "REV":
                rules.append(z3.Length(t) == n)
            elif name == "EVENS":
                rules.append(z3.Length(t) == (n + 1) / 2)
            else:
                rules.append(z3.Length(t) == n / 2)
            k = a.decl().kind()
            if k == z3.Z3_OP_SEQ_EMPTY:
                rules.append(t == z3.Empty(SeqV))
            elif k == z3.Z3_OP_SEQ_UNIT:
                rules.append(t == (a if name != "ODDS" else z3.Empty(SeqV)))
            elif k == z3.Z3_OP_SEQ_CONCAT:
                ch = a.children()
                if name == "REV":
                    rules.append(t == z3.Concat(*[f(c) for c in reversed(ch)]))
                else:
                    # EVENS(x ++ y) = EVENS(x) ++ (EVENS(y) if |x| even else ODDS(y)), symmetrical for ODDS
                    x, y = ch[0], (ch[1] if len(ch) == 2 else z3.Concat(*ch[1:]))
                    ev_even = z3.Length(x) % 2 == 0
                    if name == "EVENS":
                        rules.append(t == z3.Concat(self.EVENS(x), z3.If(ev_even, self.EVENS(y), self.ODDS(y))))
                    else:
                        rules.append(t == z3.Concat(self.ODDS(x), z3.If(ev_even, self.ODDS(y), self.EVENS(y))))
            if name == "REV" and a.decl().name() == "REV":
                rules.append(t == a.arg(0))
        elif name in self.preds and t.sort() == Bool:
            f, ep = self.preds[name]
            a = t.arg(0)
            k = a.decl().kind()
            if k == z3.Z3_OP_SEQ_EMPTY:
                rules.append(t)
            elif k == z3.Z3_OP_SEQ_UNIT:
                rules.append(t == ep(a.arg(0)))
            elif k == z3.Z3_OP_SEQ_CONCAT:
                rules.append(t == z3.And([f(c) for c in a.children()]))
            elif a.decl().name() == "REV":
                rules.append(t == f(a.arg(0)))
            elif a.decl().name() in ("EVENS", "ODDS"):
                rules.append(z3.Implies(f(a.arg(0)), t))
            elif k == z3.Z3_OP_SEQ_EXTRACT:
                rules.append(z3.Implies(f(a.arg(0)), t))
        elif d.kind() == z3.Z3_OP_SEQ_NTH or name in ("seq.nth", "seq.nth_i", "seq.nth_u"):
            s_, j = t.arg(0), t.arg(1)
            if s_.sort() == SeqV:
                for pname, (f, ep) in self.preds.items():
                    rules.append(z3.Implies(z3.And(f(s_), j >= 0, j < z3.Length(s_)), ep(t)))
        return rules

    def last_split_unique(self, pname, a, m1, b, c, m2, d):
        """ground instance of last-separator uniqueness:
             a ++ [m1] ++ b = c ++ [m2] ++ d,  P(b), P(d), not elemP(m1), not elemP(m2)   =>   a = c, m1 = m2, b = d
        (P = 'no element is a separator'); proved as `last_mark_unique` in lemmas/SeqRules.lean"""
        f, ep = self.preds[pname]
        return z3.Implies(z3.And(z3.Concat(a, z3.Unit(m1), b) == z3.Concat(c, z3.Unit(m2), d), f(b), f(d), z3.Not(ep(m1)), z3.Not(ep(m2))),
                          z3.And(a == c, b == d, m1 == m2))
