"""Models (assumed contracts) of Python builtins and of the external library functions fickling calls.

Every entry here is part of the trusted base: it states what the verifier assumes about code outside /repo.
Each model also declares its effect row (DESIGN S9), recorded in the state log.
"""
import ast
import z3
from .sorts import (Int, Bool, Str, Bytes, Val, SeqV, V, VNONE, vint, vbool, vstr, vbytes, vref, box, fresh, split_type)
from .state import feasible, clsid, static_ref
from .eval import Unsupported, PY_EXC

# effect rows of externals (name -> tuple of effects); "pure" = no effect beyond allocation
EFFECTS = {
    "len": (), "isinstance": (), "issubclass": (), "list": (), "tuple": (), "reversed": (), "range": (), "enumerate": (),
    "zip": (), "hasattr": (), "getattr": ("resolve-attr",), "setattr": ("setattr",), "print": ("stdout",), "str": (), "int": (), "bool": (),
    "max": (), "min": (), "any": (), "all": (), "sorted": (), "iter": (), "next": (), "dict": (), "set": (), "repr": (), "chr": (),
    "ord": (), "bytes": (), "bytearray": (), "type": (), "map": (), "frozenset": (), "id": ("address",), "hash": ("hash",),
    "open": ("fs-open",), "eval": ("exec",), "exec": ("exec",), "compile": ("compile",), "__import__": ("import",),
    "ast.unparse": (), "ast.walk": (), "ast.dump": (), "ast.literal_eval": (),
    "sys.stderr.write": ("stderr",), "sys.stdout.write": ("stdout",),
    "json.dump": ("fs-write(file-arg)",), "pickle.loads": ("unpickle",), "pickle.load": ("unpickle",),
    "stdlib_list.in_stdlib": ("fs-read(package-data)",), "struct.pack": (), "marshal.dumps": (), "re.match": (),
    "pickletools.genops": ("read(arg)", "seek(arg)"), "io.BytesIO": (),
    "importlib.import_module": ("import",), "super": (), "noop": (), "sorted": (), "os.system": ("spawn",), "subprocess.run": ("spawn",), "subprocess.Popen": ("spawn",),
}


class ModelMixin:
    def effect(self, st, name, node):
        for e in EFFECTS.get(name, ("unknown-external",)):
            st.log.append(("effect", e, name, getattr(node, "lineno", 0)))

    def call_builtin(self, name, args, kwargs, st, node):
        if name.startswith("spec:"):
            return [(st, self.spec_funcs[name[5:]](self, st, *args, **{k: v for k, v in kwargs.items() if k not in ("*", "**")}))]
        ext = self.ext_models.get(name)
        if ext is not None:
            return ext(self, st, args, kwargs, node)
        m = getattr(self, "bi_" + name.replace(".", "_").replace(":", "_"), None)
        if m is None:
            raise Unsupported(f"{self.where(node)}: call of external {name} has no model")
        self.effect(st, name, node)
        return m(args, kwargs, st, node)

    # ---- builtins -------------------------------------------------------------------------------------------------------
    def bi_super(self, args, kw, st, node):
        parts = self.cur_fn.split(".")
        cls = ".".join(parts[:2])
        return [(st, V("super", xs=(st.env.get("self") or st.env.get("cls"), cls)))]

    def super_attr(self, v, name, st, node):
        recv, cls = v.xs
        dyn = recv.cls if recv is not None and recv.cls and self.repo.has_class(recv.cls) else cls
        mro = self.repo.cls(cls)["mro"]
        for k in mro[mro.index(cls) + 1:] if cls in mro else mro[1:]:
            if self.repo.has_class(k):
                a = self.repo.cls(k)["attrs"].get(name)
                if a is not None and a.get("owner") == k:
                    key = f"{k}.{name}"
                    return V("superbound", xs=(recv, key))
            else:
                base = k.split(".", 1)[1] if k.startswith("builtins.") else k
                if base == "object" and name in ("__init__", "__init_subclass__"):
                    return V("builtin", cls="noop")
                if base in PY_EXC and name == "__init__":
                    return V("builtin", cls="noop")
                ext = f"super:{k}.{name}"
                if ext in self.ext_models:
                    return V("superext", xs=(recv, ext))
        raise Unsupported(f"{self.where(node)}: super().{name} not resolved from {cls}")

    def bi_noop(self, args, kw, st, node):
        return [(st, VNONE)]

    def bi_len(self, args, kw, st, node):
        v = args[0]
        if v.k in ("str", "bytes", "seq", "gen"):
            return [(st, vint(z3.Length(v.t)))]
        if v.k == "tuple":
            return [(st, vint(len(v.xs)))]
        if v.k == "const":
            return [(st, vint(len(v.xs)))]
        if v.k in ("ref", "val") and v.cls and self.repo.has_class(v.cls):
            recv = v if v.k == "ref" else self.unbox(v.t, v.cls, st)
            return self.call_method(recv, "__len__", [], {}, st, node)
        if v.k in ("ref", "val") and v.cls == "dict":
            return [(st, vint(z3.Length(st.read("dict.keys", self.as_ref(v, st)))))]
        if v.k in ("ref", "val") and v.cls == "set":
            return [(st, vint(st.read("set.card", self.as_ref(v, st))))]
        if v.k in ("ref", "val") and v.cls == "bytearray":
            return [(st, vint(z3.Length(st.read("bytearray.data", self.as_ref(v, st)))))]
        if v.k == "kwargs":
            return [(st, vint(len(v.xs)))]
        if v.k == "snap" and v.cls == "dict":
            return [(st, vint(z3.Length(v.xs["dict.keys"])))]
        if v.k == "val" and v.cls is None:
            t = v.t
            return [(st, vint(z3.If(Val.is_Y(t), z3.Length(Val.y(t)), z3.If(Val.is_S(t), z3.Length(Val.s(t)), z3.Length(st.items(Val.r(t)))))))]
        return [(st, vint(z3.Length(self.as_seq(v, st))))]

    def class_names(self, v):
        if v.k == "cls":
            return [v.cls]
        if v.k == "builtin":
            return [v.cls]
        if v.k == "tuple":
            return [n for x in v.xs for n in self.class_names(x)]
        raise Unsupported(f"class expression {v!r}")

    def isinstance_cond(self, v, cname, st):
        prim = {"int": ("int", "bool"), "bool": ("bool",), "str": ("str",), "bytes": ("bytes",), "float": ("float",)}
        recog = {"int": lambda t: z3.Or(Val.is_I(t), Val.is_B(t)), "bool": Val.is_B, "str": Val.is_S, "bytes": Val.is_Y, "float": Val.is_F}
        if cname in prim:
            if v.k == "val":
                return recog[cname](v.t)
            return z3.BoolVal(v.k in prim[cname])
        if cname in ("bytearray", "typing.ByteString", "ByteString", "collections.abc.ByteString"):
            if v.k == "bytes":
                return z3.BoolVal(True)
            if v.k in ("ref",):
                return st.cls_of(v.t) == clsid("bytearray")
            if v.k == "val":
                return z3.Or(Val.is_Y(v.t), z3.And(Val.is_R(v.t), st.cls_of(Val.r(v.t)) == clsid("bytearray")))
            return z3.BoolVal(False)
        if cname in ("list", "tuple", "dict", "set", "type"):
            if v.k == "tuple":
                return z3.BoolVal(cname == "tuple")
            if v.k == "seq":
                return z3.BoolVal(cname == "list")
            if v.k == "const":
                return z3.BoolVal(type(v.xs).__name__ == cname)
            if v.k == "cls":
                return z3.BoolVal(cname == "type")
            if v.k == "ref":
                if v.cls in ("list", "tuple", "dict", "set"):
                    return z3.BoolVal(v.cls == cname)
                return st.cls_of(v.t) == clsid(cname)
            if v.k == "val":
                return z3.And(Val.is_R(v.t), st.cls_of(Val.r(v.t)) == clsid(cname))
            return z3.BoolVal(False)
        # class instances
        if v.k == "ref":
            sub = self.is_subclass_static(v.cls, cname)
            if sub:
                return z3.BoolVal(True)
            return self.tag_in(st, v.t, cname)
        if v.k == "val":
            return z3.And(Val.is_R(v.t), self.tag_in(st, Val.r(v.t), cname))
        if v.k == "exc":
            return z3.BoolVal(bool(self.is_subclass_static(v.xs[0], cname)))
        return z3.BoolVal(False)

    def bi_isinstance(self, args, kw, st, node):
        v, c = args
        conds = [self.isinstance_cond(v, n, st) for n in self.class_names(c)]
        return [(st, vbool(z3.simplify(z3.Or(conds))))]

    def bi_issubclass(self, args, kw, st, node):
        a, b = args
        if a.k == "cls" and b.k == "cls":
            return [(st, vbool(bool(self.is_subclass_static(a.cls, b.cls))))]
        raise Unsupported(f"{self.where(node)}: issubclass on {a!r}")

    def bi_list(self, args, kw, st, node):
        if not args:
            return [(st, vref(st.new_list(), cls="list"))]
        v = args[0]
        if v.k == "gen":
            return [(st, vref(st.new_list(v.t), cls="list", elem=v.elem))]
        src = self.iter_source(v, st, node)
        if src[0] == "static":
            items = [box(self.materialize(x, st)) for x in src[1]]
            seq = z3.Concat(*[z3.Unit(i) for i in items]) if len(items) > 1 else (z3.Unit(items[0]) if items else z3.Empty(SeqV))
            r = vref(st.new_list(seq), cls="list")
            r.note = ("static_items", list(src[1]), seq)
            return [(st, r)]
        if src[0] == "seq":
            return [(st, vref(st.new_list(src[1]), cls="list", elem=src[2]))]
        raise Unsupported(f"{self.where(node)}: list() of {v!r}")

    def bi_tuple(self, args, kw, st, node):
        if not args:
            return [(st, V("tuple", xs=[]))]
        v = args[0]
        if v.k == "tuple":
            return [(st, v)]
        src = self.iter_source(v, st, node)
        if src[0] == "static":
            return [(st, V("tuple", xs=list(src[1])))]
        if src[0] == "seq":
            return [(st, vref(st.new_list(src[1], cls="tuple"), cls="tuple", elem=src[2]))]
        raise Unsupported(f"{self.where(node)}: tuple() of {v!r}")

    def bi_reversed(self, args, kw, st, node):
        return [(st, V("iter", xs=("reversed", args[0]), cls="reversed"))]

    def bi_iter(self, args, kw, st, node):
        v = args[0]
        if v.k in ("ref", "val") and v.cls and self.repo.has_class(v.cls) and self.repo.attr(v.cls, "__iter__"):
            recv = v if v.k == "ref" else self.unbox(v.t, v.cls, st)
            return self.call_method(recv, "__iter__", [], {}, st, node)
        if v.k == "tuple" and not v.xs:
            return [(st, V("iter", xs=("static", []), cls="iterator"))]
        return [(st, V("iter", xs=("iter", v), cls="iterator"))]

    def bi_enumerate(self, args, kw, st, node):
        return [(st, V("iter", xs=("enumerate", args[0]), cls="enumerate"))]

    def bi_zip(self, args, kw, st, node):
        return [(st, V("iter", xs=("zip", list(args)), cls="zip"))]

    def bi_map(self, args, kw, st, node):
        return [(st, V("iter", xs=("map", args[0], args[1]), cls="map"))]

    def bi_range(self, args, kw, st, node):
        if len(args) == 1:
            lo, hi = z3.IntVal(0), self.as_int(args[0])
        else:
            lo, hi = self.as_int(args[0]), self.as_int(args[1])
        return [(st, V("iter", xs=("range", lo, hi), cls="range"))]

    def bi_hasattr(self, args, kw, st, node):
        o, n = args
        name = z3.simplify(n.t)
        if not z3.is_string_value(name):
            raise Unsupported(f"{self.where(node)}: hasattr with a computed name")
        name = name.as_string()
        if o.k == "module" or o.k == "builtin":
            self.effect(st, "getattr", node)
            return [(st, vbool(fresh("hasattr", Bool)))]
        if o.k in ("ref", "val") and o.cls and (self.field_type(o.cls, name) or (self.repo.has_class(o.cls) and self.repo.attr(o.cls, name))
                                                or (o.cls, name) in self.ext_methods or (o.cls, name) in self.ext_attrs):
            return [(st, vbool(True))]
        if o.k in ("ref", "val"):
            # whether an object has an attribute is a function of the object (class tags and instance dict keys of AST nodes do not change)
            f = z3.Function("HASATTR_" + name, Val, Bool)
            return [(st, vbool(f(box(o))))]
        return [(st, vbool(fresh("hasattr." + name, Bool)))]

    def bi_setattr(self, args, kw, st, node):
        o, n, v = args
        name = z3.simplify(n.t)
        if not z3.is_string_value(name):
            raise Unsupported(f"{self.where(node)}: setattr with a computed name")
        return [(s, VNONE) for s in self.setattr(o, name.as_string(), v, st, node)]

    def bi_print(self, args, kw, st, node):
        return [(st, VNONE)]

    def bi_str(self, args, kw, st, node):
        if not args:
            return [(st, vstr(""))]
        v = args[0]
        if v.k in ("ref", "val") and v.cls and self.repo.has_class(v.cls) and self.repo.attr(v.cls, "__str__"):
            recv = v if v.k == "ref" else self.unbox(v.t, v.cls, st)
            return self.call_method(recv, "__str__", [], {}, st, node)
        return [(st, V("str", self.to_str(v, st)))]

    def bi_repr(self, args, kw, st, node):
        if not hasattr(self, "_REPR"):
            self._REPR = z3.Function("REPR", Val, Str)
        v = args[0]
        if v.k in ("str", "bytes", "int", "bool", "float", "none") or (v.k == "val" and v.cls is None):
            return [(st, V("str", self._REPR(box(v))))]       # repr of immutable data is a function of the value
        return [(st, V("str", fresh("repr", Str)))]

    def bi_bool(self, args, kw, st, node):
        if not args:
            return [(st, vbool(False))]
        return [(s, None if b is None else vbool(b)) for s, b in self.truth_branch(args[0], st, "bool()")]

    def bi_type(self, args, kw, st, node):
        v = args[0]
        if v.k in ("ref",):
            return [(st, V("clsof", t=v.t, cls=v.cls))]
        return [(st, V("opaque", note="type"))]

    def bi_id(self, args, kw, st, node):
        return [(st, vint(fresh("id")))]

    def bi_chr(self, args, kw, st, node):
        i = self.as_int(args[0])
        return [(st, V("str", z3.StrFromCode(i)))]

    def bi_ord(self, args, kw, st, node):
        v = args[0]
        if v.k == "str":
            return [(st, vint(z3.StrToCode(v.t)))]
        raise Unsupported(f"{self.where(node)}: ord of {v!r}")

    def bi_dict(self, args, kw, st, node):
        if not args:
            return [(st, self.new_dict(st))]
        v = args[0]
        if v.k in ("ref", "val") and v.cls == "dict":
            # shallow copy: new outer object, same values
            r0 = self.as_ref(v, st)
            r = st.alloc("dict")
            for c in ("dict.keys", "dict.map", "dict.has"):
                st.H[c] = z3.Store(st.comp(c), r, st.read(c, r0))
            return [(st, vref(r, cls="dict", elem=v.elem))]
        if v.k == "const" and isinstance(v.xs, dict):
            return [(st, self.const_to_heap(v.xs, st))]
        if v.k == "ref" and v.cls == "defaultdict":
            d = self.new_dict(st)
            for c in ("dict.keys", "dict.map", "dict.has"):
                st.H[c] = z3.Store(st.comp(c), d.t, fresh("ddcopy", st.comp(c).sort().range()))
            return [(st, d)]
        raise Unsupported(f"{self.where(node)}: dict() of {v!r}")

    def bi_set(self, args, kw, st, node):
        if not args:
            return [(st, self.new_set(st))]
        raise Unsupported(f"{self.where(node)}: set() of an iterable")

    def bi_bytearray(self, args, kw, st, node):
        r = st.alloc("bytearray")
        data = z3.Empty(Bytes) if not args else args[0].t
        st.H["bytearray.data"] = z3.Store(st.comp("bytearray.data"), r, data)
        return [(st, vref(r, cls="bytearray"))]

    def bi_bytes(self, args, kw, st, node):
        if not args:
            return [(st, vbytes(b""))]
        v = args[0]
        if v.k == "bytes":
            return [(st, v)]
        if v.k in ("ref", "val") and v.cls == "bytearray":
            return [(st, V("bytes", st.read("bytearray.data", self.as_ref(v, st))))]
        if v.k == "ref" and v.cls == "list" and v.note and v.note[0] == "static_items" and st.items(v.t).eq(v.note[2]):
            bs = [z3.Unit(z3.Int2BV(self.as_int(x), 8)) for x in v.note[1]]
            # bytes([x]) raises ValueError outside range(256)
            out = []
            rng = z3.And([z3.And(self.as_int(x) >= 0, self.as_int(x) < 256) for x in v.note[1]] or [z3.BoolVal(True)])
            for s, ok in self.branch(st, rng, "bytes() range"):
                if ok:
                    out.append((s, V("bytes", z3.Concat(*bs) if len(bs) > 1 else (bs[0] if bs else z3.Empty(Bytes)))))
                else:
                    out.append((self.raise_exc(s, "ValueError"), None))
            return out
        raise Unsupported(f"{self.where(node)}: bytes() of {v!r}")

    def int_of_val(self, t):
        """int(x) for a boxed value when it succeeds: identity on ints, 0/1 on bools, an uninterpreted parse otherwise"""
        if not hasattr(self, "_PARSEV"):
            self._PARSEV = z3.Function("PARSE_INT", Val, Int)
        return z3.If(Val.is_I(t), Val.i(t), z3.If(Val.is_B(t), z3.If(Val.b(t), 1, 0), self._PARSEV(t)))

    def int_parses(self, t):
        """does int(x) succeed for a str / bytes / float value: a *function* of the value (two calls on the same text agree)"""
        if not hasattr(self, "_PARSES"):
            self._PARSES = z3.Function("INT_PARSES", Val, Bool)
        return self._PARSES(t)

    def float_is_inf(self, t):
        if not hasattr(self, "_ISINF"):
            self._ISINF = z3.Function("FLOAT_IS_INF", Val, Bool)
        return self._ISINF(t)

    def bi_int(self, args, kw, st, node):
        v = args[0]
        if v.k in ("int", "bool"):
            return [(st, vint(self.as_int(v)))]
        if v.k in ("str", "bytes"):
            # decimal parse or ValueError; the parse function is uninterpreted except on canonical non-negative numerals
            ok = self.int_parses(box(v))
            out = []
            for s, b in self.branch(st, ok, "int() parses"):
                if b:
                    r = self.int_of_val(box(v))
                    if v.k == "str":
                        s.assume(z3.Implies(z3.StrToInt(v.t) >= 0, r == z3.StrToInt(v.t)))
                    out.append((s, vint(r)))
                else:
                    out.append((self.raise_exc(s, "ValueError"), None))
            return out
        if v.k == "float":
            return self.bi_int([V("val", box(v))], kw, st, node)
        if v.k == "none":
            return [(self.raise_exc(st, "TypeError"), None)]
        if v.k == "val":
            out = []
            t = v.t
            for s, b in self.branch(st, z3.Or(Val.is_I(t), Val.is_B(t)), "int() of int"):
                if b:
                    out.append((s, vint(self.as_int(v))))
                else:
                    for s2, b2 in self.branch(s, z3.Or(Val.is_N(t), Val.is_R(t)), "int() of None/object"):
                        if b2:
                            out.append((self.raise_exc(s2, "TypeError"), None))
                        else:
                            # str / bytes: decimal parse; float: truncation (inf -> OverflowError, nan -> ValueError)
                            for s4, inf in self.branch(s2, z3.And(Val.is_F(t), self.float_is_inf(t)), "int() of an infinite float"):
                                if inf:
                                    out.append((self.raise_exc(s4, "OverflowError"), None))
                                    continue
                                for s3, b3 in self.branch(s4, self.int_parses(t), "int() parses"):
                                    if b3:
                                        out.append((s3, vint(self.int_of_val(t))))
                                    else:
                                        out.append((self.raise_exc(s3, "ValueError"), None))
            return out
        raise Unsupported(f"{self.where(node)}: int() of {v!r}")

    def bi_any(self, args, kw, st, node):
        v = args[0]
        if v.k == "comp":
            items = self.comp_static(v, st, node)
            if items is None:
                raise Unsupported(f"{self.where(node)}: any() over a symbolic comprehension")
            return self._fold_bool(items, st, any_mode=True)
        src = self.iter_source(v, st, node)
        if src[0] == "static":
            return self._fold_bool(src[1], st, any_mode=True)
        raise Unsupported(f"{self.where(node)}: any() over a symbolic iterable")

    def bi_all(self, args, kw, st, node):
        if args[0].k == "comp":
            items = self.comp_static(args[0], st, node)
            if items is None:
                raise Unsupported(f"{self.where(node)}: all() over a symbolic comprehension")
            return self._fold_bool(items, st, any_mode=False)
        src = self.iter_source(args[0], st, node)
        if src[0] == "static":
            return self._fold_bool(src[1], st, any_mode=False)
        raise Unsupported(f"{self.where(node)}: all() over a symbolic iterable")

    def _fold_bool(self, items, st, any_mode):
        ts = []
        for x in items:
            t = self.truth(x, st)
            if t is None:
                raise Unsupported("any/all over objects with __bool__")
            ts.append(t)
        return [(st, vbool(z3.simplify(z3.Or(ts) if any_mode else z3.And(ts)) if ts else z3.BoolVal(not any_mode)))]

    def bi_sorted(self, args, kw, st, node):
        v = args[0]
        if v.k == "iter" and v.xs[0] == "static" and v.note == "presorted":
            return [(st, V("iter", xs=("static", list(v.xs[1])), cls="list"))]
        raise Unsupported(f"{self.where(node)}: sorted() of {v!r}")

    def m_str_upper(self, recv, args, kw, st, node):
        s_ = z3.simplify(recv.t)
        if z3.is_string_value(s_):
            return [(st, vstr(s_.as_string().upper()))]
        return [(st, V("str", fresh("upper", Str)))]

    def bi_next(self, args, kw, st, node):
        v = args[0]
        if v.k == "comp":
            # next(<generator expression>[, default]): the first element passing the filter — here: *some* element passing it (witness),
            # or the default / StopIteration when none does (lazy universal)
            items = self.comp_static(v, st, node)
            if items is not None:
                if items:
                    return [(st, items[0])]
                return [(st, args[1])] if len(args) > 1 else [(self.raise_exc(st, "StopIteration"), None)]
            src = self.comp_source(v, st)
            n = z3.Length(src[1]) if src[0] == "seq" else src[1]
            out = []
            found = st.fork()
            k = fresh("first")
            found.idx.append(k)
            _, cond, x = self.comp_elem_at(v, found, k)
            found.assume(z3.And(k >= 0, k < n, cond))
            if feasible(found.pc):
                out.append((found, x))
            none = st
            snap = none.fork()

            def inst(t, snap=snap):
                tmp = snap.fork()
                _, c2, _x = self.comp_elem_at(v, tmp, t)
                facts = tmp.pc[len(snap.pc):]
                for kk, vv in tmp.H.items():
                    snap.H.setdefault(kk, vv)
                return z3.Implies(z3.And(t >= 0, t < n), z3.And(facts + [z3.Not(c2)]))
            none.univ.append(inst)
            if len(args) > 1:
                out.append((none, args[1]))
            else:
                out.append((self.raise_exc(none, "StopIteration"), None))
            return out
        if v.k in ("ref", "val") and (v.cls == "iterator" or v.k == "val"):
            r = self.as_ref(v, st)
            lst = st.read("iterator.seq", r, Int)
            pos = st.read("iterator.pos", r, Int)
            seq = st.items(lst)
            out = []
            for s, b in self.branch(st, z3.And(pos >= 0, pos < z3.Length(seq)), "iterator has next"):
                if b:
                    s.write("iterator.pos", r, pos + 1, Int)
                    out.append((s, self.unbox(seq[pos], v.elem, s)))
                elif len(args) > 1:
                    out.append((s, args[1]))
                else:
                    out.append((self.raise_exc(s, "StopIteration"), None))
            return out
        if v.k == "iter" and v.xs[0] == "iter":
            seq = self.as_seq(v.xs[1], st)
            out = []
            for s, b in self.branch(st, z3.Length(seq) > 0, "next() has an item"):
                if b:
                    out.append((s, self.unbox(seq[0], self.elem_type(v.xs[1]), s)))
                elif len(args) > 1:
                    out.append((s, args[1]))
                else:
                    out.append((self.raise_exc(s, "StopIteration"), None))
            return out
        if v.k == "gen":
            out = []
            for s, b in self.branch(st, z3.Length(v.t) > 0, "next() has an item"):
                if b:
                    out.append((s, self.unbox(v.t[0], v.elem, s)))
                elif len(args) > 1:
                    out.append((s, args[1]))
                else:
                    out.append((self.raise_exc(s, "StopIteration"), None))
            return out
        raise Unsupported(f"{self.where(node)}: next() of {v!r}")

    # ---- methods of builtin types ---------------------------------------------------------------------------------------
    def call_builtin_method(self, recv, name, args, kwargs, st, node):
        k = recv.k
        cls = recv.cls if k in ("ref", "val") else k
        m = getattr(self, f"m_{cls}_{name}", None) if cls and "." not in str(cls) else None
        if m is None:
            ext = self.ext_methods.get((cls, name))
            if ext is not None:
                return ext(self, st, recv, args, kwargs, node)
            raise Unsupported(f"{self.where(node)}: method {cls}.{name} has no model")
        return m(recv, args, kwargs, st, node)

    def m_list_append(self, recv, args, kw, st, node):
        self.on_list_extend(st, recv, V("tuple", xs=[args[0]]), node)
        st.set_items(recv.t, z3.Concat(st.items(recv.t), z3.Unit(box(self.materialize(args[0], st)))))
        return [(st, VNONE)]

    def m_list_extend(self, recv, args, kw, st, node):
        v = args[0]
        self.on_list_extend(st, recv, v, node)
        src = self.iter_source(v, st, node)
        if src[0] == "static":
            seq = self.as_seq(V("tuple", xs=list(src[1])), st)
        elif src[0] == "seq":
            seq = src[1]
        else:
            raise Unsupported(f"{self.where(node)}: extend with {v!r}")
        st.set_items(recv.t, z3.Concat(st.items(recv.t), seq))
        return [(st, VNONE)]

    def m_list_pop(self, recv, args, kw, st, node):
        seq = st.items(recv.t)
        n = z3.Length(seq)
        if not args:
            out = []
            for s, ok in self.branch(st, n > 0, "pop from non-empty"):
                if ok:
                    x = self.unbox(seq[n - 1], recv.elem, s)
                    s.set_items(recv.t, z3.SubSeq(seq, 0, n - 1))
                    out.append((s, x))
                else:
                    out.append((self.raise_exc(s, "IndexError"), None))
            return out
        ii = self.as_int(args[0])
        out = []
        for s, ok in self.branch(st, z3.And(ii >= -n, ii < n), "pop index in range"):
            if ok:
                j = z3.If(ii < 0, ii + n, ii)
                x = self.unbox(seq[j], recv.elem, s)
                s.set_items(recv.t, z3.Concat(z3.SubSeq(seq, 0, j), z3.SubSeq(seq, j + 1, n - j - 1)))
                out.append((s, x))
            else:
                out.append((self.raise_exc(s, "IndexError"), None))
        return out

    def m_list_insert(self, recv, args, kw, st, node):
        seq = st.items(recv.t)
        n = z3.Length(seq)
        ii = self.as_int(args[0])
        j = z3.If(ii < 0, z3.If(ii + n < 0, 0, ii + n), z3.If(ii > n, n, ii))     # list.insert clamps
        st.set_items(recv.t, z3.Concat(z3.SubSeq(seq, 0, j), z3.Unit(box(self.materialize(args[1], st))), z3.SubSeq(seq, j, n - j)))
        return [(st, VNONE)]

    def m_list_reverse(self, recv, args, kw, st, node):
        st.set_items(recv.t, self.rules.REV(st.items(recv.t)))
        return [(st, VNONE)]

    def m_list_clear(self, recv, args, kw, st, node):
        st.set_items(recv.t, z3.Empty(SeqV))
        return [(st, VNONE)]

    def m_list_sort(self, recv, args, kw, st, node):
        st.havoc_at("list.items", recv.t)
        return [(st, VNONE)]

    def m_dict_items(self, recv, args, kw, st, node):
        return [(st, V("iter", xs=("items", recv), cls="dict_items"))]

    def m_dict_keys(self, recv, args, kw, st, node):
        return [(st, V("seq", st.read("dict.keys", self.as_ref(recv, st))))]

    def m_dict_get(self, recv, args, kw, st, node):
        r = self.as_ref(recv, st)
        kb = box(self.materialize(args[0], st))
        d = box(self.materialize(args[1], st)) if len(args) > 1 else Val.N
        return [(st, V("val", z3.If(z3.Select(st.read("dict.has", r), kb), z3.Select(st.read("dict.map", r), kb), d)))]

    def m_dict_setdefault(self, recv, args, kw, st, node):
        """d.setdefault(k, default): the value under k when present; otherwise default is stored under k and returned"""
        r = self.as_ref(recv, st)
        kb = box(self.materialize(args[0], st))
        dv = args[1] if len(args) > 1 else VNONE
        out = []
        for s2, present in self.branch(st, z3.Select(st.read("dict.has", r), kb), "dict.setdefault: key present"):
            if present:
                v = z3.Select(s2.read("dict.map", r), kb)
                vt = self.dict_types(recv.elem)[1] if recv.elem else None
                out.append((s2, self.unbox(v, vt, s2) if vt else V("val", v)))
            else:
                self.dict_store(s2, r, args[0], dv)
                out.append((s2, dv))
        return out

    def m_const_get(self, recv, args, kw, st, node):
        x = recv.xs
        d = args[1] if len(args) > 1 else VNONE
        out = []
        rest = []
        for key, item in x.items():
            c = self.py_eq(args[0], self.lit(key), st)
            rest.append(z3.Not(c))
            if feasible(st.pc + [c]):
                s = st.fork()
                s.pc.append(c)
                out.append((s, self.lit(item)))
        if feasible(st.pc + rest):
            s = st.fork()
            s.pc += rest
            out.append((s, d))
        return out

    def m_const_items(self, recv, args, kw, st, node):
        return [(st, V("iter", xs=("static", [V("tuple", xs=[self.lit(k), self.lit(v)]) for k, v in recv.xs.items()]), cls="dict_items"))]

    def m_set_add(self, recv, args, kw, st, node):
        r = self.as_ref(recv, st)
        kb = box(self.materialize(args[0], st))
        had = z3.Select(st.read("set.has", r), kb)
        st.write("set.card", r, st.read("set.card", r) + z3.If(had, 0, 1))
        st.write("set.has", r, z3.Store(st.read("set.has", r), kb, z3.BoolVal(True)))
        return [(st, VNONE)]

    def m_bytearray_extend(self, recv, args, kw, st, node):
        r = self.as_ref(recv, st)
        v = args[0]
        if v.k != "bytes":
            raise Unsupported(f"{self.where(node)}: bytearray.extend with {v!r}")
        st.write("bytearray.data", r, z3.Concat(st.read("bytearray.data", r), v.t))
        return [(st, VNONE)]

    # str / bytes methods
    def _affix(self, fn, recv, args, st, node):
        """str.startswith / endswith with one affix or a tuple of affixes (any of them)"""
        a = args[0]
        if a.k == "str":
            return [(st, vbool(fn(a.t, recv.t)))]
        items = None
        if a.k == "tuple":
            items = a.xs
        elif a.k == "const" and isinstance(a.xs, (tuple, list)):
            items = [self.lit(x) for x in a.xs]
        if items is None or not all(x.k == "str" for x in items):
            raise Unsupported(f"{self.where(node)}: startswith / endswith of {a!r}")
        return [(st, vbool(z3.Or([fn(x.t, recv.t) for x in items] or [z3.BoolVal(False)])))]

    def m_str_startswith(self, recv, args, kw, st, node):
        return self._affix(z3.PrefixOf, recv, args, st, node)

    def m_str_endswith(self, recv, args, kw, st, node):
        return self._affix(z3.SuffixOf, recv, args, st, node)

    def m_str_find(self, recv, args, kw, st, node):
        return [(st, vint(z3.IndexOf(recv.t, args[0].t, 0)))]

    def m_str_partition(self, recv, args, kw, st, node, last=False):
        """s.partition(sep) -> (head, sep, tail) at the first occurrence, (s, '', '') when there is none (rpartition: last occurrence,
        ('', '', s)); an empty separator raises ValueError"""
        if len(args) != 1 or args[0].k != "str" or recv.k != "str":
            raise Unsupported(f"{self.where(node)}: str.partition on {recv!r} with {args!r}")
        s_, sep = recv.t, args[0].t
        out = []
        bad = st.fork()
        bad.pc.append(z3.Length(sep) == 0)
        if feasible(bad.pc):
            out.append((self.raise_exc(bad, "ValueError"), None))
        st.assume(z3.Length(sep) > 0)
        idx = z3.LastIndexOf(s_, sep) if last else z3.IndexOf(s_, sep, 0)
        found = idx >= 0
        head = z3.SubString(s_, 0, idx)
        tail = z3.SubString(s_, idx + z3.Length(sep), z3.Length(s_) - idx - z3.Length(sep))
        e = z3.StringVal("")
        if last:
            parts = [z3.If(found, head, e), z3.If(found, sep, e), z3.If(found, tail, s_)]
        else:
            parts = [z3.If(found, head, s_), z3.If(found, sep, e), z3.If(found, tail, e)]
        out.append((st, V("tuple", xs=[V("str", t) for t in parts])))
        return out

    def m_str_rpartition(self, recv, args, kw, st, node):
        return self.m_str_partition(recv, args, kw, st, node, last=True)

    def m_str_strip(self, recv, args, kw, st, node):
        return [(st, V("str", self.rules_strip(recv.t)))]

    def rules_strip(self, t):
        if not hasattr(self, "_STRIP"):
            self._STRIP = z3.Function("STRIP", Str, Str)
        s = z3.simplify(t)
        if z3.is_string_value(s):
            return z3.StringVal(s.as_string().strip())
        return self._STRIP(t)

    # ---- text codecs: uninterpreted functions per codec; the laws assumed of them are ground rule instances (contracts/encoders.py) ----
    CODECS = {"utf-8": "UTF8", "utf8": "UTF8", "latin-1": "LATIN1", "latin1": "LATIN1", "ascii": "ASCII", "raw-unicode-escape": "RUE",
              "raw_unicode_escape": "RUE"}

    def codec_name(self, args, kw, node):
        a = args[0] if args else kw.get("encoding")
        if a is None:
            return "UTF8"
        t = z3.simplify(a.t) if a.k == "str" else None
        if t is None or not z3.is_string_value(t) or t.as_string().lower() not in self.CODECS:
            raise Unsupported(f"{self.where(node)}: codec {a!r} has no model")
        return self.CODECS[t.as_string().lower()]

    def codec_fn(self, name, direction):
        key = f"_{name}_{direction}"
        if not hasattr(self, key):
            if direction == "enc":
                f = z3.Function(name, Str, Bytes)
            elif direction == "dec":
                f = z3.Function(name + "_DECODE", Bytes, Str)
            elif direction == "encodable":
                f = z3.Function(name + "_ENCODABLE", Str, Bool)
            else:
                f = z3.Function(name + "_VALID", Bytes, Bool)
            setattr(self, key, f)
        return getattr(self, key)

    def m_str_encode(self, recv, args, kw, st, node):
        name = self.codec_name(args, kw, node)
        s_ = z3.simplify(recv.t)
        if z3.is_string_value(s_):
            try:
                from .sorts import bytes_lit
                py = {"UTF8": "utf-8", "LATIN1": "latin-1", "ASCII": "ascii", "RUE": "raw-unicode-escape"}[name]
                return [(st, V("bytes", bytes_lit(s_.as_string().encode(py))))]
            except UnicodeError:
                return [(self.raise_exc(st, "UnicodeEncodeError"), None)]
            except Exception:  # noqa
                pass
        if name == "RUE":        # raw-unicode-escape encodes every str
            return [(st, V("bytes", self.codec_fn(name, "enc")(recv.t)))]
        out = []
        for s, ok in self.branch(st, self.codec_fn(name, "encodable")(recv.t), f"str.encode({name}) succeeds"):
            if ok:
                out.append((s, V("bytes", self.codec_fn(name, "enc")(recv.t))))
            else:
                out.append((self.raise_exc(s, "UnicodeEncodeError"), None))
        return out

    def m_bytes_decode(self, recv, args, kw, st, node):
        name = self.codec_name(args, kw, node)
        out = []
        for s, ok in self.branch(st, self.codec_fn(name, "valid")(recv.t), f"bytes.decode({name}) succeeds"):
            if ok:
                out.append((s, V("str", self.codec_fn(name, "dec")(recv.t))))
            else:
                out.append((self.raise_exc(s, "UnicodeDecodeError"), None))
        return out

    def utf8(self, t):
        s = z3.simplify(t)
        if z3.is_string_value(s):
            try:
                from .sorts import bytes_lit
                return bytes_lit(s.as_string().encode("utf-8"))
            except Exception:  # noqa
                pass
        return self.codec_fn("UTF8", "enc")(t)

    def m_str_lower(self, recv, args, kw, st, node):
        s_ = z3.simplify(recv.t)
        if z3.is_string_value(s_):
            return [(st, vstr(s_.as_string().lower()))]
        if not hasattr(self, "_LOWER"):
            self._LOWER = z3.Function("STR_LOWER", Str, Str)
        return [(st, V("str", self._LOWER(recv.t)))]

    def m_str_replace(self, recv, args, kw, st, node):
        """str.replace(old, new) replaces every occurrence: an uninterpreted function of the three texts (folded on literals)"""
        if len(args) != 2:
            raise Unsupported(f"{self.where(node)}: str.replace with a count")
        ts = [z3.simplify(x) for x in (recv.t, args[0].t, args[1].t)]
        if all(z3.is_string_value(x) for x in ts):
            return [(st, V("str", z3.StringVal(ts[0].as_string().replace(ts[1].as_string(), ts[2].as_string()))))]
        if not hasattr(self, "_REPLACE_ALL"):
            self._REPLACE_ALL = z3.Function("REPLACE_ALL", Str, Str, Str, Str)
        return [(st, V("str", self._REPLACE_ALL(recv.t, args[0].t, args[1].t)))]

    def m_str_join(self, recv, args, kw, st, node):
        return [(st, V("str", fresh("joined", Str)))]

    def split_fn(self, which="SPLIT"):
        if not hasattr(self, "_" + which):
            setattr(self, "_" + which, z3.Function(which, Str, Str, Int, SeqV))
        return getattr(self, "_" + which)

    def m_str_split(self, recv, args, kw, st, node, which="SPLIT"):
        sep = args[0].t if args else z3.StringVal(" ")
        mx = self.as_int(args[1]) if len(args) > 1 else z3.IntVal(-1)
        r = self.split_fn(which)(recv.t, sep, mx)
        st.assume(z3.Length(r) >= 1)
        if len(args) > 1:
            st.assume(z3.Implies(mx >= 0, z3.Length(r) <= mx + 1))
        return [(st, V("seq", r, elem="str"))]

    def m_str_rsplit(self, recv, args, kw, st, node):
        return self.m_str_split(recv, args, kw, st, node, which="RSPLIT")

    def m_str_count(self, recv, args, kw, st, node):
        if len(args) != 1 or args[0].k != "str":
            c = fresh("count", Int)
            st.assume(c >= 0)
            return [(st, vint(c))]
        if not hasattr(self, "_COUNT"):
            self._COUNT = z3.Function("STR_COUNT", Str, Str, Int)
        c = self._COUNT(recv.t, args[0].t)
        st.assume(c >= 0)
        return [(st, vint(c))]

    def m_exc___str__(self, recv, args, kw, st, node):
        return [(st, V("str", fresh("excstr", Str)))]
