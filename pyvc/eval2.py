"""Expression evaluation, part 2: attributes, subscripts, operators, literals, f-strings."""
import ast
import z3
from .sorts import (Int, Bool, Str, Bytes, Val, SeqV, V, VNONE, vint, vbool, vstr, vbytes, vref, box, fresh,
                    sort_of_type, split_type)
from .state import clsid, static_ref, feasible
from .eval import Unsupported, PY_EXC


def norm_index(i, n):
    """python index normalisation: negative indices count from the end"""
    return z3.If(i < 0, i + n, i)


def clamp(x, lo, hi):
    return z3.If(x < lo, lo, z3.If(x > hi, hi, x))


class ExprMixin2:
    # ---- attributes -----------------------------------------------------------------------------------------------------
    def ev_Attribute(self, e, st):
        out = []
        for s, v in self.ev(e.value, st):
            if s.status != "run":
                out.append((s, None))
                continue
            out += self.getattr(v, e.attr, s, e)
        return out

    def getattr(self, v, name, st, node=None):
        k = v.k
        if k == "module":
            return [(st, self.module_attr(v.cls, name, st, node))]
        if k == "modglobal":
            raise Unsupported(f"{self.where(node)}: attribute of imported global")
        if k == "cls":
            return [(st, self.class_attr(v.cls, name, st, node))]
        if k in ("ref", "val"):
            cls = v.cls
            if cls and (self.repo.has_class(cls)):
                a = self.repo.attr(cls, name)
                if a is not None:
                    info = a[0]
                    recv = v if k == "ref" else self.unbox(v.t, cls, st)
                    if info["kind"] == "property":
                        return self.call_method(recv, name, [], {}, st, node)
                    return [(st, V("bound", xs=(recv, name)))]
                consts = self.repo.cls(cls)["consts"]
                if name in consts and self.field_type(cls, name) is None:
                    return [(st, self.lit(self.repo.const(cls, name)))]
            if name == "__class__":
                return [(st, V("clsof", t=self.as_ref(v, st), cls=cls))]
            if cls and name in ("value", "name") and self.repo.has_class(cls) and self.field_type(cls, name) is None:
                # a member of an Enum defined in the repository: its value / name come from the live import of the class
                from .source import EnumConst
                members = {}
                for m in self.repo.cls(cls)["consts"]:
                    c_ = self.repo.const(cls, m)
                    if isinstance(c_, EnumConst) and c_.name == m:
                        members[m] = c_
                if members:
                    r = self.as_ref(v, st)
                    lits = [(static_ref(f"enum:{cls}.{m}"), self.lit(c_.value if name == "value" else m)) for m, c_ in sorted(members.items())]
                    kinds = {l.k for _, l in lits}
                    if len(kinds) == 1 and kinds <= {"str", "int"}:
                        st.assume(z3.Or([r == ref for ref, _ in lits]))
                        t = lits[-1][1].t
                        for ref, l in lits[:-1]:
                            t = z3.If(r == ref, l.t, t)
                        return [(st, V(kinds.pop(), z3.simplify(t)))]
            if (cls, name) in self.ext_attrs:
                return [(st, self.ext_attrs[(cls, name)](self, st, v))]
            ft = self.field_type(cls, name) if cls else self.unique_field(name)
            if ft is None and cls and self.repo.has_class(cls) and self.external_base_method(cls, name) is not None:
                return [(st, V("bound", xs=(v if k == "ref" else self.unbox(v.t, cls, st), name)))]
            if ft is None and cls and not cls.startswith("ast."):
                if cls in ("list", "dict", "set", "tuple", "bytearray", "str", "bytes") or not self.repo.has_class(cls):
                    return [(st, V("bound", xs=(v, name)))]
                # neither a method / property / class constant in the live tables nor a field the sidecar declares: Python raises
                st.log.append(("attribute-error", cls, name, getattr(node, "lineno", 0)))
                return [(self.raise_exc(st, "AttributeError"), None)]
            if ft is None:
                ft = ("ast", "val") if name in self.ast_field_names else None
            if ft is None and k == "val" and cls is None and name in ("read", "readline", "seek", "tell", "seekable", "close", "write") \
                    and ("stream", name) in self.ext_methods:
                # a file method on a value of unknown class: a stream object has it, plain data (bytes, str, numbers, None) does not
                out = []
                r = Val.r(v.t)
                for s1, is_stream in self.branch(st, z3.And(Val.is_R(v.t), st.cls_of(r) == clsid("stream")), f".{name} on a stream"):
                    if is_stream:
                        out.append((s1, V("bound", xs=(vref(r, cls="stream"), name))))
                        continue
                    for s2, is_obj in self.branch(s1, Val.is_R(v.t), f".{name} on another object"):
                        if is_obj:
                            raise Unsupported(f"{self.where(node)}: method .{name} on an object of unknown class")
                        out.append((self.raise_exc(s2, "AttributeError"), None))
                return out
            if ft is None and k == "val" and cls is None and name in ("replace", "encode", "decode", "upper"):
                # a str / bytes method on a value of unknown kind: decided per kind of the value; anything else has no such attribute
                out = []
                for s1, is_s in self.branch(st, Val.is_S(v.t), f".{name} on a str"):
                    if is_s:
                        if getattr(self, f"m_str_{name}", None) is None:
                            out.append((self.raise_exc(s1, "AttributeError"), None))
                        else:
                            out.append((s1, V("bound", xs=(V("str", Val.s(v.t)), name))))
                        continue
                    for s2, is_y in self.branch(s1, Val.is_Y(v.t), f".{name} on bytes"):
                        if is_y:
                            if getattr(self, f"m_bytes_{name}", None) is None:
                                out.append((self.raise_exc(s2, "AttributeError"), None))
                            else:
                                out.append((s2, V("bound", xs=(V("bytes", Val.y(v.t)), name))))
                            continue
                        for s3, is_r in self.branch(s2, Val.is_R(v.t), f".{name} on an object"):
                            if is_r:
                                raise Unsupported(f"{self.where(node)}: method .{name} on an object of unknown class")
                            out.append((self.raise_exc(s3, "AttributeError"), None))
                return out
            if ft is None and k == "val" and cls is None and name in ("split", "rsplit", "startswith", "endswith", "strip", "find", "count"):
                st.log.append(("assume-str", name, getattr(node, "lineno", 0)))
                return [(st, V("bound", xs=(V("str", Val.s(v.t)), name)))]
            if ft is None and k == "val" and name in ("append", "extend", "insert", "pop"):
                # a method of list called on a value of unknown class: type assumption "it is a list" (checked by C13's type obligations)
                st.log.append(("assume-list", name, getattr(node, "lineno", 0)))
                st.assume(Val.is_R(v.t))
                st.wf_ref(Val.r(v.t))
                return [(st, V("bound", xs=(V("ref", Val.r(v.t), cls="list"), name)))]
            if ft is None:
                raise Unsupported(f"{self.where(node)}: cannot resolve attribute .{name} on {v!r}")
            decl, ty = ft
            r = self.as_ref(v, st)
            if decl.startswith("ast.") and cls and cls.startswith("ast."):
                decl = "ast"            # typed view of an AST class: same component, value read at the declared type (wf-AST assumption)
            if decl == "ast" and ty != "val":
                t = st.read(f"ast.{name}", r, Val)
                st.assume(z3.Implies(Val.is_R(t), z3.Select(st.comp("list.nodeowned"), Val.r(t))))
                return [(st, self.unbox(t, ty, st))]
            if ty.startswith("tuple("):
                parts = [p.strip() for p in ty[6:-1].split(",")]
                xs = []
                for j, pt in enumerate(parts):
                    tj = st.read(f"{decl}.{name}#{j}", r, sort_of_type(pt))
                    xs.append(self.unbox(tj, pt, st) if sort_of_type(pt) == Val else V(pt, tj))
                return [(st, V("tuple", xs=xs))]
            t = st.read(f"{decl}.{name}", r, sort_of_type(ty))
            if name == "info" and decl == "fickle.Opcode" and self.class_info is not None and cls:
                # instances do not shadow the class attribute set by __init_subclass__ (except via the ctor): per dynamic class
                subs = self.repo.subclasses(cls)
                if len(subs) == 1:
                    ci = self.class_info(self, st, cls)
                    if ci is not None:
                        st.assume(t == box(ci))
                elif len(subs) <= 16:
                    tag = st.cls_of(r)
                    for sc in subs:
                        ci = self.class_info(self, st, sc)
                        if ci is not None:
                            st.assume(z3.Implies(tag == clsid(sc), t == box(ci)))
            if decl == "ast":
                # ghost invariant: whatever an AST node field refers to carries the node-owned flag (set at every store into such a field)
                st.assume(z3.Implies(Val.is_R(t), z3.Select(st.comp("list.nodeowned"), Val.r(t))))
            if sort_of_type(ty) == Val:
                return [(st, self.unbox(t, ty, st))]
            return [(st, V(ty, t))]
        if k in ("str", "bytes", "seq", "tuple", "int", "const", "float", "iter", "gen", "exc", "priotable"):
            return [(st, V("bound", xs=(v, name)))]
        if k in ("clsof", "opaque") and name in ("__name__", "__qualname__", "__module__"):
            return [(st, V("str", fresh("clsname", Str)))]
        if k == "super":
            return [(st, self.super_attr(v, name, st, node))]
        if k == "func" and name in ("__code__", "__name__"):
            return [(st, V("opaque", note=f"{v.cls}.{name}"))]
        if k == "builtin":
            if (v.cls, name) in self.ext_attrs:
                return [(st, self.ext_attrs[(v.cls, name)](self, st))]
            return [(st, V("builtin", cls=f"{v.cls}.{name}"))]
        raise Unsupported(f"{self.where(node)}: attribute .{name} of {v!r}")

    def unique_field(self, name):
        hits = [(k, f[name]) for k, f in self.fields.items() if name in f]
        if len(hits) == 1:
            return hits[0]
        if not hits:
            return None
        tys = {h[1] for h in hits}
        roots = {h[0] for h in hits}
        raise Unsupported(f"attribute .{name} on a value of unknown class is ambiguous between {sorted(roots)} ({tys})")

    def module_attr(self, mod, name, st, node):
        if (mod, name) in self.ext_attrs:
            return self.ext_attrs[(mod, name)](self, st)
        key = "module:" + mod
        ft = self.fields.get(key, {}).get(name)
        if ft is not None:
            t = st.read(f"{key}.{name}", z3.IntVal(static_ref(key)), sort_of_type(ft))
            return self.unbox(t, ft, st) if sort_of_type(ft) == Val else V(ft, t)
        if mod in self.repo.trees:
            if f"{mod}.{name}" in self.repo.qual:
                return V("func", z3.IntVal(static_ref(f"func:{mod}.{name}")), cls=f"{mod}.{name}")
            if self.repo.has_class(f"{mod}.{name}"):
                return V("cls", z3.IntVal(static_ref(f"class:{mod}.{name}")), cls=f"{mod}.{name}")
            g = self.repo.globals_src.get(mod, {})
            if name in g:
                save = self.cur_mod
                self.cur_mod = mod
                try:
                    return self.module_global(mod, name, g[name], st)
                finally:
                    self.cur_mod = save
            imp = self.repo.imports.get(mod, {}).get(name)
            if imp:
                return self.imported(imp)
        if mod == "ast" and name in self.repo.live["ast_fields"]:
            return V("cls", z3.IntVal(static_ref("class:ast." + name)), cls="ast." + name)
        if mod == "fickling":
            return self.imported("fickling." + name)
        return V("builtin", cls=f"{mod}.{name}")

    def class_attr(self, cls, name, st, node):
        if (cls, name) in self.ext_attrs:
            return self.ext_attrs[(cls, name)](self, st)
        if self.repo.has_class(cls):
            for k in self.repo.cls(cls)["mro"]:
                if (k, name) in self.ext_attrs:
                    return self.ext_attrs[(k, name)](self, st)
            a = self.repo.attr(cls, name)
            if a is not None:
                info = a[0]
                if info["kind"] in ("staticmethod",):
                    return V("func", z3.IntVal(static_ref(f"func:{cls}.{name}")), cls=f"{cls}.{name}", note="static")
                if info["kind"] == "classmethod":
                    return V("bound", xs=(V("cls", z3.IntVal(static_ref("class:" + cls)), cls=cls), name))
                return V("func", z3.IntVal(static_ref(f"func:{cls}.{name}")), cls=f"{cls}.{name}", note="unbound")
            consts = self.repo.cls(cls)["consts"]
            if name in consts:
                return self.lit(self.repo.const(cls, name))
            if name == "__name__":
                return vstr(cls.split(".")[-1])
            if name == "info" and self.class_info is not None:
                ci = self.class_info(self, st, cls)
                if ci is not None:
                    return ci
            ft = self.fields.get("classobj:" + cls, {}).get(name)
            if ft is not None:
                t = st.read(f"classobj:{cls}.{name}", z3.IntVal(static_ref("class:" + cls)), sort_of_type(ft))
                return self.unbox(t, ft, st) if sort_of_type(ft) == Val else V(ft, t)
        if name == "__name__":
            return vstr(cls.split(".")[-1])
        raise Unsupported(f"{self.where(node)}: class attribute {cls}.{name}")

    # ---- subscripts -----------------------------------------------------------------------------------------------------
    def ev_Subscript(self, e, st):
        out = []
        for s, v in self.ev(e.value, st):
            if s.status != "run":
                out.append((s, None))
                continue
            if isinstance(e.slice, ast.Slice):
                parts = [e.slice.lower, e.slice.upper, e.slice.step]
                for s2, vs in self.ev_list([p for p in parts if p is not None], s):
                    if s2.status != "run":
                        out.append((s2, None))
                        continue
                    it = iter(vs)
                    lo, hi, step = [next(it) if p is not None else None for p in parts]
                    out += self.slice_of(v, lo, hi, step, s2, e)
            else:
                for s2, i in self.ev(e.slice, s):
                    if s2.status != "run":
                        out.append((s2, None))
                        continue
                    out += self.index_of(v, i, s2, e)
        return out

    def raise_exc(self, st, cls, arg=None):
        st.status = "raise"
        st.exc = (cls, arg)
        return st

    def index_of(self, v, i, st, node=None):
        """python v[i] with IndexError / KeyError paths"""
        if v.k == "tuple" and i.k == "int" and z3.is_int_value(z3.simplify(i.t)):
            idx = z3.simplify(i.t).as_long()
            if -len(v.xs) <= idx < len(v.xs):
                return [(st, v.xs[idx])]
            return [(self.raise_exc(st, "IndexError"), None)]
        if v.k == "const":
            return self.const_index(v, i, st, node)
        if v.k in ("str", "bytes"):
            n = z3.Length(v.t)
            ii = self.as_int(i)
            return self._indexed(st, ii, n, lambda s, j: (V("str", z3.SubString(v.t, j, 1)) if v.k == "str"
                                                          else V("int", z3.BV2Int(v.t[j]))))
        if v.k in ("ref", "val") and v.cls and self.repo.has_class(v.cls):
            recv = v if v.k == "ref" else self.unbox(v.t, v.cls, st)
            res = self.call_method(recv, "__getitem__", [i], {}, st, node)
            ri = None
            for k in self.repo.cls(v.cls)["mro"]:
                c = self.contracts.get(f"{k}.__getitem__")
                if c is not None:
                    ri = getattr(c, "returns_for_index", None)
                    break
            if ri and i.k in ("int", "bool"):
                res = [(s2, self.coerce(x, ri, s2) if (x is not None and s2.status == "run" and x.k == "val") else x) for s2, x in res]
            return res
        if v.k in ("ref", "val") and (v.cls, "__getitem__") in self.ext_methods:
            return self.ext_methods[(v.cls, "__getitem__")](self, st, v, [i], {}, node)
        if (v.k == "ref" and v.cls == "dict") or (v.k == "val" and v.cls == "dict"):
            r = self.as_ref(v, st)
            kb = box(self.materialize(i, st))
            st.key_term(kb)
            has = z3.Select(st.read("dict.has", r), kb)
            out = []
            for s, b in self.branch(st, has, "key in dict"):
                if b:
                    out.append((s, self.unbox(z3.Select(s.read("dict.map", r), kb), self.dict_types(v.elem)[1], s)))
                else:
                    out.append((self.raise_exc(s, "KeyError"), None))
            return out
        if v.k in ("seq", "tuple", "val", "gen") or (v.k == "ref" and v.cls in ("list", "tuple", None)):
            seq = self.as_seq(v, st)
            n = z3.Length(seq)
            ii = self.as_int(i)
            et = self.elem_type(v)
            return self._indexed(st, ii, n, lambda s, j: self.unbox(seq[j], et, s))
        raise Unsupported(f"{self.where(node)}: subscript of {v!r}")

    @staticmethod
    def dict_types(elem):
        """'str,dict[str,str]' -> ('str', 'dict[str,str]')"""
        if not elem:
            return None, None
        depth = 0
        for i, ch in enumerate(elem):
            if ch == "[":
                depth += 1
            elif ch == "]":
                depth -= 1
            elif ch == "," and depth == 0:
                return elem[:i].strip(), elem[i + 1:].strip()
        return None, elem.strip()

    def _indexed(self, st, ii, n, mk):
        if self.spec_mode:
            si = z3.simplify(ii)
            if z3.is_int_value(si) and si.as_long() < 0:
                return [(st, mk(st, n + si))]
            neg = self._neg_offset(ii)
            if neg is not None:
                return [(st, mk(st, n + ii))]
            return [(st, mk(st, ii))]     # specifications index from the front unless the index is a negative literal
        ok = z3.And(ii >= -n, ii < n)
        out = []
        for s, b in self.branch(st, ok, "index in range"):
            if b:
                out.append((s, mk(s, z3.simplify(norm_index(ii, n)))))
            else:
                out.append((self.raise_exc(s, "IndexError"), None))
        return out

    @staticmethod
    def _neg_offset(ii):
        return None

    def const_index(self, v, i, st, node):
        x = v.xs
        it = z3.simplify(i.t) if i.t is not None else None
        if isinstance(x, (list, tuple)):
            if z3.is_int_value(it):
                return [(st, self.lit(x[it.as_long()]))]
            if i.k == "bool":
                out = []
                for s, b in self.branch(st, i.t, "bool index"):
                    out.append((s, self.lit(x[1 if b else 0])))
                return out
            out = []
            for j, item in enumerate(x):
                c = self.as_int(i) == j
                if feasible(st.pc + [c]):
                    s = st.fork()
                    s.pc.append(c)
                    out.append((s, self.lit(item)))
            return out
        if isinstance(x, dict):
            out = []
            rest = []
            for key, item in x.items():
                c = self.py_eq(i, self.lit(key), st)
                rest.append(z3.Not(c))
                if feasible(st.pc + [c]):
                    s = st.fork()
                    s.pc.append(c)
                    out.append((s, self.lit(item)))
            if feasible(st.pc + rest):
                s = st.fork()
                s.pc += rest
                out.append((self.raise_exc(s, "KeyError"), None))
            return out
        raise Unsupported(f"{self.where(node)}: index into constant {type(x).__name__}")

    def slice_of(self, v, lo, hi, step, st, node=None):
        if step is not None:
            sv = z3.simplify(self.as_int(step))
            if not z3.is_int_value(sv):
                raise Unsupported(f"{self.where(node)}: symbolic slice step")
            stp = sv.as_long()
        else:
            stp = 1
        if v.k in ("ref", "val") and v.cls and self.repo.has_class(v.cls):
            recv = v if v.k == "ref" else self.unbox(v.t, v.cls, st)
            res = self.call_method(recv, "__getitem__", [V("slice", xs=(lo, hi, step))], {}, st, node)
            # a __getitem__ contract may state what a *slice* returns (the declared type of a piece of the underlying container)
            rs = None
            for k in self.repo.cls(v.cls)["mro"]:
                c = self.contracts.get(f"{k}.__getitem__")
                if c is not None:
                    rs = getattr(c, "returns_for_slice", None)
                    break
            if rs:
                res = [(s2, self.coerce(x, rs, s2) if (x is not None and s2.status == "run") else x) for s2, x in res]
            return res
        if v.k in ("str", "bytes"):
            n = z3.Length(v.t)
            a, b = self._bounds(lo, hi, n)
            if stp != 1:
                raise Unsupported("strided slice of str/bytes")
            return [(st, V(v.k, z3.SubString(v.t, a, z3.If(b > a, b - a, 0))))]
        seq = self.as_seq(v, st)
        n = z3.Length(seq)
        et = self.elem_type(v)
        if stp == 1:
            a, b = self._bounds(lo, hi, n)
            return [(st, V("seq", z3.simplify(z3.SubSeq(seq, a, z3.If(b > a, b - a, 0))), elem=et))]
        if stp == -1 and lo is None and hi is None:
            return [(st, V("seq", self.rules.REV(seq), elem=et))]
        if stp == 2 and hi is None and (lo is None or z3.simplify(self.as_int(lo) == 0).eq(z3.BoolVal(True))):
            return [(st, V("seq", self.rules.EVENS(seq), elem=et))]
        if stp == 2 and hi is None and z3.simplify(self.as_int(lo) == 1).eq(z3.BoolVal(True)):
            return [(st, V("seq", self.rules.ODDS(seq), elem=et))]
        raise Unsupported(f"{self.where(node)}: slice step {stp}")

    def _bounds(self, lo, hi, n):
        a = z3.IntVal(0) if lo is None or lo.k == "none" else clamp(norm_index(self.as_int(lo), n), 0, n)
        b = n if hi is None or hi.k == "none" else clamp(norm_index(self.as_int(hi), n), 0, n)
        return z3.simplify(a), z3.simplify(b)

    # ---- boolean / comparison / arithmetic ------------------------------------------------------------------------------
    def ev_BoolOp(self, e, st):
        is_and = isinstance(e.op, ast.And)
        if self.spec_mode:
            vs = [self.ev1(x, st) for x in e.values]
            ts = [self.truth(v, st) for v in vs]
            return [(st, vbool(z3.And(ts) if is_and else z3.Or(ts)))]
        out = []
        todo = [(st, 0)]
        while todo:
            s, i = todo.pop(0)
            if i == len(e.values) - 1:
                out += self.ev(e.values[i], s)
                continue
            for s3, b, v in self.ev_truth_v(e.values[i], s):
                if b is None:
                    out.append((s3, None))
                elif b == is_and:
                    todo.append((s3, i + 1))
                else:
                    out.append((s3, v))      # short circuit: the value of the deciding operand
        return out

    def ev_UnaryOp(self, e, st):
        out = []
        if isinstance(e.op, ast.Not):
            if self.spec_mode:
                v = self.ev1(e.operand, st)
                return [(st, vbool(z3.Not(self.truth(v, st))))]
            for s, b in self.ev_truth(e.operand, st):
                out.append((s, None if b is None else vbool(not b)))
            return out
        for s, v in self.ev(e.operand, st):
            if s.status != "run":
                out.append((s, None))
            elif isinstance(e.op, ast.USub):
                out.append((s, vint(-self.as_int(v))))
            elif isinstance(e.op, ast.UAdd):
                out.append((s, vint(self.as_int(v))))
            else:
                raise Unsupported(f"{self.where(e)}: unary {type(e.op).__name__}")
        return out

    def ev_IfExp(self, e, st):
        if self.spec_mode:
            c = self.truth(self.ev1(e.test, st), st)
            a, b = self.ev1(e.body, st), self.ev1(e.orelse, st)
            if a.k == b.k and a.k in ("int", "bool", "str", "bytes", "seq", "val", "ref"):
                return [(st, V(a.k, z3.If(c, a.t, b.t), cls=a.cls, elem=a.elem))]
            return [(st, V("val", z3.If(c, box(self.materialize(a, st)), box(self.materialize(b, st)))))]
        out = []
        for s, b in self.ev_truth(e.test, st):
            if b is None:
                out.append((s, None))
            else:
                out += self.ev(e.body if b else e.orelse, s)
        return out

    def ev_Compare(self, e, st):
        out = []
        for s, vs in self.ev_list([e.left] + list(e.comparators), st):
            if s.status != "run":
                out.append((s, None))
                continue
            res = [(s, z3.BoolVal(True))]
            for op, a, b in zip(e.ops, vs, vs[1:]):
                nxt = []
                for s2, acc in res:
                    if s2.status != "run":
                        nxt.append((s2, acc))
                        continue
                    for s3, c in self.compare(op, a, b, s2, e):
                        nxt.append((s3, None if c is None else z3.And(acc, c)))
                res = nxt
            for s2, c in res:
                if s2.status == "run":
                    cs = z3.simplify(c)
                    c = cs if (z3.is_true(cs) or z3.is_false(cs)) else c
                out.append((s2, None if s2.status != "run" else vbool(c)))
        return out

    def compare(self, op, a, b, st, node):
        """-> [(state, z3 Bool or None)]"""
        if isinstance(op, (ast.Is, ast.IsNot)):
            c = self.py_is(a, b, st)
            return [(st, c if isinstance(op, ast.Is) else z3.Not(c))]
        if isinstance(op, (ast.Eq, ast.NotEq, ast.Lt, ast.LtE, ast.Gt, ast.GtE)):
            dunder = {ast.Eq: "__eq__", ast.NotEq: "__ne__", ast.Lt: "__lt__", ast.LtE: "__le__", ast.Gt: "__gt__", ast.GtE: "__ge__"}[type(op)]
            ua = a if a.k == "ref" else (self.unbox(a.t, a.cls, st) if a.k == "val" and a.cls and self.repo.has_class(a.cls) and
                                          a.cls != "builtins.object" else a)
            if ua.k == "ref" and ua.cls and self.repo.has_class(ua.cls):
                meth = dunder
                has = self.repo.attr(ua.cls, meth)
                if has is None and meth == "__ne__" and self.repo.attr(ua.cls, "__eq__"):
                    return [(s, None if r is None else z3.Not(self.truth(r, s))) for s, r in self.call_method(ua, "__eq__", [b], {}, st, node)]
                if has is not None:
                    return [(s, None if r is None else self.truth(r, s)) for s, r in self.call_method(ua, meth, [b], {}, st, node)]
        if isinstance(op, ast.Eq):
            return [(st, self.py_eq(a, b, st))]
        if isinstance(op, ast.NotEq):
            return [(st, z3.Not(self.py_eq(a, b, st)))]
        if isinstance(op, (ast.Lt, ast.LtE, ast.Gt, ast.GtE)):
            return [(st, self.py_order(type(op), a, b, st, node))]
        if isinstance(op, (ast.In, ast.NotIn)):
            c = self.py_in(a, b, st, node)
            return [(st, c if isinstance(op, ast.In) else z3.Not(c))]
        raise Unsupported(f"{self.where(node)}: comparison {type(op).__name__}")

    def py_is(self, a, b, st):
        if a.k == "none" or b.k == "none":
            o = b if a.k == "none" else a
            if o.k == "none":
                return z3.BoolVal(True)
            return Val.is_N(o.t) if o.k == "val" else z3.BoolVal(False)
        if a.k == "bool" and b.k == "bool":
            return a.t == b.t
        if a.k == "clsof" or b.k == "clsof":
            x, y = (a, b) if a.k == "clsof" else (b, a)
            if y.k == "cls":
                return st.cls_of(x.t) == clsid(y.cls)
        if a.k == "val" and b.k == "bool":
            return z3.And(Val.is_B(a.t), Val.b(a.t) == b.t)
        if b.k == "val" and a.k == "bool":
            return z3.And(Val.is_B(b.t), Val.b(b.t) == a.t)
        refk = ("ref", "func", "cls", "module", "closure")
        if a.k in refk and b.k in refk:
            return a.t == b.t
        if a.k == "val" and b.k in refk:
            return z3.And(Val.is_R(a.t), Val.r(a.t) == b.t)
        if b.k == "val" and a.k in refk:
            return z3.And(Val.is_R(b.t), Val.r(b.t) == a.t)
        if a.k == "val" and b.k == "val":
            return a.t == b.t
        if a.k == "cls" and b.k == "cls":
            return z3.BoolVal(a.cls == b.cls)
        scalars = ("int", "str", "bytes", "float", "bool")
        if a.k == "val" and b.k in scalars:
            return a.t == box(b)
        if b.k == "val" and a.k in scalars:
            return b.t == box(a)
        if a.k in scalars and b.k in scalars:
            return self.py_eq(a, b, st) if a.k == b.k else z3.BoolVal(False)
        if a.k == "tuple" or b.k == "tuple":
            return self.py_eq(a, b, st)
        raise Unsupported(f"identity test between {a!r} and {b!r}")

    def py_order(self, op, a, b, st, node):
        def rel(x, y):
            return {ast.Lt: x < y, ast.LtE: x <= y, ast.Gt: x > y, ast.GtE: x >= y}[op]
        if a.k in ("int", "bool") and b.k in ("int", "bool"):
            return rel(self.as_int(a), self.as_int(b))
        if a.k == "val" and b.k in ("int", "bool") or b.k == "val" and a.k in ("int", "bool") or (a.k == "val" and b.k == "val"):
            return rel(self.as_int(a), self.as_int(b))
        if a.k == "tuple" and b.k == "tuple":
            # lexicographic
            if not a.xs or not b.xs:
                return z3.BoolVal({ast.Lt: len(a.xs) < len(b.xs), ast.LtE: len(a.xs) <= len(b.xs),
                                   ast.Gt: len(a.xs) > len(b.xs), ast.GtE: len(a.xs) >= len(b.xs)}[op])
            strict = {ast.Lt: ast.Lt, ast.LtE: ast.Lt, ast.Gt: ast.Gt, ast.GtE: ast.Gt}[op]
            head_lt = self.py_order(strict, a.xs[0], b.xs[0], st, node)
            head_eq = self.py_eq(a.xs[0], b.xs[0], st)
            rest = self.py_order(op, V("tuple", xs=a.xs[1:]), V("tuple", xs=b.xs[1:]), st, node)
            return z3.Or(head_lt, z3.And(head_eq, rest))
        if a.k == "str" and b.k == "str":
            return {ast.Lt: a.t < b.t, ast.LtE: a.t <= b.t, ast.Gt: b.t < a.t, ast.GtE: b.t <= a.t}[op]
        raise Unsupported(f"{self.where(node)}: ordering of {a!r} and {b!r}")

    def py_in(self, a, b, st, node):
        if b.k == "comp":
            return self.comp_contains(a, b, st, node)
        if b.k == "const" or b.k == "tuple":
            items = b.xs if b.k == "tuple" else [self.lit(x) for x in (b.xs.keys() if isinstance(b.xs, dict) else b.xs)]
            return z3.Or([self.py_eq(a, x, st) for x in items] or [z3.BoolVal(False)])
        if b.k == "str":
            return z3.Contains(b.t, a.t)
        if b.k == "bytes":
            return z3.Contains(b.t, a.t if a.k == "bytes" else z3.Unit(z3.Int2BV(self.as_int(a), 8)))
        if b.k in ("ref", "val") and b.cls == "dict":
            st.key_term(box(self.materialize(a, st)))
            return z3.Select(st.read("dict.has", self.as_ref(b, st)), box(self.materialize(a, st)))
        if b.k in ("ref", "val") and b.cls == "set":
            return z3.Select(st.read("set.has", self.as_ref(b, st)), box(self.materialize(a, st)))
        if b.k in ("seq", "gen") or (b.k == "ref" and b.cls in ("list", "tuple")):
            return z3.Contains(self.as_seq(b, st), z3.Unit(box(self.materialize(a, st))))
        raise Unsupported(f"{self.where(node)}: `in` on {b!r}")

    def ev_BinOp(self, e, st):
        out = []
        for s, vs in self.ev_list([e.left, e.right], st):
            if s.status != "run":
                out.append((s, None))
                continue
            a, b = vs
            if isinstance(e.op, ast.Add) and {a.k, b.k} in ({"bytes", "val"}, {"str", "val"}) and (a if a.k == "val" else b).cls is None:
                # bytes / str + a value of unknown kind: concatenation when the kinds agree, TypeError otherwise
                kind = a.k if a.k != "val" else b.k
                other = a if a.k == "val" else b
                rec, acc = (Val.is_Y, Val.y) if kind == "bytes" else (Val.is_S, Val.s)
                for s1, same in self.branch(s, rec(other.t), f"+ with a {kind} operand"):
                    if same:
                        o = V(kind, acc(other.t))
                        out.append((s1, self.binop(ast.Add, o if a.k == "val" else a, o if b.k == "val" else b, s1, e)))
                    else:
                        out.append((self.raise_exc(s1, "TypeError"), None))
                continue
            out.append((s, self.binop(type(e.op), a, b, s, e)))
        return out

    def binop(self, op, a, b, st, node):
        numeric = ("int", "bool")
        if (a.k in numeric and b.k == "val" and b.cls is None) or (b.k in numeric and a.k == "val" and a.cls is None):
            # arithmetic with a boxed value: it is a number here (anything else raises TypeError in Python; recorded as a type assumption)
            st.log.append(("assume-int", getattr(node, "lineno", 0)))
            a = a if a.k in numeric else vint(self.as_int(a))
            b = b if b.k in numeric else vint(self.as_int(b))
        if a.k in numeric and b.k in numeric:
            x, y = self.as_int(a), self.as_int(b)
            if op is ast.Add:
                return vint(x + y)
            if op is ast.Sub:
                return vint(x - y)
            if op is ast.Mult:
                return vint(x * y)
            if op is ast.FloorDiv:
                return vint(x / y)
            if op is ast.Mod:
                return vint(x % y)
            if op is ast.Pow:
                xs, ys = z3.simplify(x), z3.simplify(y)
                if z3.is_int_value(xs) and z3.is_int_value(ys):
                    return vint(xs.as_long() ** ys.as_long())
            if op is ast.LShift:
                xs, ys = z3.simplify(x), z3.simplify(y)
                if z3.is_int_value(xs) and z3.is_int_value(ys):
                    return vint(xs.as_long() << ys.as_long())
            if op is ast.BitXor:
                xs, ys = z3.simplify(x), z3.simplify(y)
                if z3.is_int_value(xs) and z3.is_int_value(ys):
                    return vint(xs.as_long() ^ ys.as_long())
            raise Unsupported(f"{self.where(node)}: int operator {op.__name__}")
        if op is ast.Add:
            if a.k == b.k and a.k in ("str", "bytes"):
                return V(a.k, z3.Concat(a.t, b.t))
            seqish = lambda v: v.k in ("seq", "tuple") or (v.k == "ref" and v.cls in ("list", "tuple"))  # noqa
            if seqish(a) and seqish(b):
                if a.k == "tuple" and b.k == "tuple":
                    return V("tuple", xs=a.xs + b.xs)
                t = z3.Concat(self.as_seq(a, st), self.as_seq(b, st))
                if a.k == "ref" and a.cls == "list" and not self.spec_mode:
                    return vref(st.new_list(t), cls="list", elem=a.elem)
                return V("seq", t, elem=self.elem_type(a))
        if op is ast.Sub and a.k in ("ref", "val") and a.cls == "set":
            return V("setdiff", xs=(a, b))
        if op is ast.Mod and a.k == "str":
            return V("str", fresh("fmt", Str))
        raise Unsupported(f"{self.where(node)}: operator {op.__name__} on {a!r}, {b!r}")

    # ---- literals -------------------------------------------------------------------------------------------------------
    def ev_Tuple(self, e, st):
        if any(isinstance(x, ast.Starred) for x in e.elts):
            raise Unsupported(f"{self.where(e)}: starred tuple display")
        return [(s, None if s.status != "run" else V("tuple", xs=vs)) for s, vs in self.ev_list(e.elts, st)]

    def ev_List(self, e, st):
        out = []
        star = [isinstance(x, ast.Starred) for x in e.elts]
        for s, vs in self.ev_list([x.value if isinstance(x, ast.Starred) else x for x in e.elts], st):
            if s.status != "run":
                out.append((s, None))
                continue
            if any(star):
                # [*xs, y]: the unpacked operands contribute their items (lists / tuples / sequence values only)
                parts = []
                for v, is_star in zip(vs, star):
                    if is_star:
                        node_list = v.k == "val" and v.t is not None and z3.is_select(v.t) and \
                            str(v.t.arg(0)).rsplit(".", 1)[-1].split("!")[0] in ("elts", "keys", "values", "body", "args", "keywords", "names", "targets")
                        if node_list:            # a child list of an AST node (ghost invariant of the heap model: such fields hold list objects)
                            parts.append(s.items(Val.r(v.t)))
                            continue
                        if not (v.k in ("seq", "tuple") or (v.k in ("ref", "val") and v.cls in ("list", "tuple"))):
                            raise Unsupported(f"{self.where(e)}: unpacking of {v!r} in a list display")
                        parts.append(self.as_seq(v, s))
                    else:
                        parts.append(z3.Unit(box(self.materialize(v, s))))
                seq = z3.Concat(*parts) if len(parts) > 1 else parts[0]
                out.append((s, V("seq", seq) if self.spec_mode else vref(s.new_list(seq), cls="list")))
                continue
            items = [box(self.materialize(v, s)) for v in vs]
            seq = z3.Concat(*[z3.Unit(i) for i in items]) if len(items) > 1 else (z3.Unit(items[0]) if items else z3.Empty(SeqV))
            if self.spec_mode:
                out.append((s, V("seq", seq)))      # specifications speak about sequence values: no allocation
                continue
            r = vref(s.new_list(seq), cls="list")
            r.note = ("static_items", vs, seq)
            out.append((s, r))
        return out

    def ev_Dict(self, e, st):
        out = []
        ks = [k for k in e.keys]
        if any(k is None for k in ks):
            raise Unsupported(f"{self.where(e)}: dict unpacking")
        for s, vs in self.ev_list(ks + list(e.values), st):
            if s.status != "run":
                out.append((s, None))
                continue
            n = len(ks)
            out.append((s, self.new_dict(s, list(zip(vs[:n], vs[n:])))))
        return out

    def ev_Set(self, e, st):
        out = []
        for s, vs in self.ev_list(e.elts, st):
            if s.status != "run":
                out.append((s, None))
                continue
            out.append((s, self.new_set(s, vs)))
        return out

    def new_set(self, st, vs=()):
        r = st.alloc("set")
        h = z3.K(Val, z3.BoolVal(False))
        for v in vs:
            h = z3.Store(h, box(self.materialize(v, st)), z3.BoolVal(True))
        st.H["set.has"] = z3.Store(st.comp("set.has"), r, h)
        if not vs:
            st.H["set.card"] = z3.Store(st.comp("set.card"), r, z3.IntVal(0))
        return vref(r, cls="set")

    def ev_JoinedStr(self, e, st):
        out = []
        exprs = [v.value for v in e.values if isinstance(v, ast.FormattedValue)]
        for s, vs in self.ev_list(exprs, st):
            if s.status != "run":
                out.append((s, None))
                continue
            it = iter(vs)
            parts = []
            for v in e.values:
                if isinstance(v, ast.Constant):
                    parts.append(z3.StringVal(v.value))
                else:
                    x = next(it)
                    parts.append(self.to_str(x, s, conv=v.conversion, spec=v.format_spec))
            t = z3.Concat(*parts) if len(parts) > 1 else (parts[0] if parts else z3.StringVal(""))
            out.append((s, V("str", t)))
        return out

    def to_str(self, x, st, conv=-1, spec=None):
        """str(x) as a z3 string; opaque (fresh) where the text is not needed by any contract"""
        if spec is None and conv in (-1, 115):
            if x.k == "str":
                return x.t
            if x.k == "int":
                return self.rules.INT2STR(x.t)
            if x.k == "val" and x.cls is None:
                # str() of a boxed value: decimal text for ints, the text itself for strs, a function of the value otherwise
                if not hasattr(self, "_STR_OF"):
                    self._STR_OF = z3.Function("STR_OF", Val, Str)
                from .state import entails
                if entails(st.hyps(), Val.is_I(x.t), 2000):
                    return self.rules.INT2STR(Val.i(x.t))
                if entails(st.hyps(), Val.is_S(x.t), 2000):
                    return Val.s(x.t)
                return self._STR_OF(x.t)
        return fresh("text", Str)

    def ev_Lambda(self, e, st):
        return [(st, V("lambda", xs=(e, dict(st.env), self.cur_mod)))]

    def ev_Starred(self, e, st):
        raise Unsupported(f"{self.where(e)}: starred expression")
