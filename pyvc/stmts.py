"""Statement execution: forward symbolic execution with path forking; loops are cut at their invariants."""
import ast
import z3
from .sorts import (Int, Bool, Str, Bytes, Val, SeqV, V, VNONE, vint, vbool, vstr, vref, box, fresh, sort_of_type)
from .state import feasible, Obligation, clsid, static_ref
from .eval import Unsupported, PY_EXC


def assigned_names(stmts):
    out = []
    for s in stmts:
        for n in ast.walk(s):
            if isinstance(n, ast.Name) and isinstance(n.ctx, ast.Store) and n.id not in out:
                out.append(n.id)
    return out


class StmtMixin:
    def exec_block(self, stmts, states):
        for s in stmts:
            nxt = []
            for st in states:
                if st.status != "run":
                    nxt.append(st)
                else:
                    nxt += self.exec_stmt(s, st)
            states = nxt
            if len(states) > self.max_paths:
                raise Unsupported(f"{self.where(s)}: path explosion (> {self.max_paths} paths)")
        return states

    def exec_stmt(self, s, st):
        m = getattr(self, "st_" + type(s).__name__, None)
        if m is None:
            raise Unsupported(f"{self.where(s)}: statement {type(s).__name__} not supported")
        return m(s, st)

    def st_Pass(self, s, st):
        return [st]

    def st_Expr(self, s, st):
        if isinstance(s.value, ast.Constant):
            return [st]          # docstring / bare literal
        if isinstance(s.value, ast.Yield):
            return self.do_yield(s.value, st)
        return [x for x, _ in self.ev(s.value, st)]

    def do_yield(self, y, st):
        out = []
        for s2, v in (self.ev(y.value, st) if y.value is not None else [(st, VNONE)]):
            if s2.status == "run":
                self.on_yield(s2, v, y)
                b = box(self.materialize(v, s2))
                s2.yielded = z3.Concat(s2.yielded, z3.Unit(b)) if s2.yielded is not None else z3.Unit(b)
            out.append(s2)
        return out

    def on_yield(self, st, v, node):
        pass

    def st_Return(self, s, st):
        if s.value is None:
            st.status, st.ret = "ret", VNONE
            return [st]
        out = []
        for s2, v in self.ev(s.value, st):
            if s2.status == "run":
                s2.status, s2.ret = "ret", v
            out.append(s2)
        return out

    def st_Raise(self, s, st):
        if s.exc is None:
            st.status = "raise"
            st.exc = st.ghost.get("handling", ("Exception", None))
            return [st]
        out = []
        for s2, v in self.ev(s.exc, st):
            if s2.status != "run":
                out.append(s2)
                continue
            if v.k == "cls":
                s2.exc = (v.cls, None)
            elif v.k == "ref":
                s2.exc = (v.cls, v)
            elif v.k == "exc":
                s2.exc = v.xs
            else:
                raise Unsupported(f"{self.where(s)}: raise of {v!r}")
            s2.status = "raise"
            out.append(s2)
        return out

    def st_Break(self, s, st):
        st.status = "brk"
        return [st]

    def st_Continue(self, s, st):
        st.status = "cont"
        return [st]

    def st_Assert(self, s, st):
        out = []
        for s2, b in self.ev_truth(s.test, st):
            if b is None:
                out.append(s2)
            elif b:
                out.append(s2)
            else:
                out.append(self.raise_exc(s2, "AssertionError"))
        return out

    def st_Global(self, s, st):
        return [st]

    def st_Import(self, s, st):
        return [st]

    st_ImportFrom = st_Import

    def st_FunctionDef(self, s, st):
        """nested def: a closure object on the heap: ghost fields `function.code` (which def) and one cell per captured variable"""
        r = st.alloc("function")
        qual = f"{self.cur_fn}.<locals>.{s.name}"
        st.H["function.code"] = z3.Store(st.comp("function.code", Int), r, z3.IntVal(static_ref("code:" + qual)))
        params = {a.arg for a in s.args.posonlyargs + s.args.args + s.args.kwonlyargs}
        if s.args.vararg:
            params.add(s.args.vararg.arg)
        if s.args.kwarg:
            params.add(s.args.kwarg.arg)
        local = set(assigned_names(s.body)) | params
        free = []
        for n in ast.walk(s):
            if isinstance(n, ast.Name) and isinstance(n.ctx, ast.Load) and n.id not in local and n.id in st.env and n.id not in free:
                free.append(n.id)
        for n in free:
            st.H[f"function.cell.{n}"] = z3.Store(st.comp(f"function.cell.{n}", Val), r, box(self.materialize(st.env[n], st)))
        st.env[s.name] = V("closure", t=r, cls="function", xs=(s, qual, self.cur_mod, free))
        self.on_closure(st, st.env[s.name])
        return [st]

    def on_closure(self, st, v):
        pass

    # ---- assignment -------------------------------------------------------------------------------------------------
    def st_Assign(self, s, st):
        out = []
        for s2, v in self.ev(s.value, st):
            if s2.status != "run":
                out.append(s2)
                continue
            states = [s2]
            for tgt in s.targets:
                nxt = []
                for s3 in states:
                    nxt += self.assign(tgt, v, s3) if s3.status == "run" else [s3]
                states = nxt
            out += states
        return out

    def st_AnnAssign(self, s, st):
        if s.value is None:
            return [st]
        out = []
        for s2, v in self.ev(s.value, st):
            if s2.status == "run" and v.k == "ref" and v.cls == "list" and v.elem is None:
                et = self.annotation_elem(s.annotation)
                if et:
                    v = V("ref", v.t, cls="list", elem=et, note=v.note)
            out += self.assign(s.target, v, s2) if s2.status == "run" else [s2]
        return out

    def annotation_elem(self, ann):
        """List[X] / list[X] with X a repo class -> element type of a freshly created local list"""
        if isinstance(ann, ast.Subscript) and isinstance(ann.value, ast.Name) and ann.value.id in ("List", "list"):
            x = ann.slice
            if isinstance(x, ast.Name):
                for k in self.repo.live["classes"]:
                    if k == f"{self.cur_mod}.{x.id}" or (k.split(".", 1)[1] == x.id and self.repo.imports.get(self.cur_mod, {}).get(x.id, "").endswith(x.id)):
                        return k
        return None

    def st_AugAssign(self, s, st):
        load = ast.copy_location(ast.BinOp(left=self._as_load(s.target), op=s.op, right=s.value), s)
        if isinstance(s.op, ast.Add):
            # list += seq mutates in place
            out = []
            for s2, vs in self.ev_list([self._as_load(s.target), s.value], st):
                if s2.status != "run":
                    out.append(s2)
                    continue
                a, b = vs
                if a.k == "ref" and a.cls == "list":
                    self.on_list_extend(s2, a, b, s)
                    s2.set_items(a.t, z3.Concat(s2.items(a.t), self.as_seq(b, s2)))
                    out.append(s2)
                elif a.k in ("ref", "val") and a.cls == "set" and False:
                    pass
                else:
                    out += self.assign(s.target, self.binop(ast.Add, a, b, s2, s), s2)
            return out
        if isinstance(s.op, ast.BitOr):
            out = []
            for s2, vs in self.ev_list([self._as_load(s.target), s.value], st):
                if s2.status != "run":
                    out.append(s2)
                    continue
                a, b = vs
                out += self.set_union_inplace(a, b, s2, s)
            return out
        out = []
        for s2, v in self.ev(load, st):
            out += self.assign(s.target, v, s2) if s2.status == "run" else [s2]
        return out

    def on_list_extend(self, st, lst, items, node):
        pass

    def set_union_inplace(self, a, b, st, node):
        raise Unsupported(f"{self.where(node)}: |= on {a!r}")

    @staticmethod
    def _as_load(t):
        t2 = ast.parse(ast.unparse(t), mode="eval").body
        return ast.copy_location(t2, t)

    def assign(self, tgt, v, st):
        if isinstance(tgt, ast.Name):
            if tgt.id in self.global_decls():
                m = self.cur_mod
                return self.setattr(V("module", z3.IntVal(static_ref("module:" + m)), cls=m), tgt.id, v, st, tgt)
            st.env[tgt.id] = v
            return [st]
        if isinstance(tgt, (ast.Tuple, ast.List)):
            return self.assign_unpack(tgt, v, st)
        if isinstance(tgt, ast.Attribute):
            out = []
            for s2, o in self.ev(tgt.value, st):
                out += self.setattr(o, tgt.attr, v, s2, tgt) if s2.status == "run" else [s2]
            return out
        if isinstance(tgt, ast.Subscript):
            out = []
            if isinstance(tgt.slice, ast.Slice):
                return self.assign_slice(tgt, v, st)
            for s2, (o, i) in self.ev_list([tgt.value, tgt.slice], st):
                out += self.setitem(o, i, v, s2, tgt) if s2.status == "run" else [s2]
            return out
        raise Unsupported(f"{self.where(tgt)}: assignment target {type(tgt).__name__}")

    def assign_slice(self, tgt, v, st):
        """x[lo:hi] = v for bytearray and list objects (step 1)"""
        sl = tgt.slice
        if sl.step is not None:
            raise Unsupported(f"{self.where(tgt)}: extended slice store")
        parts = [p for p in (sl.lower, sl.upper) if p is not None]
        out = []
        for s2, vs in self.ev_list([tgt.value] + parts, st):
            if s2.status != "run":
                out.append(s2)
                continue
            o = vs[0]
            it = iter(vs[1:])
            lo = next(it) if sl.lower is not None else None
            hi = next(it) if sl.upper is not None else None
            if o.k in ("ref", "val") and o.cls == "bytearray":
                r = self.as_ref(o, s2)
                data = s2.read("bytearray.data", r)
                n = z3.Length(data)
                a, b = self._bounds(lo, hi, n)
                b = z3.If(b < a, a, b)
                if v.k != "bytes":
                    raise Unsupported(f"{self.where(tgt)}: bytearray slice store of {v!r}")
                s2.write("bytearray.data", r, z3.Concat(z3.SubString(data, 0, a), v.t, z3.SubString(data, b, n - b)))
                out.append(s2)
            elif o.k == "ref" and o.cls == "list":
                seq = s2.items(o.t)
                n = z3.Length(seq)
                a, b = self._bounds(lo, hi, n)
                b = z3.If(b < a, a, b)
                s2.set_items(o.t, z3.Concat(z3.SubSeq(seq, 0, a), self.as_seq(v, s2), z3.SubSeq(seq, b, n - b)))
                out.append(s2)
            else:
                raise Unsupported(f"{self.where(tgt)}: slice store on {o!r}")
        return out

    def assign_unpack(self, tgt, v, st):
        elts = tgt.elts
        star = [i for i, e in enumerate(elts) if isinstance(e, ast.Starred)]
        if v.k == "tuple" and not star:
            if len(v.xs) != len(elts):
                return [self.raise_exc(st, "ValueError")]
            states = [st]
            for e, x in zip(elts, v.xs):
                nxt = []
                for s in states:
                    nxt += self.assign(e, x, s)
                states = nxt
            return states
        seq = self.as_seq(v, st)
        n = z3.Length(seq)
        et = self.elem_type(v)
        out = []
        if not star:
            for s, ok in self.branch(st, n == len(elts), "unpack length"):
                if not ok:
                    out.append(self.raise_exc(s, "ValueError"))
                    continue
                states = [s]
                for j, e in enumerate(elts):
                    nxt = []
                    for s2 in states:
                        nxt += self.assign(e, self.unbox(seq[j], et, s2), s2)
                    states = nxt
                out += states
            return out
        si = star[0]
        before, after = elts[:si], elts[si + 1:]
        for s, ok in self.branch(st, n >= len(before) + len(after), "unpack length"):
            if not ok:
                out.append(self.raise_exc(s, "ValueError"))
                continue
            states = [s]
            for j, e in enumerate(before):
                states = [x for s2 in states for x in self.assign(e, self.unbox(seq[j], et, s2), s2)]
            mid = V("seq", z3.SubSeq(seq, len(before), n - len(before) - len(after)), elem=et)
            states = [x for s2 in states for x in self.assign(elts[si].value, mid, s2)]
            for j, e in enumerate(after):
                states = [x for s2 in states for x in self.assign(e, self.unbox(seq[n - len(after) + j], et, s2), s2)]
            out += states
        return out

    def setattr(self, o, name, v, st, node=None):
        if o.k == "module":
            key = "module:" + o.cls
            ft = self.fields.get(key, {}).get(name)
            if ft is None:
                raise Unsupported(f"{self.where(node)}: store to undeclared module attribute {o.cls}.{name}")
            st.write(f"{key}.{name}", o.t, self.store_form(v, ft, st), sort_of_type(ft))
            st.gwrites.append((o.cls, name))
            self.on_store(st, o, name, v, node)
            return [st]
        if o.k == "cls":
            key = "classobj:" + o.cls
            ft = self.fields.get(key, {}).get(name)
            if ft is None:
                raise Unsupported(f"{self.where(node)}: store to undeclared class attribute {o.cls}.{name}")
            st.write(f"{key}.{name}", o.t, self.store_form(v, ft, st), sort_of_type(ft))
            st.gwrites.append((o.cls, name))
            return [st]
        if o.k not in ("ref", "val"):
            raise Unsupported(f"{self.where(node)}: attribute store on {o!r}")
        cls = o.cls
        if cls and self.repo.has_class(cls):
            a = self.repo.attr(cls, name)
            if a is not None and a[0]["kind"] == "property":
                recv = o if o.k == "ref" else self.unbox(o.t, cls, st)
                return [x for x, _ in self.call_setter(recv, name, v, st, node)]
        ft = self.field_type(cls, name) if cls else self.unique_field(name)
        if ft is None and name in self.ast_field_names:
            ft = ("ast", "val")
        if ft is None:
            raise Unsupported(f"{self.where(node)}: store to undeclared field {cls}.{name}")
        decl, ty = ft
        self.on_store(st, o, name, v, node)
        sv = self.store_form(v, ty, st)
        st.write(f"{decl}.{name}", self.as_ref(o, st), sv, sort_of_type(ty))
        if decl == "ast":
            self.mark_nodeowned(st, sv)
        return [st]

    def on_store(self, st, o, name, v, node):
        pass

    def setitem(self, o, i, v, st, node=None):
        if o.k in ("ref", "val") and o.cls and self.repo.has_class(o.cls):
            recv = o if o.k == "ref" else self.unbox(o.t, o.cls, st)
            return [x for x, _ in self.call_method(recv, "__setitem__", [i, v], {}, st, node)]
        if o.k in ("ref", "val") and (o.cls, "__setitem__") in self.ext_methods:
            return [x for x, _ in self.ext_methods[(o.cls, "__setitem__")](self, st, o, [i, v], {}, node)]
        if o.k in ("ref", "val") and o.cls == "dict":
            self.dict_store(st, self.as_ref(o, st), i, v)
            return [st]
        if o.k == "ref" and o.cls == "list":
            seq = st.items(o.t)
            n = z3.Length(seq)
            ii = self.as_int(i)
            out = []
            for s, ok in self.branch(st, z3.And(ii >= -n, ii < n), "index in range"):
                if not ok:
                    out.append(self.raise_exc(s, "IndexError"))
                    continue
                j = z3.If(ii < 0, ii + n, ii)
                s.set_items(o.t, z3.Concat(z3.SubSeq(seq, 0, j), z3.Unit(box(self.materialize(v, s))), z3.SubSeq(seq, j + 1, n - j - 1)))
                out.append(s)
            return out
        raise Unsupported(f"{self.where(node)}: item store on {o!r}")

    def dict_store(self, st, r, k, v):
        kb = box(self.materialize(k, st))
        vb = box(self.materialize(v, st))
        st.key_term(kb)
        has = z3.Select(st.read("dict.has", r), kb)
        keys = st.read("dict.keys", r)
        st.write("dict.keys", r, z3.If(has, keys, z3.Concat(keys, z3.Unit(kb))))
        st.write("dict.map", r, z3.Store(st.read("dict.map", r), kb, vb))
        st.write("dict.has", r, z3.Store(st.read("dict.has", r), kb, z3.BoolVal(True)))

    def st_Delete(self, s, st):
        states = [st]
        for tgt in s.targets:
            nxt = []
            for s0 in states:
                if s0.status != "run":
                    nxt.append(s0)
                    continue
                if isinstance(tgt, ast.Subscript):
                    for s2, (o, i) in self.ev_list([tgt.value, tgt.slice], s0):
                        nxt += self.delitem(o, i, s2, tgt) if s2.status == "run" else [s2]
                elif isinstance(tgt, ast.Name):
                    s0.env.pop(tgt.id, None)
                    nxt.append(s0)
                else:
                    raise Unsupported(f"{self.where(s)}: del target")
            states = nxt
        return states

    def delitem(self, o, i, st, node):
        if o.k in ("ref", "val") and o.cls and self.repo.has_class(o.cls):
            recv = o if o.k == "ref" else self.unbox(o.t, o.cls, st)
            return [x for x, _ in self.call_method(recv, "__delitem__", [i], {}, st, node)]
        if o.k == "ref" and o.cls == "list":
            seq = st.items(o.t)
            n = z3.Length(seq)
            ii = self.as_int(i)
            out = []
            for s, ok in self.branch(st, z3.And(ii >= -n, ii < n), "index in range"):
                if not ok:
                    out.append(self.raise_exc(s, "IndexError"))
                    continue
                j = z3.If(ii < 0, ii + n, ii)
                s.set_items(o.t, z3.Concat(z3.SubSeq(seq, 0, j), z3.SubSeq(seq, j + 1, n - j - 1)))
                out.append(s)
            return out
        if o.k in ("ref", "val") and o.cls == "dict":
            r = self.as_ref(o, st)
            kb = box(self.materialize(i, st))
            has = z3.Select(st.read("dict.has", r), kb)
            out = []
            for s, ok in self.branch(st, has, "key in dict"):
                if not ok:
                    out.append(self.raise_exc(s, "KeyError"))
                    continue
                s.write("dict.has", r, z3.Store(s.read("dict.has", r), kb, z3.BoolVal(False)))
                s.havoc_at("dict.keys", r)
                out.append(s)
            return out
        raise Unsupported(f"{self.where(node)}: del item on {o!r}")

    # ---- control flow -----------------------------------------------------------------------------------------------
    def st_If(self, s, st):
        out = []
        for s2, b in self.ev_truth(s.test, st):
            if b is None:
                out.append(s2)
            else:
                out += self.exec_block(s.body if b else s.orelse, [s2])
        return out

    def st_With(self, s, st):
        if len(s.items) != 1:
            raise Unsupported(f"{self.where(s)}: multi-item with")
        item = s.items[0]
        out = []
        for s2, cm in self.ev(item.context_expr, st):
            if s2.status != "run":
                out.append(s2)
                continue
            for s3, entered in self.cm_enter(cm, s2, s):
                if s3.status != "run":
                    out.append(s3)
                    continue
                if item.optional_vars is not None:
                    bodies = self.assign(item.optional_vars, entered, s3)
                else:
                    bodies = [s3]
                for b in self.exec_block(s.body, bodies):
                    out += self.cm_exit(cm, b, s)
        return out

    def cm_enter(self, cm, st, node):
        if cm.k == "ref" and cm.cls and self.repo.has_class(cm.cls):
            return self.call_method(cm, "__enter__", [], {}, st, node)
        if cm.k == "ref":       # external context managers (files, ZipFile...): enter returns the object
            return [(st, cm)]
        raise Unsupported(f"{self.where(node)}: with on {cm!r}")

    def cm_exit(self, cm, st, node):
        """__exit__ runs on normal and exceptional exit; a falsy return re-raises"""
        if cm.k == "ref" and cm.cls and self.repo.has_class(cm.cls):
            saved = (st.status, st.ret, st.exc)
            st.status = "run"
            out = []
            for s2, r in self.call_method(cm, "__exit__", [VNONE, VNONE, VNONE], {}, st, node):
                if s2.status == "run":
                    if saved[0] == "raise":
                        for s3, b in self.truth_branch(r, s2, "__exit__ result"):
                            if b:
                                out.append(s3)      # exception swallowed
                            else:
                                s3.status, s3.ret, s3.exc = saved
                                out.append(s3)
                    else:
                        s2.status, s2.ret, s2.exc = saved
                        out.append(s2)
                else:
                    out.append(s2)
            return out
        self.on_external_exit(cm, st, node)
        return [st]

    def on_external_exit(self, cm, st, node):
        st.log.append(("close", cm.cls, cm.t))

    def st_Try(self, s, st):
        body_states = self.exec_block(s.body, [st])
        after = []
        for b in body_states:
            if b.status == "raise":
                handled = False
                exc_cls = b.exc[0]
                for h in s.handlers:
                    m = self.handler_matches(h, exc_cls)
                    if m:
                        b.status = "run"
                        b.ghost = dict(b.ghost, handling=b.exc)
                        if h.name:
                            b.env[h.name] = V("exc", xs=b.exc)
                        after += self.exec_block(h.body, [b])
                        handled = True
                        break
                if not handled:
                    after.append(b)
            elif b.status == "run":
                after += self.exec_block(s.orelse, [b]) if s.orelse else [b]
            else:
                after.append(b)
        if not s.finalbody:
            return after
        out = []
        for a in after:
            saved = (a.status, a.ret, a.exc)
            a.status = "run"
            for f in self.exec_block(s.finalbody, [a]):
                if f.status == "run":
                    f.status, f.ret, f.exc = saved
                out.append(f)
        return out

    def handler_matches(self, h, exc_cls):
        if h.type is None:
            return True
        names = [h.type] if not isinstance(h.type, ast.Tuple) else h.type.elts
        for n in names:
            target = self.exc_class_name(n)
            r = self.is_subclass_static(exc_cls, target)
            if r is None:
                raise Unsupported(f"{self.where(h)}: cannot decide whether {exc_cls} is caught by {target}")
            if r:
                return True
        return False

    def exc_class_name(self, n):
        if isinstance(n, ast.Name):
            v = self.global_name(n.id, None, n)
            return v.cls
        if isinstance(n, ast.Attribute):
            base = ast.unparse(n.value)
            imp = self.repo.imports.get(self.cur_mod, {}).get(base)
            if imp and imp.startswith("fickling."):
                return imp[len("fickling."):] + "." + n.attr
            return f"{base}.{n.attr}"
        raise Unsupported("exception class expression")
