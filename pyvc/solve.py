"""Discharge obligations: z3 (python API) per obligation in a process pool; cvc5 CLI for what z3 leaves unknown."""
import os
import subprocess
import tempfile
import time
import z3
from concurrent.futures import ProcessPoolExecutor

Z3_TIMEOUT_MS = int(os.environ.get("VERIF_Z3_TIMEOUT_MS", "20000"))
CVC5_TIMEOUT_S = int(os.environ.get("VERIF_CVC5_TIMEOUT_S", "30"))


def _solve_smt2(args):
    idx, text, timeout_ms, seed = args
    t0 = time.time()
    s = z3.Solver()
    s.set("timeout", timeout_ms)
    s.set("random_seed", seed % 1000)
    try:
        s.from_string(text)
        r = s.check()
    except z3.Z3Exception as e:
        return idx, "error", time.time() - t0, str(e)[:400], "z3"
    model = ""
    if r == z3.sat:
        m = s.model()
        items = []
        for d in m.decls():
            try:
                items.append(f"{d.name()} = {m[d]}")
            except Exception:  # noqa
                pass
        model = "\n".join(sorted(items))[:6000]
    res = str(r)
    backend = "z3"
    if r == z3.unknown:
        c = _cvc5(text)
        if c in ("unsat", "sat"):
            # a cvc5 `sat` on a z3-unknown query is not used as a refutation (no model replay): keep unknown unless unsat
            if c == "unsat":
                res, backend = "unsat", "cvc5"
    return idx, res, time.time() - t0, model, backend


def _cvc5(text):
    try:
        with tempfile.NamedTemporaryFile("w", suffix=".smt2", delete=False) as f:
            f.write("(set-logic ALL)\n" + text + "\n")
            p = f.name
        r = subprocess.run(["/usr/bin/cvc5", "--strings-exp", f"--tlimit={CVC5_TIMEOUT_S * 1000}", p], capture_output=True, text=True,
                           timeout=CVC5_TIMEOUT_S + 5)
        os.unlink(p)
        out = r.stdout.strip().splitlines()
        return out[0] if out else "unknown"
    except Exception:  # noqa
        return "unknown"


def to_smt2(hyps, goal, rules=None):
    s = z3.Solver()
    s.add(*hyps)
    if rules is not None:
        s.add(*rules.instances(list(hyps) + [goal]))
    s.add(z3.Not(goal))
    return s.to_smt2()


_G = {}


def _work(i):
    """runs in a forked child: builds the SMT-LIB text (ground rule instances included) and solves it"""
    ob = _G["obs"][i]
    try:
        text = to_smt2(list(ob.hyps) + _G["extra"], ob.goal, _G["rules"])
    except Exception as e:  # noqa
        return i, "error", 0.0, f"smt2 generation: {e!r}"[:400], "z3"
    return _solve_smt2((i, text, Z3_TIMEOUT_MS, _G["seed"]))


def discharge(obligations, rules=None, seed=0, jobs=None, extra_axioms=None):
    return _discharge_forked(obligations, rules, seed, jobs, extra_axioms)


def _discharge_forked(obligations, rules=None, seed=0, jobs=None, extra_axioms=None):
    import multiprocessing as mp
    todo = []
    for i, ob in enumerate(obligations):
        if ob.syntactic is not None:
            ok, why = ob.syntactic
            ob.result = {"verdict": "unsat" if ok else "sat", "time": 0.0, "model": why, "backend": "syntactic"}
            continue
        g = z3.simplify(ob.goal)
        if z3.is_true(g):
            ob.result = {"verdict": "unsat", "time": 0.0, "model": "", "backend": "simplify"}
            continue
        todo.append(i)
    if not todo:
        return obligations
    _G.update(obs=obligations, rules=rules, seed=seed, extra=list(extra_axioms or []))
    jobs = jobs or min(16, max(1, os.cpu_count() or 1))
    if len(todo) < 4 or jobs == 1:
        results = [_work(i) for i in todo]
    else:
        ctx = mp.get_context("fork")
        with ctx.Pool(processes=jobs) as pool:
            results = pool.map(_work, todo, chunksize=max(1, len(todo) // (jobs * 6)))
    for idx, res, dt, model, backend in results:
        obligations[idx].result = {"verdict": res, "time": dt, "model": model, "backend": backend}
    return obligations


def _discharge_serial_gen(obligations, rules=None, seed=0, jobs=None, extra_axioms=None):
    """decide every obligation; sets ob.result = dict(verdict, time, model, backend)"""
    tasks = []
    for i, ob in enumerate(obligations):
        if ob.syntactic is not None:
            ok, why = ob.syntactic
            ob.result = {"verdict": "unsat" if ok else "sat", "time": 0.0, "model": why, "backend": "syntactic"}
            continue
        hyps = list(ob.hyps) + list(extra_axioms or [])
        # trivial goals are decided without a solver call
        g = z3.simplify(ob.goal)
        if z3.is_true(g):
            ob.result = {"verdict": "unsat", "time": 0.0, "model": "", "backend": "simplify"}
            continue
        tasks.append((i, to_smt2(hyps, ob.goal, rules), Z3_TIMEOUT_MS, seed))
    if tasks:
        jobs = jobs or min(16, max(1, os.cpu_count() or 1))
        if len(tasks) < 4 or jobs == 1:
            results = [_solve_smt2(t) for t in tasks]
        else:
            with ProcessPoolExecutor(max_workers=jobs) as ex:
                results = list(ex.map(_solve_smt2, tasks, chunksize=max(1, len(tasks) // (jobs * 4))))
        for idx, res, dt, model, backend in results:
            obligations[idx].result = {"verdict": res, "time": dt, "model": model, "backend": backend}
    return obligations
