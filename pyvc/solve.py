"""Discharge obligations: z3 (python API) per obligation in a process pool; cvc5 CLI for what z3 leaves unknown."""
import os
import subprocess
import tempfile
import time
import z3
from concurrent.futures import ProcessPoolExecutor

Z3_TIMEOUT_MS = int(os.environ.get("VERIF_Z3_TIMEOUT_MS", "20000"))
CVC5_TIMEOUT_S = int(os.environ.get("VERIF_CVC5_TIMEOUT_S", "30"))


Z3_FIRST_MS = int(os.environ.get("VERIF_Z3_FIRST_MS", "4000"))
CVC5_FIRST_S = int(os.environ.get("VERIF_CVC5_FIRST_S", "10"))


def _z3_once(text, timeout_ms, seed):
    s = z3.Solver()
    s.set("timeout", timeout_ms)
    s.set("random_seed", seed % 1000)
    s.from_string(text)
    r = s.check()
    model = ""
    if r == z3.sat:
        m = s.model()
        items = []
        for d in m.decls():
            try:
                items.append(f"{d.name()} = {m[d]}")
            except Exception:  # noqa
                pass
        model = "\n".join(sorted(items))[:6000]
    return str(r), model


def _solve_smt2(args):
    """portfolio in sequence: z3 briefly, cvc5 briefly (it decides several sequence/string queries z3 leaves open), z3 with the full
    budget, cvc5 with the full budget.  A cvc5 `sat` is never used as a refutation (no model to replay): only its `unsat` counts."""
    idx, text, timeout_ms, seed = args
    t0 = time.time()
    try:
        res, model = _z3_once(text, min(Z3_FIRST_MS, timeout_ms), seed)
        if res != "unknown":
            return idx, res, time.time() - t0, model, "z3"
        if _cvc5(text, CVC5_FIRST_S) == "unsat":
            return idx, "unsat", time.time() - t0, "", "cvc5"
        if timeout_ms > Z3_FIRST_MS:
            res, model = _z3_once(text, timeout_ms, seed + 1)
            if res != "unknown":
                return idx, res, time.time() - t0, model, "z3"
        if CVC5_TIMEOUT_S > CVC5_FIRST_S and _cvc5(text, CVC5_TIMEOUT_S) == "unsat":
            return idx, "unsat", time.time() - t0, "", "cvc5"
    except z3.Z3Exception as e:
        return idx, "error", time.time() - t0, str(e)[:400], "z3"
    return idx, "unknown", time.time() - t0, "", "z3"


def _cvc5(text, limit_s=None):
    limit_s = limit_s or CVC5_TIMEOUT_S
    try:
        with tempfile.NamedTemporaryFile("w", suffix=".smt2", delete=False) as f:
            f.write("(set-logic ALL)\n" + text + "\n")
            p = f.name
        r = subprocess.run(["/usr/bin/cvc5", "--strings-exp", f"--tlimit={limit_s * 1000}", p], capture_output=True, text=True,
                           timeout=limit_s + 5)
        os.unlink(p)
        out = r.stdout.strip().splitlines()
        return out[0] if out else "unknown"
    except Exception:  # noqa
        return "unknown"


def to_smt2(hyps, goal, rules=None):
    s = z3.Solver()
    s.add(*hyps)
    if rules is not None:
        s.add(*rules.instances(list(hyps) + [goal]))
    s.add(z3.Not(goal))
    return s.to_smt2()


_G = {}
_SEM = [None]        # a semaphore shared by several verifying processes: bounds the number of solver children across all of them


def _work(i):
    """runs in a forked child: builds the SMT-LIB text (ground rule instances included) and solves it"""
    ob = _G["obs"][i]
    try:
        text = to_smt2(list(ob.hyps) + _G["extra"], ob.goal, _G["rules"])
    except Exception as e:  # noqa
        return i, "error", 0.0, f"smt2 generation: {e!r}"[:400], "z3"
    return _solve_smt2((i, text, Z3_TIMEOUT_MS, _G["seed"]))


def discharge(obligations, rules=None, seed=0, jobs=None, extra_axioms=None):
    return _discharge_forked(obligations, rules, seed, jobs, extra_axioms)


def _discharge_forked(obligations, rules=None, seed=0, jobs=None, extra_axioms=None):
    import multiprocessing as mp
    todo = []
    for i, ob in enumerate(obligations):
        if ob.result is not None:
            continue            # decided already (in the child process that generated it)
        if ob.syntactic is not None:
            ok, why = ob.syntactic
            ob.result = {"verdict": "unsat" if ok else "sat", "time": 0.0, "model": why, "backend": "syntactic"}
            continue
        g = z3.simplify(ob.goal)
        if z3.is_true(g):
            ob.result = {"verdict": "unsat", "time": 0.0, "model": "", "backend": "simplify"}
            continue
        todo.append(i)
    if not todo:
        return obligations
    _G.update(obs=obligations, rules=rules, seed=seed, extra=list(extra_axioms or []))
    jobs = jobs or min(16, max(1, os.cpu_count() or 1))
    results = _run_children(todo, jobs, hard_limit=(Z3_FIRST_MS + Z3_TIMEOUT_MS) / 1000.0 + CVC5_FIRST_S + CVC5_TIMEOUT_S + 40)
    for idx, res, dt, model, backend in results:
        obligations[idx].result = {"verdict": res, "time": dt, "model": model, "backend": backend}
    return obligations


def _child(i, conn):
    try:
        conn.send(_work(i))
    except BaseException as e:  # noqa
        try:
            conn.send((i, "error", 0.0, f"worker: {e!r}"[:400], "z3"))
        except Exception:  # noqa
            pass
    finally:
        conn.close()
        os._exit(0)


def _run_children(todo, jobs, hard_limit):
    """one forked child per obligation (copy-on-write view of the obligations), at most `jobs` at a time; a child that outlives the
    solver's own timeouts (z3 occasionally ignores them inside the sequence solver) is killed and its obligation is `unknown`"""
    import multiprocessing as mp
    from multiprocessing.connection import wait
    ctx = mp.get_context("fork")
    pending = list(reversed(todo))
    running = {}        # conn -> (proc, idx, t0)
    results = []
    while pending or running:
        while pending and len(running) < jobs:
            if _SEM[0] is not None and not _SEM[0].acquire(block=not running, timeout=None if not running else 0):
                break
            i = pending.pop()
            pr, pw = ctx.Pipe(duplex=False)
            p = ctx.Process(target=_child, args=(i, pw), daemon=True)
            p.start()
            pw.close()
            running[pr] = (p, i, time.time())
        ready = wait(list(running), timeout=1.0)
        for c in ready:
            p, i, t0 = running.pop(c)
            try:
                results.append(c.recv())
            except (EOFError, OSError):
                results.append((i, "error", time.time() - t0, "solver process died", "z3"))
            c.close()
            p.join(timeout=5)
            if _SEM[0] is not None:
                _SEM[0].release()
        now = time.time()
        for c, (p, i, t0) in list(running.items()):
            if now - t0 > hard_limit:
                p.kill()
                p.join(timeout=5)
                c.close()
                del running[c]
                if _SEM[0] is not None:
                    _SEM[0].release()
                results.append((i, "unknown", now - t0, "hard wall-clock limit: solver ignored its timeout", "z3"))
    return results


def _discharge_serial_gen(obligations, rules=None, seed=0, jobs=None, extra_axioms=None):
    """decide every obligation; sets ob.result = dict(verdict, time, model, backend)"""
    tasks = []
    for i, ob in enumerate(obligations):
        if ob.syntactic is not None:
            ok, why = ob.syntactic
            ob.result = {"verdict": "unsat" if ok else "sat", "time": 0.0, "model": why, "backend": "syntactic"}
            continue
        hyps = list(ob.hyps) + list(extra_axioms or [])
        # trivial goals are decided without a solver call
        g = z3.simplify(ob.goal)
        if z3.is_true(g):
            ob.result = {"verdict": "unsat", "time": 0.0, "model": "", "backend": "simplify"}
            continue
        tasks.append((i, to_smt2(hyps, ob.goal, rules), Z3_TIMEOUT_MS, seed))
    if tasks:
        jobs = jobs or min(16, max(1, os.cpu_count() or 1))
        if len(tasks) < 4 or jobs == 1:
            results = [_solve_smt2(t) for t in tasks]
        else:
            with ProcessPoolExecutor(max_workers=jobs) as ex:
                results = list(ex.map(_solve_smt2, tasks, chunksize=max(1, len(tasks) // (jobs * 4))))
        for idx, res, dt, model, backend in results:
            obligations[idx].result = {"verdict": res, "time": dt, "model": model, "backend": backend}
    return obligations
