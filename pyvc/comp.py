"""Comprehensions and generator expressions: lazy element functions over an index, consumed by max / in / list / join ..."""
import ast
import z3
from .sorts import (Int, Bool, Str, Val, SeqV, V, VNONE, vint, vbool, vstr, vref, box, fresh)
from .eval import Unsupported
from .state import feasible


class CompMixin:
    def ev_GeneratorExp(self, e, st):
        return [(st, V("comp", xs=(e, dict(st.env), self.cur_mod, st)))]

    def ev_ListComp(self, e, st):
        return self.comp_to_list(V("comp", xs=(e, dict(st.env), self.cur_mod, st)), st, e)

    def ev_SetComp(self, e, st):
        c = V("comp", xs=(e, dict(st.env), self.cur_mod, st))
        src = self.comp_static(c, st, e)
        if src is not None:
            return [(st, self.new_set(st, src))]
        return [(st, V("compset", xs=c))]

    def ev_DictComp(self, e, st):
        gen = e.generators
        if len(gen) != 1 or gen[0].ifs:
            raise Unsupported(f"{self.where(e)}: dict comprehension shape")
        out = []
        shape = self.dictcomp_copy_shape(e)
        if shape is not None:
            handled = []
            for s, dv in self.ev(gen[0].iter.func.value, st):
                if s.status != "run":
                    handled.append((s, None))
                elif dv.k in ("ref", "val") and dv.cls == "dict":
                    handled.append((s, self.dict_copy(s, dv, deep1=(shape == "deep1"))))
                else:
                    handled = None
                    break
            if handled is not None:
                return handled
        for s, itv in self.ev(gen[0].iter, st):
            if s.status != "run":
                out.append((s, None))
                continue
            src = self.iter_source(itv, s, e)
            if src[0] != "static":
                raise Unsupported(f"{self.where(e)}: dict comprehension over a symbolic iterable")
            pairs = []
            cur = [s]
            saved = dict(s.env)
            states = [(s, [])]
            for x in src[1]:
                nxt = []
                for s2, acc in states:
                    for s3 in self.assign(gen[0].target, x, s2):
                        for s4, (kv, vv) in self.ev_list([e.key, e.value], s3):
                            nxt.append((s4, acc + [(kv, vv)] if s4.status == "run" else acc))
                states = nxt
            for s2, acc in states:
                if s2.status != "run":
                    out.append((s2, None))
                else:
                    for n in [n.id for n in ast.walk(gen[0].target) if isinstance(n, ast.Name)]:
                        if n in saved:
                            s2.env[n] = saved[n]
                        else:
                            s2.env.pop(n, None)
                    out.append((s2, self.new_dict(s2, acc)))
        return out

    @staticmethod
    def dictcomp_copy_shape(e):
        """{k: v for k, v in X.items()} -> 'shallow';  {k: dict(v) for k, v in X.items()} / {k: v.copy() ...} -> 'deep1';  else None"""
        g = e.generators[0]
        it, tg = g.iter, g.target
        if not (isinstance(it, ast.Call) and isinstance(it.func, ast.Attribute) and it.func.attr == "items" and not it.args and not it.keywords):
            return None
        if not (isinstance(tg, ast.Tuple) and len(tg.elts) == 2 and all(isinstance(x, ast.Name) for x in tg.elts)):
            return None
        kn, vn = tg.elts[0].id, tg.elts[1].id
        if not (isinstance(e.key, ast.Name) and e.key.id == kn):
            return None
        v = e.value
        if isinstance(v, ast.Name) and v.id == vn:
            return "shallow"
        if isinstance(v, ast.Call) and isinstance(v.func, ast.Name) and v.func.id == "dict" and len(v.args) == 1 and not v.keywords \
                and isinstance(v.args[0], ast.Name) and v.args[0].id == vn:
            return "deep1"
        if isinstance(v, ast.Call) and isinstance(v.func, ast.Attribute) and v.func.attr == "copy" and not v.args \
                and isinstance(v.func.value, ast.Name) and v.func.value.id == vn:
            return "deep1"
        return None

    def dict_copy(self, st, dv, deep1):
        """a new dict with the keys of dv (same order); values are the same objects (shallow) or, for deep1, *new* dicts — one per key,
        pairwise distinct, allocated by this comprehension — whose contents equal those of the corresponding inner dict at copy time.
        Unboundedly many allocations: the allocation pointer moves to a fresh larger value; the per-key facts are lazy universals over keys."""
        r0 = self.as_ref(dv, st)
        if not deep1:
            r = st.alloc("dict")
            for c in ("dict.keys", "dict.map", "dict.has"):
                st.H[c] = z3.Store(st.comp(c), r, st.read(c, r0))
            return vref(r, cls="dict", elem=dv.elem)
        keys0, map0, has0 = st.read("dict.keys", r0), st.read("dict.map", r0), st.read("dict.has", r0)
        lo = st.alloc_ptr()
        # the inner copies: every dict component is havocked at the locations allocated from here on; older objects keep their contents
        pre = {c: st.comp(c) for c in ("dict.keys", "dict.map", "dict.has")}
        cond = lambda ref, lo=lo: ref < lo       # noqa: E731
        cond.fresh_only = True
        for c in ("dict.keys", "dict.map", "dict.has"):
            st.havoc_comp_except(c, cond, self.component_sort(c))
        st.bump_alloc()
        hi = st.alloc_ptr()
        r = st.alloc("dict")
        inner = z3.Function(fresh("copy_of", Int).decl().name(), Val, Int)
        keyof = z3.Function(fresh("copied_key", Int).decl().name(), Int, Val)
        newmap = fresh("copied_map", z3.ArraySort(Val, Val))
        st.H["dict.keys"] = z3.Store(st.comp("dict.keys"), r, keys0)
        st.H["dict.has"] = z3.Store(st.comp("dict.has"), r, has0)
        st.H["dict.map"] = z3.Store(st.comp("dict.map"), r, newmap)
        post = {c: st.comp(c) for c in ("dict.keys", "dict.map", "dict.has")}
        cls_arr = st.comp("cls")
        from .state import clsid

        def inst(k, inner=inner, keyof=keyof, newmap=newmap, lo=lo, hi=hi, has0=has0, map0=map0, pre=pre, post=post, cls_arr=cls_arr):
            c = inner(k)
            src = Val.r(z3.Select(map0, k))
            facts = [z3.Select(newmap, k) == Val.R(c), c >= lo,
                     z3.Implies(z3.Select(has0, k),
                                z3.And(c < hi, keyof(c) == k, z3.Select(cls_arr, c) == clsid("dict"),
                                       *[z3.Select(post[x], c) == z3.Select(pre[x], src) for x in ("dict.keys", "dict.map", "dict.has")]))]
            return z3.And(*facts)
        st.kuniv.append(inst)
        # every value of the new dict is an object allocated by this comprehension (used by frame reasoning without naming a key)
        fv = self.fresh_values_pred()
        st.assume(fv(newmap))
        st.assume(lo >= __import__("pyvc.state", fromlist=["ALLOC0"]).ALLOC0)
        return vref(r, cls="dict", elem=dv.elem)

    def fresh_values_pred(self):
        """FRESHVALS(map): every reference stored in the map was allocated after the verified function was entered (>= ALLOC0)"""
        from .state import ALLOC0
        return self.rules.forall_pred_array("FRESHVALS", lambda v: z3.Or(z3.Not(Val.is_R(v)), Val.r(v) >= ALLOC0), z3.ArraySort(Val, Val))

    # ---- element access -----------------------------------------------------------------------------------------------
    def comp_parts(self, c):
        e, env, mod, st0 = c.xs
        if len(e.generators) != 1:
            raise Unsupported(f"{self.where(e)}: nested comprehension")
        g = e.generators[0]
        return e, env, mod, g

    def comp_source(self, c, st):
        e, env, mod, g = self.comp_parts(c)
        saved_env, saved_mod = st.env, self.cur_mod
        st.env, self.cur_mod = dict(env), mod
        try:
            res = self.ev(g.iter, st)
            if len(res) != 1 or res[0][0].status != "run":
                raise Unsupported(f"{self.where(e)}: comprehension source forks")
            return self.iter_source(res[0][1], st, e)
        finally:
            st.env, self.cur_mod = saved_env, saved_mod

    def comp_static(self, c, st, node):
        """python list of element values when the source is static and there is no filter that depends on symbols"""
        src = self.comp_source(c, st)
        if src[0] != "static":
            return None
        e, env, mod, g = self.comp_parts(c)
        out = []
        for x in src[1]:
            cond, v = self.comp_elem_for(c, st, x)
            cs = z3.simplify(cond)
            if z3.is_true(cs):
                out.append(v)
            elif z3.is_false(cs):
                continue
            else:
                return None
        return out

    def comp_elem_for(self, c, st, x):
        """(filter condition, element value) for source element x; evaluated purely (spec mode)"""
        e, env, mod, g = self.comp_parts(c)
        saved = (st.env, self.cur_mod, self.spec_mode)
        st.env, self.cur_mod, self.spec_mode = dict(env), mod, True
        try:
            sts = self.assign(g.target, x, st)
            if len(sts) != 1:
                raise Unsupported("comprehension target forks")
            cond = z3.And([self.truth(self.ev1(i, st), st) for i in g.ifs] or [z3.BoolVal(True)])
            elt = e.elt if not isinstance(e, ast.DictComp) else e.key
            v = self.ev1(elt, st)
            return cond, v
        finally:
            st.env, self.cur_mod, self.spec_mode = saved

    def comp_elem_at(self, c, st, j):
        src = self.comp_source(c, st)
        if src[0] == "static":
            raise Unsupported("indexed access into a static comprehension")
        n = z3.Length(src[1]) if src[0] == "seq" else src[1]
        x = src[3](st, j)
        cond, v = self.comp_elem_for(c, st, x)
        return n, cond, v

    def comp_to_list(self, c, st, node):
        items = self.comp_static(c, st, node)
        if items is not None:
            bs = [box(self.materialize(v, st)) for v in items]
            seq = z3.Concat(*[z3.Unit(i) for i in bs]) if len(bs) > 1 else (z3.Unit(bs[0]) if bs else z3.Empty(SeqV))
            r = vref(st.new_list(seq), cls="list")
            r.note = ("static_items", items, seq)
            return [(st, r)]
        # symbolic: a fresh list whose elements are described by a lazy universal
        src = self.comp_source(c, st)
        if src[0] == "static":
            # a static source with a filter that depends on symbols: each element is included under its own condition
            parts = []
            for x in src[1]:
                cond, v = self.comp_elem_for(c, st, x)
                cs = z3.simplify(cond)
                if z3.is_false(cs):
                    continue
                u = z3.Unit(box(self.materialize(v, st)))
                parts.append(u if z3.is_true(cs) else z3.If(cond, u, z3.Empty(SeqV)))
            seq = z3.Concat(*parts) if len(parts) > 1 else (parts[0] if parts else z3.Empty(SeqV))
            return [(st, vref(st.new_list(seq), cls="list"))]
        e, env, mod, g = self.comp_parts(c)
        raising = self.comp_raising_paths(c, st, src, node)
        if raising:
            return raising + self._comp_to_list_sym(c, st, src, node)
        return self._comp_to_list_sym(c, st, src, node)

    def comp_raising_paths(self, c, st, src, node):
        """exceptions inside a comprehension over a symbolic source: evaluate the element expression once, in code mode, for a generic
        index; every raising path of that evaluation is a raising path of the comprehension"""
        if self.spec_mode:
            return []
        e, env, mod, g = self.comp_parts(c)
        n = z3.Length(src[1]) if src[0] == "seq" else src[1]
        tmp = st.fork()
        j = fresh("_comp_j")
        tmp.assume(z3.And(j >= 0, j < n))
        if not feasible(tmp.pc):
            return []
        saved = (self.cur_mod,)
        caller_env = tmp.env
        tmp.env = dict(env)
        self.cur_mod = mod
        out = []
        try:
            for s1 in self.assign(g.target, src[3](tmp, j), tmp):
                states = [s1]
                for cond in g.ifs:
                    nxt = []
                    for s2 in states:
                        for s3, b in self.ev_truth(cond, s2):
                            if b is None:
                                out.append(s3)
                            elif b:
                                nxt.append(s3)
                    states = nxt
                for s2 in states:
                    for s3, v in self.ev(e.elt if not isinstance(e, ast.DictComp) else e.key, s2):
                        if s3.status == "raise":
                            out.append(s3)
        finally:
            self.cur_mod = saved[0]
        res = []
        for s3 in out:
            if s3.status == "raise":
                s3.env = dict(caller_env)
                res.append((s3, None))
        return res

    def _comp_to_list_sym(self, c, st, src, node):
        e, env, mod, g = self.comp_parts(c)
        if g.ifs:
            res = fresh("filtered", SeqV)
            return [(st, vref(st.new_list(res), cls="list"))]
        n = z3.Length(src[1]) if src[0] == "seq" else src[1]
        res = fresh("mapped", SeqV)
        st.assume(z3.Length(res) == n)
        snap = st.fork()

        def inst(t, snap=snap):
            tmp = snap.fork()
            _, cond, v = self.comp_elem_at(c, tmp, t)
            facts = tmp.pc[len(snap.pc):]
            for k, vv in tmp.H.items():
                snap.H.setdefault(k, vv)
            b = res[t] == box(self.materialize(v, tmp))
            return z3.Implies(z3.And(t >= 0, t < n), z3.And(facts + [b]))
        st.univ.append(inst)
        return [(st, vref(st.new_list(res), cls="list"))]

    # ---- consumers ----------------------------------------------------------------------------------------------------
    def bi_max(self, args, kw, st, node):
        v = args[0]
        if v.k != "comp":
            src = self.iter_source(v, st, node)
            if src[0] == "static" and all(x.k in ("int", "bool") for x in src[1]):
                t = self.as_int(src[1][0])
                for x in src[1][1:]:
                    t = z3.If(self.as_int(x) > t, self.as_int(x), t)
                return [(st, vint(t))]
            if src[0] == "seq" and len(args) == 1:
                # max over a sequence of integers (the keys of an int-keyed dict, a list of ints): an index attaining it, nothing above it
                seq = src[1]
                n = z3.Length(seq)
                out = []
                for s, nonempty in self.branch(st, n > 0, "max() of non-empty"):
                    if not nonempty:
                        if "default" in kw:
                            out.append((s, kw["default"]))
                        else:
                            out.append((self.raise_exc(s, "ValueError"), None))
                        continue
                    k = fresh("argmax")
                    s.assume(z3.And(k >= 0, k < n))
                    s.idx.append(k)
                    if not feasible(s.pc + [z3.Not(Val.is_I(seq[k]))]):
                        pass
                    else:
                        s.assume(Val.is_I(seq[k]))          # elements of other kinds: outside this model (ordering of mixed values)
                        s.ghost = dict(s.ghost, unannotated_loop=True)
                    m = Val.i(seq[k])
                    s.univ.append(lambda t, seq=seq, n=n, m=m: z3.Implies(z3.And(t >= 0, t < n), z3.And(Val.is_I(seq[t]), Val.i(seq[t]) <= m)))
                    if v.k in ("ref", "val") and v.cls == "dict":
                        # as a key-indexed fact too: every key present is an integer not above the maximum
                        r = self.as_ref(v, s)
                        has = s.read("dict.has", r)
                        s.kuniv.append(lambda key, has=has, m=m: z3.Implies(z3.Select(has, key), z3.And(Val.is_I(key), Val.i(key) <= m)))
                        s.assume(z3.Select(has, Val.I(m)))
                    out.append((s, vint(m)))
                return out
            raise Unsupported(f"{self.where(node)}: max() of {v!r}")
        src = self.comp_source(v, st)
        if src[0] == "static" or self.comp_parts(v)[3].ifs:
            raise Unsupported(f"{self.where(node)}: max() over a static or filtered comprehension")
        n = z3.Length(src[1]) if src[0] == "seq" else src[1]
        out = []
        for s, nonempty in self.branch(st, n > 0, "max() of non-empty"):
            if not nonempty:
                if "default" in kw:
                    out.append((s, kw["default"]))          # max(iterable, default=d): d for an empty iterable
                else:
                    out.append((self.raise_exc(s, "ValueError"), None))
                continue
            k = fresh("argmax")
            s.assume(z3.And(k >= 0, k < n))
            s.idx.append(k)
            _, _, m = self.comp_elem_at(v, s, k)
            snap = s.fork()

            def inst(t, snap=snap, m=m):
                tmp = snap.fork()
                _, _, x = self.comp_elem_at(v, tmp, t)
                saved = self.spec_mode
                self.spec_mode = True
                try:
                    res = self.compare(ast.Gt(), x, m, tmp, node)
                finally:
                    self.spec_mode = saved
                if len(res) != 1:
                    raise Unsupported("max(): comparison forks")
                facts = tmp.pc[len(snap.pc):]
                for kk, vv in tmp.H.items():
                    snap.H.setdefault(kk, vv)
                return z3.Implies(z3.And(t >= 0, t < n), z3.And(facts + [z3.Not(res[0][1])]))
            s.univ.append(inst)
            out.append((s, m))
        return out

    def comp_contains(self, needle, c, st, node):
        """`needle in (elt for x in src)`: exists an index with elt == needle"""
        items = self.comp_static(c, st, node)
        if items is not None:
            return z3.Or([self.py_eq(needle, x, st) for x in items] or [z3.BoolVal(False)])
        src = self.comp_source(c, st)
        n = z3.Length(src[1]) if src[0] == "seq" else src[1]
        b = fresh("in_comp", Bool)
        # b -> witness;  not b -> universal non-membership
        k = fresh("wit")
        st.idx.append(k)
        tmp = st.fork()
        _, cond, x = self.comp_elem_at(c, tmp, k)
        facts = tmp.pc[len(st.pc):]
        for kk, vv in tmp.H.items():
            st.H.setdefault(kk, vv)
        st.assume(z3.Implies(b, z3.And([z3.And(k >= 0, k < n), cond, self.py_eq(needle, x, tmp)] + facts)))
        snap = st.fork()

        def inst(t, snap=snap):
            tmp2 = snap.fork()
            _, cond2, x2 = self.comp_elem_at(c, tmp2, t)
            facts2 = tmp2.pc[len(snap.pc):]
            for kk, vv in tmp2.H.items():
                snap.H.setdefault(kk, vv)
            return z3.Implies(z3.And(z3.Not(b), t >= 0, t < n), z3.And(facts2 + [z3.Not(z3.And(cond2, self.py_eq(needle, x2, tmp2)))]))
        st.univ.append(inst)
        return b
