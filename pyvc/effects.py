"""Effect clauses (DESIGN S9): for every function of the working tree, the set of *primitive effects* it can perform — calls of functions
outside the repository, classified by an effect row — and the repository functions it can call (closed world: a method call on a receiver
of unknown class resolves to every repository class that defines a method of that name; properties and dunder protocols included).

A function's effects clause is  own primitive effects  ∪  the clauses of its callees; a caller is checked against its callees' clauses
(function by function), so an entry point's clause is the union over its call closure.  Everything is recomputed from the source on every
run; nothing is executed.  What the resolution cannot classify is reported as such (`dynamic-call`, `unknown-external`, `unknown-method`)
and never silently dropped."""
import ast
import builtins

# methods of builtin container / str / bytes / file-like values that have no effect beyond their receiver (a stream receiver: read(arg)/seek(arg))
BUILTIN_METHODS = {
    "append", "extend", "insert", "pop", "remove", "clear", "index", "count", "sort", "reverse", "copy", "get", "items", "keys", "values",
    "update", "setdefault", "add", "discard", "union", "difference", "intersection", "issubset", "issuperset", "split", "rsplit", "join", "strip",
    "lstrip", "rstrip", "startswith", "endswith", "replace", "encode", "decode", "format", "lower", "upper", "find", "rfind", "isdigit",
    "splitlines", "partition", "rpartition", "title", "capitalize", "zfill", "ljust", "rjust", "hex", "to_bytes", "from_bytes", "bit_length",
    "groups", "group", "isatty", "__contains__",
}
STREAM_METHODS = {"read": "read(arg)", "readline": "read(arg)", "seek": "seek(arg)", "tell": None, "seekable": None, "close": "close(arg)",
                  "write": "write(arg)", "getvalue": None, "flush": None, "getbuffer": None}


class Site:
    def __init__(self, fn, kind, name, line, effects):
        self.fn, self.kind, self.name, self.line, self.effects = fn, kind, name, line, tuple(effects)

    def __repr__(self):
        return f"{self.fn}:{self.line}:{self.kind}:{self.name}:{','.join(self.effects)}"


class EffectSystem:
    def __init__(self, repo, rows, pure_prefixes=("ast.", "typing.", "enum.", "abc.", "collections."), prefix_rows=None, extra_methods=None):
        self.repo = repo
        self.rows = dict(rows)
        self.pure_prefixes = pure_prefixes
        self.prefix_rows = dict(prefix_rows or {})
        self.extra_methods = dict(extra_methods or {})      # method name -> effect row, for receivers of external classes
        self.real = [m for m in repo.trees if m not in getattr(repo, "virtual", set())]
        # method name -> [qualified function], property name -> [...]
        self.by_method, self.props = {}, {}
        for q, fn in repo.qual.items():
            mod = q.split(".")[0]
            if mod not in self.real or ".<locals>" in q or "@overload" in q:
                continue
            parts = q.split(".")
            if len(parts) >= 3:          # module.Class.method
                name = parts[-1] if parts[-1] != "setter" else parts[-2]
                decos = [ast.unparse(d) for d in fn.decorator_list]
                if "property" in decos or any(d.endswith(".setter") or d.endswith(".getter") for d in decos):
                    self.props.setdefault(name, []).append(q)
                else:
                    self.by_method.setdefault(name, []).append(q)
        # class-level aliases  `insert_python_eval = insert_python`
        for cq, cdef in repo.classes_src.items():
            if cq.split(".")[0] not in self.real:
                continue
            for n in cdef.body:
                if isinstance(n, ast.Assign) and len(n.targets) == 1 and isinstance(n.targets[0], ast.Name) and isinstance(n.value, ast.Name) \
                        and f"{cq}.{n.value.id}" in repo.qual:
                    self.by_method.setdefault(n.targets[0].id, []).append(f"{cq}.{n.value.id}")
        # ast.NodeVisitor subclasses: visit() dispatches on the class name of fickling's own AST nodes to the visit_* methods
        self.visitors = [cq for cq, cdef in repo.classes_src.items() if cq.split(".")[0] in self.real and
                         any("NodeVisitor" in ast.unparse(b) or "NodeTransformer" in ast.unparse(b) for b in cdef.bases)]
        self._cache = {}

    # ---- name resolution ---------------------------------------------------------------------------------------------------------------
    def _locals(self, fn):
        names = {a.arg for a in fn.args.args + fn.args.kwonlyargs + fn.args.posonlyargs}
        if fn.args.vararg:
            names.add(fn.args.vararg.arg)
        if fn.args.kwarg:
            names.add(fn.args.kwarg.arg)
        assigns = {}
        for n in self._walk_own(fn):
            if isinstance(n, ast.Name) and isinstance(n.ctx, ast.Store):
                names.add(n.id)
            if isinstance(n, ast.Assign) and len(n.targets) == 1 and isinstance(n.targets[0], ast.Name):
                assigns.setdefault(n.targets[0].id, []).append(n.value)
            if isinstance(n, (ast.FunctionDef, ast.ClassDef)) and n is not fn:
                names.add(n.name)
        return names, assigns

    @staticmethod
    def _walk_own(fn):
        """nodes of fn's body, nested function bodies included (their effects happen when the closure runs: counted for the definer)"""
        return ast.walk(fn)

    def _enclosing(self, qual):
        if ".<locals>." in qual:
            outer = qual.rsplit(".<locals>.", 1)[0]
            return outer, self.repo.qual.get(outer)
        return None, None

    def resolve_name(self, qual, fn, name, locals_, assigns, depth=0):
        """-> list of ('fn', q) / ('ext', dotted) / ('dyn', why)"""
        mod = qual.split(".")[0]
        if name in locals_:
            vals = assigns.get(name, [])
            nested = [n for n in ast.walk(fn) if isinstance(n, (ast.FunctionDef,)) and n is not fn and n.name == name]
            if nested:
                return []            # a nested def: its body is scanned with the definer
            if len(vals) == 1 and depth < 3:
                r = self.resolve_expr(qual, fn, vals[0], locals_, assigns, depth + 1)
                if r is not None:
                    return r
            r = self.class_valued_local(qual, fn, name)
            if r:
                return r
            return [("dyn", f"call of the local value `{name}`")]
        outer_q, outer_fn = self._enclosing(qual)
        if outer_fn is not None:
            ol, oa = self._locals(outer_fn)
            if name in ol:
                return self.resolve_name(outer_q, outer_fn, name, ol, oa, depth + 1)
        if f"{mod}.{name}" in self.repo.qual:
            return [("fn", f"{mod}.{name}")]
        if f"{mod}.{name}" in self.repo.classes_src:
            return self.ctor(f"{mod}.{name}")
        imp = self.repo.imports.get(mod, {}).get(name)
        if imp:
            return self.resolve_dotted(imp)
        if name in self.repo.globals_src.get(mod, {}):
            r = self.resolve_expr(qual, fn, self.repo.globals_src[mod][name], set(), {}, depth + 1)
            return r if r is not None else [("dyn", f"call of the module global `{name}`")]
        if hasattr(builtins, name):
            b = getattr(builtins, name)
            if isinstance(b, type) and (issubclass(b, BaseException) or b is object):
                return [("ext", "<builtin-exception-or-object>")]
            return [("ext", name)]
        return [("dyn", f"call of the unresolved name `{name}`")]

    def class_valued_local(self, qual, fn, name):
        """a local that holds a repository class: the `cls` of a classmethod, or a loop variable ranging over a class-level registry
        (`for sub, _ in sorted(Base.Registry.items())`): calling it constructs the class or one of its subclasses"""
        mod = qual.split(".")[0]
        parts = qual.split(".")
        decos = [ast.unparse(d) for d in fn.decorator_list]
        if name == "cls" and len(parts) >= 3 and ("classmethod" in decos or parts[-1] in ("__init_subclass__", "__new__")):
            own = ".".join(parts[:-1])
            if self.repo.has_class(own):
                out = []
                for c in self.repo.subclasses(own):
                    for r in self.ctor(c):
                        if r not in out:
                            out.append(r)
                return out
        for n in ast.walk(fn):
            if isinstance(n, (ast.For, ast.comprehension)) and any(isinstance(x, ast.Name) and x.id == name for x in ast.walk(n.target)):
                for x in ast.walk(n.iter):
                    if isinstance(x, ast.Attribute) and isinstance(x.value, ast.Name) and f"{mod}.{x.value.id}" in self.repo.classes_src \
                            and self.repo.has_class(f"{mod}.{x.value.id}"):
                        out = []
                        for c in self.repo.subclasses(f"{mod}.{x.value.id}"):
                            for r in self.ctor(c):
                                if r not in out:
                                    out.append(r)
                        return out
        return None

    def resolve_dotted(self, dotted):
        if dotted.startswith("fickling."):
            rest = dotted[len("fickling."):]
            if rest in self.repo.qual:
                return [("fn", rest)]
            if rest in self.repo.classes_src:
                return self.ctor(rest)
            parts = rest.split(".")
            if parts[0] in self.repo.trees and len(parts) == 1:
                return [("module", parts[0])]
            # a name re-exported by a package module
            for m in self.real:
                if f"{m}.{parts[-1]}" in self.repo.qual:
                    return [("fn", f"{m}.{parts[-1]}")]
                if f"{m}.{parts[-1]}" in self.repo.classes_src:
                    return self.ctor(f"{m}.{parts[-1]}")
            return [("ext", dotted)]
        return [("ext", dotted)]

    def ctor(self, cls):
        out = []
        names = self.repo.subclasses(cls) if self.repo.has_class(cls) else [cls]
        for c in [cls] + [x for x in names if x != cls][:0]:
            for m in ("__init__", "__new__", "__post_init__"):
                if self.repo.has_class(c):
                    a = self.repo.cls(c)["attrs"].get(m)
                    if a is not None and a.get("file") and self.repo.mod_of_file(a["file"]) in self.real:
                        try:
                            mod, f = self.repo.fn_from_info(a)
                            out.append(("fn", self.repo.parents[id(f)]))
                        except Exception:  # noqa
                            pass
                elif f"{c}.{m}" in self.repo.qual:
                    out.append(("fn", f"{c}.{m}"))
        return out or [("ext", "<builtin-exception-or-object>")]

    def resolve_expr(self, qual, fn, e, locals_, assigns, depth):
        """what calling the value of expression e can call"""
        if isinstance(e, ast.Name):
            return self.resolve_name(qual, fn, e.id, locals_, assigns, depth)
        if isinstance(e, ast.Attribute):
            return self.resolve_attr_call(qual, fn, e, locals_, assigns)
        if isinstance(e, ast.Lambda):
            return []
        if isinstance(e, ast.Subscript) and isinstance(e.value, ast.Name) and e.value.id not in locals_ \
                and isinstance(self.repo.live.get(e.value.id), dict):
            # a class registry filled by __init_subclass__ (live import): calling an entry constructs one of the registered repository classes
            out = []
            for c in sorted(set(self.repo.live[e.value.id].values())):
                if isinstance(c, str) and self.repo.has_class(c):
                    for r in self.ctor(c):
                        if r not in out:
                            out.append(r)
            if out:
                return out
        return None

    def root_of(self, e):
        parts = []
        while isinstance(e, ast.Attribute):
            parts.append(e.attr)
            e = e.value
        if isinstance(e, ast.Name):
            return e.id, list(reversed(parts))
        return None, list(reversed(parts))

    def resolve_attr_call(self, qual, fn, func, locals_, assigns):
        mod = qual.split(".")[0]
        root, parts = self.root_of(func)
        m = func.attr
        if root is not None and root not in locals_:
            imp = self.repo.imports.get(mod, {}).get(root)
            if imp is not None and not (f"{mod}.{root}" in self.repo.classes_src):
                r = self.resolve_dotted(imp)
                if r and r[0][0] == "module":
                    q = r[0][1] + "." + ".".join(parts)
                    if q in self.repo.qual:
                        return [("fn", q)]
                    if q in self.repo.classes_src:
                        return self.ctor(q)
                    cls = r[0][1] + "." + ".".join(parts[:-1])
                    if cls in self.repo.classes_src:
                        return self.method_on(cls, m)
                elif r and r[0][0] == "ext":
                    return [("ext", r[0][1] + "." + ".".join(parts))]
                elif r and r[0][0] == "fn" and len(parts) == 1:
                    # an imported repository class: Class.method(...)
                    pass
                if imp.startswith("fickling."):
                    rest = imp[len("fickling."):]
                    for mm in self.real:
                        if f"{mm}.{rest.split('.')[-1]}" in self.repo.classes_src:
                            return self.method_on(f"{mm}.{rest.split('.')[-1]}", m)
            if f"{mod}.{root}" in self.repo.classes_src and len(parts) == 1:
                return self.method_on(f"{mod}.{root}", m)
        if root is not None and root in locals_ and not parts[:-1]:
            vals = assigns.get(root, [])
            if len(vals) == 1 and isinstance(vals[0], ast.Call):
                r = self.resolve_expr(qual, fn, vals[0].func, locals_, assigns, 1)
                if r and len(r) == 1 and r[0][0] == "ext" and not r[0][1].startswith("<") and "." in r[0][1]:
                    return [("ext", f"{r[0][1]}.{m}")]          # an object made by an external constructor / factory
                if r and len(r) == 1 and r[0][0] == "ext-method":
                    return [("ext", f"{r[0][1]}.{m}")]
        if m in ("visit", "generic_visit") and self.visitors:
            out = []
            for cq in self.visitors:
                out += [("fn", q) for q in self.repo.qual if q.startswith(cq + ".visit_") or q == cq + ".generic_visit"]
            return out + [("ext", "ast.NodeVisitor.visit")]
        # a receiver of unknown class: closed world by method name, plus the builtin-type methods of that name
        out = [("fn", q) for q in self.by_method.get(m, [])]
        if m in STREAM_METHODS:
            out.append(("ext", f"<stream>.{m}"))
        elif m in BUILTIN_METHODS:
            out.append(("ext", f"<builtin-type>.{m}"))
        elif m in self.extra_methods:
            out.append(("ext", f"<external-object>.{m}"))
        if not out:
            out.append(("unknown-method", m))
        return out

    def method_on(self, cls, m):
        out = []
        if self.repo.has_class(cls):
            for c in self.repo.subclasses(cls) + [k for k in self.repo.cls(cls)["mro"] if self.repo.has_class(k)]:
                q = f"{c}.{m}"
                if q in self.repo.qual and ("fn", q) not in out:
                    out.append(("fn", q))
        return out or [("fn", q) for q in self.by_method.get(m, [])] or [("unknown-method", f"{cls}.{m}")]

    # ---- per-function clause ------------------------------------------------------------------------------------------------------------
    def row(self, name):
        if name in self.rows:
            return self.rows[name]
        if name.startswith("<builtin-type>.") or name == "<builtin-exception-or-object>":
            return ()
        if name.startswith("<external-object>."):
            return self.extra_methods[name.split(".", 1)[1]]
        if name.startswith("<stream>."):
            e = STREAM_METHODS[name.split(".", 1)[1]]
            return (e,) if e else ()
        for p, r in self.prefix_rows.items():
            if name == p.rstrip(".") or name.startswith(p):
                return r
        for p in self.pure_prefixes:
            if name.startswith(p):
                return ()
        return None

    def own(self, qual):
        """(primitive effect sites, callee quals) of one function"""
        if qual in self._cache:
            return self._cache[qual]
        fn = self.repo.qual[qual]
        locals_, assigns = self._locals(fn)
        sites, callees = [], []

        def add(res, line, what):
            for r in res:
                if r[0] == "fn":
                    if r[1] not in callees:
                        callees.append(r[1])
                elif r[0] == "ext":
                    row = self.row(r[1])
                    if row is None:
                        sites.append(Site(qual, "unknown-external", r[1], line, ("unknown-external",)))
                    else:
                        sites.append(Site(qual, "external", r[1], line, row))
                elif r[0] == "dyn":
                    sites.append(Site(qual, "dynamic-call", r[1], line, ("dynamic-call",)))
                elif r[0] == "unknown-method":
                    sites.append(Site(qual, "unknown-method", r[1], line, ("unknown-method",)))
        for n in ast.walk(fn):
            if isinstance(n, ast.Call):
                r = self.resolve_expr(qual, fn, n.func, locals_, assigns, 0)
                if r is None:
                    r = [("dyn", f"call of the computed value `{ast.unparse(n.func)[:60]}`")]
                if isinstance(n.func, ast.Name) and n.func.id == "open" and "open" not in locals_:
                    r = [("ext", self.classify_open(fn, n))]
                if isinstance(n.func, ast.Name) and n.func.id in ("getattr", "setattr", "hasattr", "delattr") and n.func.id not in locals_:
                    lit = len(n.args) > 1 and isinstance(n.args[1], ast.Constant) and isinstance(n.args[1].value, str)
                    r = [("ext", f"{n.func.id}[{'literal-name' if lit else 'computed-name'}]")]
                add(r, n.lineno, n)
                if isinstance(n.func, ast.Attribute) and n.func.attr in ("format", "format_map") and not \
                        (isinstance(n.func.value, ast.Constant) and isinstance(n.func.value.value, str)) and \
                        any(x[0] == "ext" and x[1].startswith("<builtin-type>.") for x in (r or [])):
                    # str.format on a template that is not a literal: replacement fields walk attribute / index chains chosen by the template
                    sites.append(Site(qual, "external", "str.format[computed-template]", n.lineno, ("resolve-attr",)))
                cod = self.codec_argument(n, r)
                if cod is not None:
                    sites.append(Site(qual, "external", f"codec-lookup[{cod}]", n.lineno, () if cod == "literal-name" else ("import(computed-codec)",)))
            elif isinstance(n, ast.Attribute) and isinstance(n.ctx, ast.Load) and n.attr in self.props:
                for q in self.props[n.attr]:
                    if q not in callees and not q.endswith(".setter"):
                        callees.append(q)
            elif isinstance(n, ast.Attribute) and isinstance(n.ctx, ast.Store) and n.attr in self.props:
                for q in self.props[n.attr]:
                    if q.endswith(".setter") and q not in callees:
                        callees.append(q)
            elif isinstance(n, (ast.Import, ast.ImportFrom)):
                mods = [a.name for a in n.names] if isinstance(n, ast.Import) else [n.module or "."]
                sites.append(Site(qual, "external", "import " + ",".join(mods), n.lineno, ("import(static)",)))
        self._cache[qual] = (sites, callees)
        return sites, callees

    @staticmethod
    def codec_argument(call, resolved):
        """a call that looks a codec up by name — x.encode(c) / x.decode(c) on a builtin receiver, str / bytes / bytearray(x, c), codecs.*(x, c),
        any encoding= keyword: 'literal-name' / 'computed-name' (a codec lookup imports encodings.<name> and runs registered search
        functions and the codec found: with a computed name that is an import chosen by data), None when the call looks nothing up"""
        def lit(e):
            return e is None or (isinstance(e, ast.Constant) and isinstance(e.value, str))
        kw = {k.arg: k.value for k in call.keywords if k.arg}
        f = call.func
        names = [r[1] for r in (resolved or []) if r[0] == "ext"]
        arg = None
        looked = False
        if isinstance(f, ast.Attribute) and f.attr in ("encode", "decode") and any(x.startswith("<builtin-type>.") for x in names):
            looked = True
            arg = call.args[0] if call.args else kw.get("encoding")
            if any(isinstance(a, ast.Starred) for a in call.args) or any(k.arg is None for k in call.keywords):
                return "computed-name"
        elif isinstance(f, ast.Name) and f.id in ("str", "bytes", "bytearray") and (len(call.args) >= 2 or "encoding" in kw):
            looked = True
            arg = call.args[1] if len(call.args) >= 2 else kw.get("encoding")
        elif any(x.split(".")[0] in ("codecs", "_codecs") for x in names):
            looked = True
            arg = call.args[1] if len(call.args) >= 2 else (kw.get("encoding") if "encoding" in kw else (call.args[0] if len(call.args) == 1 and
                                                                                                          names[0].split(".")[-1] in ("lookup", "getencoder", "getdecoder", "getreader", "getwriter", "getincrementalencoder", "getincrementaldecoder") else None))
        elif "encoding" in kw:
            looked = True
            arg = kw["encoding"]
        if not looked:
            return None
        return "literal-name" if lit(arg) else "computed-name"

    @staticmethod
    def classify_open(fn, call):
        """open(path, mode): which path (a parameter of the function / a command-line argument / something computed) and which mode"""
        params = {a.arg for a in fn.args.args + fn.args.kwonlyargs}
        path = call.args[0] if call.args else None
        mode = "r"
        if len(call.args) > 1 and isinstance(call.args[1], ast.Constant):
            mode = call.args[1].value
        for k in call.keywords:
            if k.arg == "mode" and isinstance(k.value, ast.Constant):
                mode = k.value.value
        kind = "write" if any(c in str(mode) for c in "wax+") else "read"
        if isinstance(path, ast.Name) and path.id in params:
            who = "caller-path"
        elif isinstance(path, ast.Attribute) and isinstance(path.value, ast.Name) and path.value.id == "args":
            who = "command-line-path"
        else:
            who = "computed-path"
        return f"open[{kind},{who}]"

    def closure(self, roots):
        """-> (functions reachable, {function: [Site]})"""
        seen, todo, sites = [], list(roots), {}
        while todo:
            q = todo.pop()
            if q in seen or q not in self.repo.qual:
                continue
            seen.append(q)
            s, cs = self.own(q)
            sites[q] = s
            todo += [c for c in cs if c not in seen]
        return seen, sites
