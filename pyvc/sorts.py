"""pyvc sorts and typed values.

Every Python value the verifier reasons about is a *typed z3 term*: a python-side tag
(`V.k`) that says how to read the term, and the term itself.  Mutable objects live behind
integer references in a component heap (one z3 array per field).  List / tuple / dict
elements are boxed into the flat datatype `Val` (no nesting: containers are references).
"""
import re
import z3

# ---- string literals ---------------------------------------------------------------------------------------------------------
# z3 reads escape sequences inside string literals (`\\u005c`, `\\x41`, `\\u{..}`): a Python literal that *contains* such text (pickle's
# own "\\u005c" escapes, for one) would silently denote a different string.  Every literal is therefore built with each backslash and
# each non-printable / non-ASCII character written as `\\u{hex}`, and read back through the inverse.
_z3_StringVal = z3.StringVal
_z3_as_string = z3.SeqRef.as_string


def _lit_escape(s):
    return "".join(c if (32 <= ord(c) < 127 and c != "\\") else "\\u{%x}" % ord(c) for c in s)


def _lit_unescape(s):
    return re.sub(r"\\u\{([0-9a-fA-F]+)\}", lambda m: chr(int(m.group(1), 16)), s)


def _safe_StringVal(s, ctx=None):
    return _z3_StringVal(_lit_escape(s), ctx)


def _safe_as_string(self):
    r = _z3_as_string(self)
    return _lit_unescape(r) if self.is_string_value() else r


z3.StringVal = _safe_StringVal
z3.SeqRef.as_string = _safe_as_string
try:
    import z3.z3 as _z3mod
    _z3mod.StringVal = _safe_StringVal
except Exception:  # noqa
    pass

BV8 = z3.BitVecSort(8)
Bytes = z3.SeqSort(BV8)
Int = z3.IntSort()
Bool = z3.BoolSort()
Str = z3.StringSort()

_Val = z3.Datatype("Val")
_Val.declare("I", ("i", Int))        # int
_Val.declare("B", ("b", Bool))       # bool
_Val.declare("S", ("s", Str))        # str
_Val.declare("Y", ("y", Bytes))      # bytes
_Val.declare("R", ("r", Int))        # reference to a heap object (list, tuple, dict, instance, function, class, node)
_Val.declare("N")                    # None
_Val.declare("F", ("f", Int))        # float (opaque id)
Val = _Val.create()
SeqV = z3.SeqSort(Val)
ArrIV = z3.ArraySort(Int, Val)

NONE_REF = -1   # value of an optional reference field holding None

_cnt = [0]


def fresh(name, sort=Int):
    _cnt[0] += 1
    return z3.Const(f"{name}!{_cnt[0]}", sort)


class V:
    """typed value.  k in: int bool str bytes none ref float val tuple cls func module opaque"""
    __slots__ = ("k", "t", "cls", "xs", "elem", "note")

    def __init__(self, k, t=None, cls=None, xs=None, elem=None, note=None):
        self.k, self.t, self.cls, self.xs, self.elem, self.note = k, t, cls, xs, elem, note

    def __repr__(self):
        if self.k == "tuple":
            return f"V(tuple,{self.xs})"
        return f"V({self.k}{':' + str(self.cls) if self.cls else ''},{self.t})"


def vint(x):
    return V("int", z3.IntVal(x) if isinstance(x, int) else x)


def vbool(x):
    return V("bool", z3.BoolVal(x) if isinstance(x, bool) else x)


def vstr(x):
    return V("str", z3.StringVal(x) if isinstance(x, str) else x)


def bytes_lit(b):
    if len(b) == 0:
        return z3.Empty(Bytes)
    us = [z3.Unit(z3.BitVecVal(x, 8)) for x in b]
    return us[0] if len(us) == 1 else z3.Concat(*us)


def vbytes(x):
    return V("bytes", bytes_lit(x) if isinstance(x, (bytes, bytearray)) else x)


VNONE = V("none", None)


def vref(t, cls=None, elem=None):
    return V("ref", z3.IntVal(t) if isinstance(t, int) else t, cls=cls, elem=elem)


def box(v):
    """V -> Val term"""
    k = v.k
    if k == "val":
        return v.t
    if k == "int":
        return Val.I(v.t)
    if k == "bool":
        return Val.B(v.t)
    if k == "str":
        return Val.S(v.t)
    if k == "bytes":
        return Val.Y(v.t)
    if k == "none":
        return Val.N
    if k == "float":
        return Val.F(v.t)
    if k in ("ref", "func", "cls", "module", "closure"):
        return Val.R(v.t)
    if k == "slice":
        return Val.N          # slice objects are never stored; boxed only when logged
    raise TypeError(f"cannot box {v!r}")


def sort_of_type(ty):
    """z3 sort used to store a value of declared type `ty` in a heap component"""
    ty = ty.strip()
    if ty == "int":
        return Int
    if ty == "bool":
        return Bool
    if ty == "str":
        return Str
    if ty == "bytes":
        return Bytes
    if ty in ("val",) or "|" in ty:
        return Val
    return Val  # floats, references, optional references, unions: boxed


def is_ref_type(ty):
    return ty not in ("int", "bool", "str", "bytes", "val", "float", "none") and "|" not in ty


def split_type(ty):
    """'list[Opcode]' -> ('list', 'Opcode');  'Stack?' -> ('Stack', None) with optional flag handled by caller"""
    ty = ty.strip()
    if "[" in ty and ty.endswith("]"):
        i = ty.index("[")
        return ty[:i], ty[i + 1:-1]
    return ty, None
