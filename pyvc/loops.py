"""Loops: unrolled when the iterated value is a static literal, otherwise cut at the invariant given in the sidecar."""
import ast
import z3
from .sorts import (Int, Bool, Str, Val, SeqV, V, VNONE, vint, vbool, vref, box, fresh)
from .state import feasible, Obligation
from .eval import Unsupported
from .stmts import assigned_names


class LoopMixin:
    def loop_spec(self, node, st=None, body=None, src=None):
        """sidecar loop spec for this loop (keyed by ordinal within the function under verification).
        A loop the sidecar does not know (new code) gets the trivial invariant with an inferred frame; every obligation generated
        after it is marked `unannotated_loop`, so that a failure there is reported as a violation only when it replays on the real code"""
        ordn = self.loop_ordinals.get(id(node))
        spec = (self.cur_contract.loops if self.cur_contract else {}).get(ordn)
        if spec is not None and spec.get("modifies") == "infer" and st is not None:
            # the sidecar gives the invariant, the frame is every heap component a dry run of the body writes
            spec = dict(spec, modifies=self.infer_loop_spec(node, st, body, src)["modifies"])
        if spec is None and st is not None:
            spec = self.infer_loop_spec(node, st, body, src)
            if self.cur_contract is not None and "inferred-loop-frames" in (self.cur_contract.props or ()):
                # the contract asks for inferred frames (trivial invariant, every component the body writes havocked): obligations stay strong —
                # what is proved after such a cut is proved; what fails is reported as it stands
                return ordn, spec
            self.unannotated_loops.append((self.cur_fn, ordn, getattr(node, "lineno", 0)))
            st.ghost = dict(st.ghost, unannotated_loop=True)
        return ordn, spec

    def infer_loop_spec(self, node, st, body, src):
        """dry-run the body once from the current state to learn which heap components it writes; havoc those wholesale"""
        probe = st.fork()
        n0 = len(probe.writes)
        saved_obs, saved_calls = self.obligations, list(self.calls_seen)
        self.obligations = []
        comps = set()
        try:
            states = [probe]
            if isinstance(node, ast.For) and src is not None:
                i = fresh("_probe_i")
                states = self.assign(node.target, src[3](probe, i), probe)
            elif isinstance(node, ast.While):
                states = [s2 for s2, b in self.ev_truth(node.test, probe) if b]
            tags = {}
            for r in self.exec_block(body, states):
                for w in r.writes[n0:]:
                    if w[0] not in ("cls", "list.nodeowned"):
                        comps.add(w[0])
                        # a conditional havoc (callee frame "@comp:nodeowned" / ":fresh") is kept as such; any other write makes it wholesale
                        tag = getattr(w[3], "tag", None) if (w[1] is None and w[3] is not None) else ("fresh" if (w[1] is not None and self.is_fresh_ref(w[1], probe, getattr(self, "cur_entry", None) or st)) else None)
                        tags.setdefault(w[0], set()).add(tag)
        finally:
            self.obligations = saved_obs
            self.calls_seen = saved_calls
        mods = []
        for c in sorted(comps):
            t = tags.get(c, {None})
            t = t - {"fresh"} if len(t) > 1 else t          # writes to objects allocated in the body do not widen a conditional frame
            mods.append("@" + c + (":" + next(iter(t)) if len(t) == 1 and None not in t else ""))
        return dict(invariant=[], modifies=mods, auto=True)

    def is_fresh_ref(self, ref, probe, head):
        """syntactic: the written object was allocated during the dry run (its reference is the allocation pointer of the head state plus an offset)"""
        try:
            d = z3.simplify(ref - head.alloc_ptr())
            return z3.is_int_value(d) and d.as_long() >= 0
        except Exception:  # noqa
            return False

    def oblige(self, st, kind, tag, goal, node=None, meta=None):
        name = f"{self.cur_fn}:{kind}:{tag}"
        meta = dict(meta or {})
        if st.ghost.get("unannotated_loop"):
            meta["unannotated_loop"] = True
        self.obligations.append(Obligation(name, kind, st.hyps(), goal, where=self.where(node) if node is not None else self.cur_fn, meta=meta))

    def spec_eval(self, text, st, extra_env=None, old=None, goal=False):
        """evaluate a contract clause (python expression text) to a z3 Bool in state st.
        goal=True: the clause is to be proved (forall -> skolem); otherwise it is assumed (forall -> lazy universal)"""
        node = self.parse_spec(text)
        saved_env, saved_mode, saved_old, saved_goal = st.env, self.spec_mode, self.old_state, self.quant_goal
        st.env = dict(st.env, **(extra_env or {}))
        self.spec_mode = True
        self.quant_goal = goal
        if old is not None:
            self.old_state = old
        try:
            v = self.ev1(node, st)
            return self.truth(v, st)
        finally:
            st.env, self.spec_mode, self.old_state, self.quant_goal = saved_env, saved_mode, saved_old, saved_goal

    def spec_value(self, text, st, extra_env=None, old=None):
        node = self.parse_spec(text)
        saved_env, saved_mode, saved_old = st.env, self.spec_mode, self.old_state
        st.env = dict(st.env, **(extra_env or {}))
        self.spec_mode = True
        if old is not None:
            self.old_state = old
        try:
            return self.ev1(node, st)
        finally:
            st.env, self.spec_mode, self.old_state = saved_env, saved_mode, saved_old

    def parse_spec(self, text):
        if text not in self._spec_cache:
            self._spec_cache[text] = ast.parse(text.strip(), mode="eval").body
        return self._spec_cache[text]

    # ---- iteration sources --------------------------------------------------------------------------------------------
    def iter_source(self, v, st, node):
        """-> ('static', [V...]) | ('seq', SeqV term, elem type, mapper(state, index term) -> V)"""
        if v.k == "tuple":
            return ("static", v.xs)
        if v.k == "const":
            x = v.xs
            if isinstance(x, dict):
                return ("static", [self.lit(k) for k in x])
            return ("static", [self.lit(i) for i in x])
        if v.k == "ref" and v.note and v.note[0] == "static_items" and st.items(v.t).eq(v.note[2]):
            return ("static", v.note[1])
        if v.k == "comp":
            # a generator expression consumed by tuple() / list() / a for loop: its elements when the source is static, else as a list
            items = self.comp_static(v, st, node)
            if items is not None:
                return ("static", items)
            res = self.comp_to_list(v, st, node)
            if len(res) == 1 and res[0][0] is st:
                return self.iter_source(res[0][1], st, node)
        if v.k == "iter" and v.xs[0] in self.iter_kinds:
            return self.iter_kinds[v.xs[0]](self, v, st, node)
        if v.k == "iter":
            kind = v.xs[0]
            if kind == "static":
                return ("static", v.xs[1])
            if kind == "enumerate":
                inner = self.iter_source(v.xs[1], st, node)
                if inner[0] == "static":
                    return ("static", [V("tuple", xs=[vint(i), x]) for i, x in enumerate(inner[1])])
                _, seq, et, mk = inner
                return ("seq", seq, et, lambda s, i: V("tuple", xs=[vint(i), mk(s, i)]))
            if kind == "zip":
                srcs = [self.iter_source(x, st, node) for x in v.xs[1]]
                if all(s[0] == "static" for s in srcs):
                    return ("static", [V("tuple", xs=list(t)) for t in zip(*[s[1] for s in srcs])])
                srcs = [self._to_seq_source(s, st) for s in srcs]
                lens = [z3.Length(s[1]) for s in srcs]
                n = lens[0]
                for m in lens[1:]:
                    n = z3.If(m < n, m, n)
                first = srcs[0][1]
                return ("seqn", n, None, lambda s, i: V("tuple", xs=[src[3](s, i) for src in srcs]))
            if kind == "range":
                lo, hi = v.xs[1], v.xs[2]
                return ("seqn", z3.If(hi > lo, hi - lo, 0), "int", lambda s, i: vint(lo + i))
            if kind == "reversed":
                inner = self.iter_source(v.xs[1], st, node)
                if inner[0] == "static":
                    return ("static", list(reversed(inner[1])))
                seq = self.rules.REV(inner[1])
                return ("seq", seq, inner[2], lambda s, i: self.unbox(seq[i], inner[2], s))
            if kind == "items":
                d = v.xs[1]
                r = self.as_ref(d, st)
                keys = st.read("dict.keys", r)
                m = st.read("dict.map", r)
                kt, vt = self.dict_types(d.elem)
                return ("seq", keys, None, lambda s, i: V("tuple", xs=[self.unbox(keys[i], kt, s), self.unbox(z3.Select(m, keys[i]), vt, s)]))
            if kind == "map":
                raise Unsupported(f"{self.where(node)}: iteration over map()")
        if v.k in ("ref", "val") and v.cls == "iterator":
            from .state import entails
            r = self.as_ref(v, st)
            lst = st.read("iterator.seq", r, Int)
            pos = st.read("iterator.pos", r, Int)
            items = st.items(lst)
            et = v.elem
            if entails(st.pc, pos == 0):
                seq = items
            else:
                seq = z3.SubSeq(items, pos, z3.Length(items) - pos)
            return ("seq", seq, et, lambda s, i: self.unbox(seq[i], et, s))
        if v.k in ("ref", "val") and v.cls == "iterable":
            # an iterable of unknown class: a list / tuple object, or a repo Sequence (Stack) iterated through the Sequence mix-in
            r = self.as_ref(v, st)
            seq = st.items(r)
            for k, fld in self.sequence_backing.items():
                ids = self.subclass_ids(k)
                ft = self.field_type(k, fld)
                inner = st.items(Val.r(st.read(f"{ft[0]}.{fld}", r, Val)))
                seq = z3.If(z3.Or([st.cls_of(r) == i for i in ids]), inner, seq)
            return ("seq", seq, None, lambda s, i: V("val", seq[i]))
        if v.k in ("ref", "val") and v.cls in self.sequence_backing and v.cls and not self.repo.attr(v.cls, "__iter__"):
            fld = self.sequence_backing[v.cls]
            ft = self.field_type(v.cls, fld)
            r = self.as_ref(v, st)
            lst = self.unbox(st.read(f"{ft[0]}.{fld}", r, Val), ft[1], st)
            seq = st.items(lst.t)
            return ("seq", seq, lst.elem, lambda s, i: self.unbox(seq[i], lst.elem, s))
        if v.k in ("ref", "val") and v.cls == "dict":
            keys = st.read("dict.keys", self.as_ref(v, st))
            return ("seq", keys, None, lambda s, i: V("val", keys[i]))
        if v.k in ("seq", "gen") or (v.k in ("ref", "val") and v.cls in ("list", "tuple")):
            seq = self.as_seq(v, st)
            et = self.elem_type(v)
            return ("seq", seq, et, lambda s, i: self.unbox(seq[i], et, s))
        if v.k == "ref" and v.cls and self.repo.has_class(v.cls) and self.repo.attr(v.cls, "__iter__"):
            res = self.call_method(v, "__iter__", [], {}, st, node)
            if len(res) != 1 or res[0][0].status != "run":
                raise Unsupported(f"{self.where(node)}: __iter__ forks")
            return self.iter_source(res[0][1], res[0][0], node)
        if v.k == "val" and v.cls is None:
            # a value of unknown class used as an iterable: type assumption "a list or tuple object" (C13's type obligations check it)
            st.log.append(("assume-seq", getattr(node, "lineno", 0)))
            st.assume(Val.is_R(v.t))
            st.wf_ref(Val.r(v.t))
            seq = st.items(Val.r(v.t))
            return ("seq", seq, None, lambda s, i: V("val", seq[i]))
        if v.k == "str":
            raise Unsupported(f"{self.where(node)}: iteration over str")
        if v.k == "bytes":
            b = v.t
            return ("seqn", z3.Length(b), "int", lambda s, i: vint(z3.BV2Int(b[i])))
        raise Unsupported(f"{self.where(node)}: iteration over {v!r}")

    def _to_seq_source(self, src, st):
        if src[0] == "static":
            vs = src[1]
            items = [box(self.materialize(x, st)) for x in vs]
            seq = z3.Concat(*[z3.Unit(i) for i in items]) if len(items) > 1 else (z3.Unit(items[0]) if items else z3.Empty(SeqV))
            return ("seq", seq, None, lambda s, i: V("val", seq[i]))
        return src

    # ---- for ------------------------------------------------------------------------------------------------------------
    def st_For(self, s, st):
        out = []
        for s2, itv in self.ev(s.iter, st):
            if s2.status != "run":
                out.append(s2)
                continue
            src = self.iter_source(itv, s2, s)
            if src[0] == "static":
                out += self.for_unrolled(s, src[1], s2)
            else:
                out += self.for_invariant(s, src, s2)
        return out

    def for_unrolled(self, s, items, st):
        states = [st]
        done = []
        for x in items:
            nxt = []
            for cur in states:
                for b in self.assign(s.target, x, cur):
                    for r in self.exec_block(s.body, [b]):
                        if r.status == "brk":
                            r.status = "run"
                            done.append(r)
                        elif r.status == "cont":
                            r.status = "run"
                            nxt.append(r)
                        elif r.status == "run":
                            nxt.append(r)
                        else:
                            done.append(r)
            states = nxt
        if s.orelse:
            states = self.exec_block(s.orelse, states)
        return done + states

    def havoc_for_loop(self, st, body, spec, node):
        for n in assigned_names(body):
            if n in st.env:
                old = st.env[n]
                if old.k in ("int", "bool", "str", "bytes", "seq", "val"):
                    st.env[n] = V(old.k, fresh(n, old.t.sort()), cls=old.cls, elem=old.elem)
                elif old.k == "ref":
                    # a rebindable local holding a reference: after havoc it is an unknown object of the same class
                    st.env[n] = self.fresh_of(old.cls + (f"[{old.elem}]" if old.elem else "") if old.cls else "val", st, n)
                elif old.k == "none":
                    st.env[n] = V("val", fresh(n, Val))
                else:
                    raise Unsupported(f"{self.where(node)}: loop assigns {n} of kind {old.k}")
        saved_origin = st.origin
        st.origin = "loop-havoc"
        try:
            for m in (spec.get("modifies") or []):
                self.havoc_target(m, st)
        finally:
            st.origin = saved_origin
        if spec.get("allocates", True):
            st.bump_alloc()
        if st.yielded is not None or spec.get("yields"):
            st.yielded = fresh("yielded", SeqV)

    def for_invariant(self, s, src, st):
        ordn, spec = self.loop_spec(s, st, s.body, src if src[0] != "seq" else ("seq", src[1], src[2], src[3]))
        if src[0] == "seq":
            seq, n, mk = src[1], z3.Length(src[1]), src[3]
        else:
            seq, n, mk = None, src[1], src[3]
        proto = src[4] if len(src) > 4 else {}
        entry = st.fork()
        ghost = {"_n": vint(n), "_entry": None}
        if seq is not None:
            ghost["_seq"] = V("seq", seq, elem=src[2])
        ghost.pop("_entry")
        if st.yielded is None and spec.get("yields"):
            st.yielded = z3.Empty(SeqV)
        for g, text in (spec.get("ghost_init") or {}).items():
            st.env[g] = self.spec_value(text, st, None, old=entry)
        if spec.get("ghost_init"):
            st.ghost = dict(st.ghost, ghost_names=tuple(set(st.ghost.get("ghost_names", ())) | set(spec["ghost_init"])))
        for lem in (spec.get("lemmas") or []):
            st.assume(self.spec_eval(lem, st, dict(ghost, _i=vint(0)), old=entry))
        # inv-init
        for j, inv in enumerate(spec.get("invariant", [])):
            self.oblige(st, "inv-init", f"loop{ordn}#{j}", self.spec_eval(inv, st, dict(ghost, _i=vint(0)), old=entry, goal=True), s, meta={"clause": inv})
        # cut
        self.havoc_for_loop(st, s.body + [ast.Assign(targets=[s.target], value=ast.Constant(0))], spec, s)
        for g in (spec.get("ghost_init") or {}):
            oldv = st.env[g]
            st.env[g] = V(oldv.k, fresh(g, oldv.t.sort()), cls=oldv.cls, elem=oldv.elem)
        i = fresh("_i")
        st.assume(z3.And(i >= 0, i <= n))
        st.idx.append(i)            # the lazy universals of this path (element facts of comprehension-built lists, ...) are instantiated at the loop index
        gi = dict(ghost, _i=vint(i))
        for inv in spec.get("invariant", []):
            st.assume(self.spec_eval(inv, st, gi, old=entry))
        out = []
        # exit
        ex = st.fork()
        ex.pc.append(i == n)
        for lem in (spec.get("lemmas") or []):
            ex.assume(self.spec_eval(lem, ex, gi, old=entry))
        if feasible(ex.pc):
            exits = proto["exit"](ex) if proto.get("exit") else [ex]
            for e2 in exits:
                if e2.status == "run":
                    out += self.exec_block(s.orelse, [e2]) if s.orelse else [e2]
                else:
                    out.append(e2)
        # body
        b = st
        b.pc.append(i < n)
        # where this iteration's events begin, and what the locals were at the loop head (for per-iteration obligations at the back edge)
        b.ghost = dict(b.ghost, **{f"loop{ordn}_log": len(b.log), f"loop{ordn}_writes": len(b.writes), f"loop{ordn}_head_env": dict(b.env),
                                   f"loop{ordn}_index": i})
        if not spec.get("auto"):
            b.ghost = dict(b.ghost, **{f"loop{ordn}_head": b.fork(), f"loop{ordn}_mods": list(spec.get("modifies") or []), f"loop{ordn}_fn": self.cur_fn})
        else:
            b.ghost = dict(b.ghost, **{f"loop{ordn}_head": None, f"loop{ordn}_mods": None})
        if feasible(b.pc):
            if proto.get("start"):
                for nm, goal in proto["start"](b, i):
                    self.oblige(b, "pre@call", f"loop{ordn}:{nm}", goal, s, meta={"clause": nm})
            for lem in (spec.get("lemmas") or []):
                # ground instances of definitional unfoldings / proved rules for this iteration (assumed)
                b.assume(self.spec_eval(lem, b, gi, old=entry))
            for b2 in self.assign(s.target, mk(b, i), b):
                for r in self.exec_block(s.body, [b2]):
                    if r.status in ("run", "cont"):
                        r.status = "run"
                        for g, upd in (spec.get("ghost_step") or {}).items():
                            r.env[g] = self.spec_value(upd, r, dict(ghost, _i=vint(i)), old=entry)
                        gk = dict(ghost, _i=vint(i + 1))
                        for j, inv in enumerate(spec.get("invariant", [])):
                            self.oblige(r, "inv-keep", f"loop{ordn}#{j}", self.spec_eval(inv, r, gk, old=entry, goal=True), s, meta={"clause": inv})
                        self.loop_frame(r, ordn)
                    elif r.status == "brk":
                        r.status = "run"
                        out.append(r)
                    else:
                        out.append(r)
        return out

    # ---- while ----------------------------------------------------------------------------------------------------------
    def st_While(self, s, st):
        ordn, spec = self.loop_spec(s, st, s.body, None)
        entry = st.fork()
        ghost = dict(spec.get("ghost_init", {}))
        genv = {}
        for g, text in ghost.items():
            genv[g] = self.spec_value(text, st, None, old=entry)
        st.env.update(genv)
        st.ghost = dict(st.ghost, ghost_names=tuple(set(st.ghost.get("ghost_names", ())) | set(genv)))
        for j, inv in enumerate(spec.get("invariant", [])):
            self.oblige(st, "inv-init", f"loop{ordn}#{j}", self.spec_eval(inv, st, None, old=entry, goal=True), s, meta={"clause": inv})
        self.havoc_for_loop(st, s.body, spec, s)
        st.ghost = dict(st.ghost, **{f"loop{ordn}_log": len(st.log), f"loop{ordn}_writes": len(st.writes)})
        if not spec.get("auto"):
            st.ghost = dict(st.ghost, **{f"loop{ordn}_head": st.fork(), f"loop{ordn}_mods": list(spec.get("modifies") or []), f"loop{ordn}_fn": self.cur_fn})
        else:
            st.ghost = dict(st.ghost, **{f"loop{ordn}_head": None, f"loop{ordn}_mods": None})
        for g in ghost:
            oldv = st.env[g]
            st.env[g] = V(oldv.k, fresh(g, oldv.t.sort()), cls=oldv.cls, elem=oldv.elem)
        for inv in spec.get("invariant", []):
            st.assume(self.spec_eval(inv, st, None, old=entry))
        dec0 = None
        if spec.get("decreases"):
            dec0 = self.as_int(self.spec_value(spec["decreases"], st, None, old=entry))
        out = []
        for h, b in self.ev_truth(s.test, st):
            if b is None:
                out.append(h)
            elif not b:
                out += self.exec_block(s.orelse, [h]) if s.orelse else [h]
            else:
                for r in self.exec_block(s.body, [h]):
                    if r.status in ("run", "cont"):
                        r.status = "run"
                        for g, upd in (spec.get("ghost_step") or {}).items():
                            r.env[g] = self.spec_value(upd, r, None, old=entry)
                        for j, inv in enumerate(spec.get("invariant", [])):
                            self.oblige(r, "inv-keep", f"loop{ordn}#{j}", self.spec_eval(inv, r, None, old=entry, goal=True), s, meta={"clause": inv})
                        self.loop_frame(r, ordn)
                        if dec0 is not None:
                            d1 = self.as_int(self.spec_value(spec["decreases"], r, None, old=entry))
                            self.oblige(r, "term", f"loop{ordn}", z3.And(d1 < dec0, dec0 >= 0), s, meta={"clause": spec["decreases"]})
                    elif r.status == "brk":
                        r.status = "run"
                        for g, upd in (spec.get("ghost_break") or {}).items():
                            r.env[g] = self.spec_value(upd, r, None, old=entry)
                        for fact in (spec.get("at_break") or []):
                            r.assume(self.spec_eval(fact, r, None, old=entry))
                        out.append(r)
                    else:
                        if r.status == "ret" and spec.get("at_return"):
                            r.status = "run"                                  # (specifications are evaluated in a running state)
                            try:
                                for fact in spec["at_return"]:                # leaving the loop by `return` from the body (same point as a break)
                                    r.assume(self.spec_eval(fact, r, None, old=entry))
                            finally:
                                r.status = "ret"
                        out.append(r)
        return out

    def loop_own_frame(self, r, ordn):
        """the loop's own frame: what one iteration writes lies within the `modifies` of its specification (what the cut havocs) or in objects the
        iteration itself allocated — otherwise the state assumed after the loop keeps values the loop has changed"""
        head = r.ghost.get(f"loop{ordn}_head")
        mods = r.ghost.get(f"loop{ordn}_mods")
        if head is None or mods is None or r.ghost.get(f"loop{ordn}_fn") != self.cur_fn:
            return          # (no specification of its own, or the markers belong to a loop of the calling function)
        from .calls import Contract
        c2 = Contract(f"{self.cur_fn}:loop{ordn}", modifies=mods)
        saved_env = r.env
        n0 = len(self.obligations)
        try:
            r.env = dict(r.ghost.get(f"loop{ordn}_head_env") or head.env)
            for g_, v_ in saved_env.items():
                r.env.setdefault(g_, v_)
            head.fresh_base = self.cur_entry.alloc_ptr() if getattr(self, "cur_entry", None) is not None else None
            self.frame_obligations(c2, r, head, f"loop{ordn}.own{self._loop_frame_n}")
        finally:
            r.env = saved_env
        for o in self.obligations[n0:]:
            o.name = o.name.replace(f"{c2.qual}:frame:", f"{self.cur_fn}:loop-frame:")
            o.kind = "frame"
            o.meta["clause"] = f"loop {ordn} modifies {mods}"
            if r.ghost.get("unannotated_loop"):
                o.meta["unannotated_loop"] = True

    def loop_frame(self, r, ordn):
        """the writes of a loop-body path never reach a final state: check them against the function's frame at the back edge"""
        self._loop_frame_n = getattr(self, "_loop_frame_n", 0) + 1
        if self.back_edge_hook is not None:
            self.back_edge_hook(self, r, ordn, self._loop_frame_n)
        self.loop_own_frame(r, ordn)
        saved_env = r.env
        try:
            c = self.cur_contract if (self.cur_contract is not None and not getattr(self.cur_contract, "auto_inline", False)) else getattr(self, "verify_contract", None)
            # (inside an inlined helper, with or without automatic loop specs: the verified function's frame)
            r.env = {n.lstrip("*"): self.cur_entry.env[n.lstrip("*")] for n, _, _ in c.params}
            n_before = len(self.obligations)
            self.frame_obligations(c, r, self.cur_entry, f"loop{ordn}.{self._loop_frame_n}")
            if r.ghost.get("unannotated_loop"):
                # the body of a loop the sidecar has no invariant for runs from a havocked head: what fails here counts only if it replays
                for o in self.obligations[n_before:]:
                    o.meta["unannotated_loop"] = True
        finally:
            r.env = saved_env

    # ---- havoc targets --------------------------------------------------------------------------------------------------
    def havoc_target(self, text, st, env=None):
        """modifies clause: 'x.f' (field), 'x[]' (contents of list/dict/set x), '@comp' (whole heap component), 'global m.n'"""
        text = text.strip()
        if text.startswith("@") and ":" in text:
            comp, _, flag = text[1:].partition(":")
            if flag == "fresh":
                # only objects allocated since the verified function was entered may change
                from .state import ALLOC0
                cond = lambda r: r < ALLOC0      # noqa: E731
                cond.fresh_only = True
                cond.tag = "fresh"
                st.havoc_comp_except(comp, cond, self.component_sort(comp))
                return
            own = st.comp("list.nodeowned")
            # havoc the component except at objects that no AST node refers to (flags as of now)
            keep = lambda r, own=own: z3.Not(z3.Select(own, r))     # noqa: E731
            keep.tag = "nodeowned"
            st.havoc_comp_except(comp, keep, self.component_sort(comp))
            return
        if text.startswith("@"):
            st.havoc_comp(text[1:], self.component_sort(text[1:]))
            return
        if text.endswith("[]"):
            v = self.spec_value(text[:-2], st, env)
            r = self.as_ref(v, st)
            cls = v.cls
            if cls in ("list", "tuple", None):
                st.havoc_at("list.items", r)
            elif cls == "dict":
                for c in ("dict.keys", "dict.map", "dict.has"):
                    st.havoc_at(c, r)
            elif cls == "set":
                st.havoc_at("set.has", r)
                st.havoc_at("set.card", r)
            elif cls == "bytearray":
                st.havoc_at("bytearray.data", r)
            elif self.repo.has_class(cls or ""):
                raise Unsupported(f"modifies {text}: contents of {cls}")
            return
        node = self.parse_spec(text)
        if isinstance(node, ast.Attribute):
            o = self.spec_value(ast.unparse(node.value), st, env)
            if o.k == "module":
                key = "module:" + o.cls
                ft = self.fields[key][node.attr]
                st.havoc_at(f"{key}.{node.attr}", o.t, self.sort_for(ft))
                return
            ft = self.field_type(o.cls, node.attr) if o.cls else self.unique_field(node.attr)
            if ft is None and node.attr in self.ast_field_names:
                ft = ("ast", "val")
            if ft is None:
                raise Unsupported(f"modifies {text}: undeclared field")
            st.havoc_at(f"{ft[0]}.{node.attr}", self.as_ref(o, st), self.sort_for(ft[1]))
            return
        raise Unsupported(f"modifies clause not understood: {text}")

    def sort_for(self, ty):
        from .sorts import sort_of_type
        return sort_of_type(ty)

    def component_sort(self, comp):
        from .state import COMPONENT_SORT
        if comp in COMPONENT_SORT:
            return COMPONENT_SORT[comp]
        decl, _, f = comp.rpartition(".")
        ty = self.fields.get(decl, {}).get(f)
        if ty is None:
            if decl == "ast":
                return Val
            raise Unsupported(f"unknown heap component {comp}")
        return self.sort_for(ty)
