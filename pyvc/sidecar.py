"""Sidecar kit: contracts, field tables, spec functions and external models are registered here by /verif/contracts/*.py."""
import importlib
import os
import sys
import z3
from .calls import Contract
from .engine import Engine
from .state import static_ref, clsid
from .sorts import Val, V, Int, Str


class Kit:
    def __init__(self):
        self.contracts = {}
        self.fields = {}
        self.spec_funcs = {}
        self.ext_models = {}
        self.ext_methods = {}
        self.ext_attrs = {}
        self.enums = {}
        self.heap_axioms = []
        self.background_axioms = []     # facts about static objects of the initial heap: added when discharging, not carried in every path condition
        self.trusted = []       # (name, reason)
        self.rule_generators = []       # f(engine) -> generator(rules, exprs) -> ground instances of assumed laws

    def contract(self, qual, **kw):
        c = Contract(qual, **kw)
        self.contracts[qual] = c
        if c.trusted:
            self.trusted.append((qual, c.trusted))
        return c

    def fieldsof(self, cls, **fields):
        self.fields.setdefault(cls, {}).update(fields)

    def spec(self, name):
        def deco(f):
            self.spec_funcs[name] = f
            return f
        return deco

    def external(self, name):
        def deco(f):
            self.ext_models[name] = f
            return f
        return deco

    def external_method(self, cls, name):
        def deco(f):
            self.ext_methods[(cls, name)] = f
            return f
        return deco

    def external_attr(self, owner, name):
        def deco(f):
            self.ext_attrs[(owner, name)] = f
            return f
        return deco

    def background(self, f):
        self.background_axioms.append(f)
        return f

    def ground_rules(self, f):
        self.rule_generators.append(f)
        return f

    def axiom(self, f):
        self.heap_axioms.append(f)
        return f

    def load(self, *modules):
        here = os.path.dirname(os.path.dirname(os.path.abspath(__file__)))
        if here not in sys.path:
            sys.path.insert(0, here)
        for m in (("base",) + tuple(x for x in modules if x != "base")):
            mod = importlib.import_module("contracts." + m)
            mod.register(self)
        return self

    def engine(self, repo):
        e = Engine(repo, self.contracts, self.fields, self.spec_funcs, self.ext_models, self.ext_methods)
        e.ext_attrs = dict(self.ext_attrs)
        e.iter_kinds = dict(getattr(self, "iter_kinds", {}))
        e.class_info = getattr(self, "class_info", None)
        e.enums = dict(self.enums)
        e.heap_axioms = list(self.heap_axioms)
        from .state import State
        st0 = State()
        for g in self.rule_generators:
            e.rules.generators.append(g(e))
        e.background = [fact for ax in self.background_axioms for fact in ax(e, st0)]
        return e
