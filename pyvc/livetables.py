"""Run under /venv/bin/python with PYTHONPATH=<repo>: import the working tree and dump, as JSON, the tables
that class creation (``__init_subclass__`` hooks, metaclasses, enum) builds at import time.  Class creation
*is* code that runs, so its result is taken from the code and never re-modelled by the verifier.

usage: livetables.py <repo> [module ...]    (modules default to the torch-free ones)
"""
import importlib
import inspect
import json
import sys
import types

repo = sys.argv[1]
mods = sys.argv[2:] or ["fickle", "analysis", "loader", "hook", "context", "exception", "tracing", "ml", "cli"]
sys.path.insert(0, repo)
import warnings  # noqa: E402

warnings.simplefilter("ignore")


def fn_info(f):
    f = inspect.unwrap(f) if callable(f) else f
    code = getattr(f, "__code__", None)
    if code is None:
        return None
    d = {"file": code.co_filename, "line": code.co_firstlineno, "qualname": f.__qualname__, "name": f.__name__}
    if f.__closure__:
        cl = {}
        for name, cell in zip(code.co_freevars, f.__closure__):
            try:
                c = cell.cell_contents
            except ValueError:
                continue
            if isinstance(c, types.FunctionType):
                cl[name] = fn_info(c)
            elif isinstance(c, type):
                cl[name] = {"class": c.__module__ + "." + c.__qualname__}
        d["closure"] = cl
    return d


def jsonable(x, depth=0):
    if isinstance(x, (int, str, bool, float)) or x is None:
        return x
    if isinstance(x, bytes):
        return {"__bytes__": list(x)}
    if depth < 3 and isinstance(x, (list, tuple)):
        r = [jsonable(i, depth + 1) for i in x]
        return None if any(i is _SKIP for i in r) else (r if isinstance(x, list) else {"__tuple__": r})
    if depth < 3 and isinstance(x, dict) and all(isinstance(k, (str, int)) for k in x):
        r = {str(k): jsonable(v, depth + 1) for k, v in x.items()}
        return _SKIP if any(v is _SKIP for v in r.values()) else {"__dict__": r, "__keys__": [jsonable(k) for k in x]}
    import enum
    if isinstance(x, enum.Enum):
        return {"__enum__": type(x).__name__, "name": x.name, "value": jsonable(x.value, depth + 1)}
    return _SKIP


_SKIP = object()
out = {"classes": {}, "functions": {}, "modules": {}}
loaded = {}
for m in mods:
    try:
        loaded[m] = importlib.import_module("fickling." + m)
    except Exception as e:  # noqa
        out["modules"][m] = {"error": repr(e)}

def module_classes(m, mod):
    """classes of the module: its attributes, and classes it creates without binding a name (registered opcode / analysis classes)"""
    seen = []
    for name, obj in vars(mod).items():
        if isinstance(obj, type) and obj.__module__ == mod.__name__:
            seen.append((name, obj))
    extra = []
    if m == "fickle":
        extra = list(getattr(mod, "OPCODES_BY_NAME", {}).values())
    if m == "analysis" and hasattr(mod, "Analysis"):
        extra = [type(a) for a in getattr(mod.Analysis, "ALL", [])]
    for obj in extra:
        if isinstance(obj, type) and obj.__module__ == mod.__name__ and all(obj is not o for _, o in seen):
            seen.append((obj.__qualname__, obj))
    return seen


for m, mod in loaded.items():
    out["modules"][m] = {"file": mod.__file__}
    for name, obj in module_classes(m, mod) + [(n, o) for n, o in vars(mod).items() if not isinstance(o, type)]:
        if isinstance(obj, type) and obj.__module__ == mod.__name__:
            key = f"{m}.{obj.__qualname__}"
            attrs, consts = {}, {}
            names = set(dir(obj))
            for k in obj.__mro__:
                names |= set(vars(k))
            for a in sorted(names):
                if a.startswith("__") and a not in ("__init__", "__new__", "__enter__", "__exit__", "__lt__", "__gt__", "__le__", "__ge__",
                                                    "__eq__", "__ne__", "__bool__", "__len__", "__iter__", "__getitem__", "__setitem__",
                                                    "__delitem__", "__str__", "__contains__", "__reversed__", "__iadd__", "__init_subclass__"):
                    continue
                try:
                    raw = inspect.getattr_static(obj, a)
                except AttributeError:
                    continue
                kind = "function"
                f = raw
                if isinstance(raw, staticmethod):
                    kind, f = "staticmethod", raw.__func__
                elif isinstance(raw, classmethod):
                    kind, f = "classmethod", raw.__func__
                elif isinstance(raw, property):
                    kind, f = "property", raw.fget
                if isinstance(f, types.FunctionType) and not f.__code__.co_filename.startswith(repo):
                    continue
                if isinstance(f, types.FunctionType):
                    info = fn_info(f)
                    info["kind"] = kind
                    # owner class in the MRO
                    for k in obj.__mro__:
                        if a in vars(k):
                            info["owner"] = k.__module__.replace("fickling.", "") + "." + k.__qualname__
                            break
                    attrs[a] = info
                else:
                    j = jsonable(raw)
                    if j is not _SKIP:
                        consts[a] = j
            out["classes"][key] = {
                "mro": [k.__module__.replace("fickling.", "") + "." + k.__qualname__ for k in obj.__mro__],
                "attrs": attrs, "consts": consts,
            }
        elif isinstance(obj, types.FunctionType) and obj.__module__ == mod.__name__:
            out["functions"][f"{m}.{name}"] = fn_info(obj)

# module-level constant collections of strings (tables the code consults: builtin module names, unsafe-module lists ...), as imported
out["module_str_sets"] = {}
for m, mod in loaded.items():
    for name, obj in vars(mod).items():
        if isinstance(obj, (frozenset, set, tuple, list)) and 0 < len(obj) <= 4000 and all(isinstance(x, str) for x in obj) and not name.startswith("__"):
            out["module_str_sets"].setdefault(m, {})[name] = {"type": type(obj).__name__, "items": sorted(obj) if isinstance(obj, (set, frozenset)) else list(obj)}
if "fickle" in loaded:
    fk = loaded["fickle"]
    out["OPCODES_BY_NAME"] = {n: "fickle." + c.__qualname__ for n, c in fk.OPCODES_BY_NAME.items()}
    out["constant_priorities_sorted"] = [["fickle." + c.__qualname__, p] for c, p in
                                         sorted(fk.ConstantOpcode.ConstantOpcodePriorities.items(), key=lambda kv: kv[1])]
    import pickletools
    out["pickletools"] = {
        o.name: {"before": [t.name for t in o.stack_before], "after": [t.name for t in o.stack_after],
                 "arg": (None if o.arg is None else {"name": o.arg.name, "n": o.arg.n}), "code": o.code, "proto": o.proto}
        for o in pickletools.opcodes}
if "analysis" in loaded:
    an = loaded["analysis"]
    out["analysis_all"] = [type(a).__module__.replace("fickling.", "") + "." + type(a).__qualname__ for a in an.Analysis.ALL]
    out["severity"] = [[s.name, jsonable(s.value)] for s in an.Severity]
    out["default_analyses"] = [type(a).__module__.replace("fickling.", "") + "." + type(a).__qualname__
                               for a in an.Analyzer.default_instance.analyses]
if "hook" in loaded:
    import pickle, _pickle  # noqa
    hk = loaded["hook"]
    out["hook"] = {"orig_load_is_pickle_load": hk._original_pickle_load is pickle.load,
                   "orig_loads_is_pickle_loads": hk._original_pickle_loads is pickle.loads,
                   "pickle_load_is__pickle_load": pickle.load is _pickle.load,
                   "pickle_loads_is__pickle_loads": pickle.loads is _pickle.loads,
                   "pickle_all": list(pickle.__all__),
                   "_pickle_public": [n for n in dir(_pickle) if not n.startswith("_")]}
import ast  # noqa
out["ast_fields"] = {n: list(c._fields) for n, c in vars(ast).items() if isinstance(c, type) and issubclass(c, ast.AST)}
out["python"] = sys.version
json.dump(out, sys.stdout)
