"""Symbolic state: path condition, locals, component heap, allocation pointer, effect log."""
import z3
from .sorts import (Int, Bool, Str, Bytes, Val, SeqV, V, fresh, sort_of_type, NONE_REF)

# ---- class ids and static object ids --------------------------------------------------------------------------------
CLSID = {}
STATIC = {}          # name -> small concrete reference id (functions, classes, modules, enum members, singletons)
STATIC_REV = {}
STATIC_LIMIT = 100000


def clsid(name):
    if name not in CLSID:
        CLSID[name] = len(CLSID) + 1
    return CLSID[name]


def static_ref(name):
    if name not in STATIC:
        STATIC[name] = len(STATIC) + 1
        STATIC_REV[STATIC[name]] = name
    return STATIC[name]


ALLOC0 = z3.Int("ALLOC0")

COMPONENT_SORT = {
    "cls": Int,
    "list.items": SeqV,
    "dict.keys": SeqV,
    "dict.map": z3.ArraySort(Val, Val),
    "dict.has": z3.ArraySort(Val, Bool),
    "set.has": z3.ArraySort(Val, Bool),
    "set.card": Int,
    "bytearray.data": Bytes,
    "list.nodeowned": Bool,     # ghost: the object is referred to from a field of an AST node (set when stored there)
}


class Obligation:
    def __init__(self, name, kind, hyps, goal, where="", meta=None, syntactic=None):
        self.name, self.kind, self.hyps, self.goal, self.where = name, kind, list(hyps), goal, where
        self.meta = meta or {}
        self.syntactic = syntactic      # None -> SMT; otherwise (bool verdict, explanation)
        self.result = None


class State:
    def __init__(self):
        self.pc = [ALLOC0 >= STATIC_LIMIT]
        self.env = {}
        self.H = {}
        self.alloc_base = ALLOC0
        self.alloc_off = 0
        self.status = "run"         # run | ret | raise | brk | cont
        self.ret = None
        self.exc = None             # (class name, V or None)
        self.log = []               # effect events (python tuples)
        self.writes = []            # (component, ref term) for frame checking
        self.gwrites = []
        self.ghost = {}
        self.yielded = None         # SeqV term for generators
        self.trail = []             # branch decisions, for reporting
        self.preserve = {}
        self.origin = None          # callee whose contract is being applied (writes made on its behalf)
        self._wf_seen = set()
        self._pc_ids = set()
        self.old_ids = set()        # ids of terms that denote objects of the initial heap (parameters)
        self.univ = []              # lazy universals: callables(index term) -> z3 Bool, instantiated at the index terms of this path
        self.idx = []               # index terms (skolems of goals, witnesses of assumed existentials)
        self.kuniv = []             # lazy universals over dict keys: callables(Val term) -> z3 Bool
        self.kidx = []              # key terms this path looked up / stored / tested in a dict

    def fork(self):
        n = State.__new__(State)
        n.pc = list(self.pc)
        n.env = dict(self.env)
        n.H = dict(self.H)
        n.alloc_base, n.alloc_off = self.alloc_base, self.alloc_off
        n.status, n.ret, n.exc = self.status, self.ret, self.exc
        n.log = list(self.log)
        n.writes = list(self.writes)
        n.gwrites = list(self.gwrites)
        n.ghost = dict(self.ghost)
        n.yielded = self.yielded
        n.trail = list(self.trail)
        n._wf_seen = set(self._wf_seen)
        n._pc_ids = set(self._pc_ids)
        n.origin = self.origin
        n.preserve = self.preserve
        n.old_ids = self.old_ids
        n.univ = list(self.univ)
        n.idx = list(self.idx)
        n.kuniv = list(self.kuniv)
        n.kidx = list(self.kidx)
        return n

    def hyps(self):
        """path condition plus the instances of this path's lazy universals at its index terms"""
        key = (len(self.pc), len(self.univ), len(self.idx), self.pc[-1].get_id() if self.pc else 0, len(self.kuniv), len(self.kidx))
        cached = getattr(self, "_hyps_cache", None)
        if cached is not None and cached[0] == key:
            return list(cached[1])
        out = self._hyps()
        self._hyps_cache = (key, out)
        return list(out)

    def key_term(self, k):
        """a dict key this path uses: the key-indexed lazy universals are instantiated at it"""
        if all(not k.eq(x) for x in self.kidx):
            self.kidx.append(k)

    def _hyps(self):
        out = list(self.pc)
        if self.kuniv and self.kidx:
            seen_k = set()
            for k in self.kidx[:40]:
                if k.get_id() in seen_k:
                    continue
                seen_k.add(k.get_id())
                for u in self.kuniv:
                    out.append(u(k))
        if not self.univ or not self.idx:
            return out
        # index terms: the skolems / witnesses of this path, also shifted by the prefix lengths of the concatenations in the path
        # condition (an element j of a ++ b is element j - |a| of b)
        offsets = []
        seen_c = set()
        todo = list(self.pc)
        seen_t = set()
        while todo:
            t = todo.pop()
            if t.get_id() in seen_t:
                continue
            seen_t.add(t.get_id())
            if z3.is_app(t):
                if t.sort() == SeqV and t.decl().kind() == z3.Z3_OP_SEQ_CONCAT and t.get_id() not in seen_c:
                    seen_c.add(t.get_id())
                    acc = None
                    for ch in t.children()[:-1]:
                        ln = z3.Length(ch)
                        acc = ln if acc is None else acc + ln
                        offsets.append(z3.simplify(acc))
                todo += t.children()
        cands, seen = [], set()
        for t in self.idx:
            for c in [t] + [z3.simplify(t - o) for o in offsets[:12]]:
                if c.get_id() not in seen:
                    seen.add(c.get_id())
                    cands.append(c)
        for c in cands[:60]:
            for u in self.univ:
                out.append(u(c))
        return out

    # ---- heap -----------------------------------------------------------------------------------------------------
    def comp(self, name, sort=None):
        if name not in self.H:
            s = sort if sort is not None else COMPONENT_SORT.get(name)
            if s is None:
                raise KeyError(f"heap component {name} has no declared sort")
            self.H[name] = z3.Const("H0." + name, z3.ArraySort(Int, s))
        return self.H[name]

    def read(self, name, ref, sort=None):
        a = self.comp(name, sort)
        t = select_store(a, ref, self.old_ids)
        self.base_wf(a, ref)
        self.preserved(a, ref)
        if a.sort().range() == Val and not z3.is_app_of(t, z3.Z3_OP_DT_CONSTRUCTOR):
            # well-formed heap at all times: a stored reference was allocated before it was stored
            k = ("rd", t.get_id())
            if k not in self._wf_seen:
                self._wf_seen.add(k)
                self.pc.append(z3.Implies(Val.is_R(t), z3.And(Val.r(t) >= 0, Val.r(t) < self.alloc_ptr())))
        return t

    def preserved(self, a, ref, depth=0):
        """a component that was havocked 'except where cond' keeps its old value at every location satisfying cond:
        the fact is instantiated at the locations actually read"""
        base = a
        while z3.is_app(base) and base.decl().kind() == z3.Z3_OP_STORE:
            base = base.arg(0)
        rec = self.preserve.get(base.get_id()) if z3.is_const(base) else None
        if rec is None or depth > 6:
            return
        prev, cond = rec
        k = ("pres", base.get_id(), ref.get_id())
        if k in self._wf_seen:
            return
        self._wf_seen.add(k)
        old = select_store(prev, ref, self.old_ids)
        self.pc.append(z3.Implies(cond(ref), z3.Select(base, ref) == old))
        self.base_wf(prev, ref)
        self.preserved(prev, ref, depth + 1)

    def havoc_comp_except(self, name, cond, sort=None):
        """havoc a whole component but keep the locations where cond(ref) holds (cond is evaluated in the pre-havoc state)"""
        a = self.comp(name, sort)
        new = fresh("Hx." + name, a.sort())
        self.preserve = dict(self.preserve)
        self.preserve[new.get_id()] = (a, cond)
        self.H[name] = new
        self.writes.append((name, None, self.origin, cond))

    def base_wf(self, a, ref):
        """well-formed initial heap: references stored in the heap *at entry* are below ALLOC0"""
        base = a
        while z3.is_app(base) and base.decl().kind() == z3.Z3_OP_STORE:
            base = base.arg(0)
        if not (z3.is_const(base) and base.decl().name().startswith("H0.")):
            return
        rng = base.sort().range()
        key = (base.get_id(), ref.get_id())
        if key in self._wf_seen:
            return
        self._wf_seen.add(key)
        b = z3.Select(base, ref)
        if rng == Val:
            self.pc.append(z3.Implies(z3.And(ref < ALLOC0, Val.is_R(b)), z3.And(Val.r(b) >= 0, Val.r(b) < ALLOC0)))
        elif rng == SeqV and BELOW0[0] is not None:
            self.pc.append(z3.Implies(ref < ALLOC0, BELOW0[0](b)))

    def write(self, name, ref, value, sort=None):
        self.H[name] = z3.Store(self.comp(name, sort), ref, value)
        self.writes.append((name, ref, self.origin, None))

    def havoc_at(self, name, ref, sort=None):
        s = sort if sort is not None else self.comp(name, sort).sort().range()
        v = fresh("hv." + name, s)
        self.write(name, ref, v, sort)
        return v

    def havoc_comp(self, name, sort=None):
        a = self.comp(name, sort)
        self.H[name] = fresh("Hh." + name, a.sort())
        self.writes.append((name, None, self.origin, None))

    def alloc_ptr(self):
        return self.alloc_base + self.alloc_off

    def alloc(self, cls):
        r = z3.simplify(self.alloc_base + self.alloc_off)
        self.alloc_off += 1
        # class tags never change: one global array; allocating fixes the (so far unconstrained) tag of the new reference
        self.pc.append(z3.Select(self.comp("cls"), r) == clsid(cls))
        self.H["list.nodeowned"] = z3.Store(self.comp("list.nodeowned"), r, z3.BoolVal(False))
        return r

    def bump_alloc(self):
        """an opaque callee may have allocated: move the allocation pointer to a fresh, larger value"""
        nb = fresh("ALLOC")
        self.pc.append(nb >= self.alloc_base + self.alloc_off)
        self.alloc_base, self.alloc_off = nb, 0

    def assume(self, c):
        if isinstance(c, bool):
            if c:
                return
            c = z3.BoolVal(c)
        if z3.is_true(c):
            return
        k = c.get_id()
        if k in self._pc_ids:
            return
        self._pc_ids.add(k)
        self.pc.append(c)

    def wf_ref(self, t):
        """well-formed heap: any reference read from the heap or passed in is below the allocation pointer"""
        k = ("wf", t.get_id())
        if k in self._wf_seen:
            return
        self._wf_seen.add(k)
        self.pc.append(z3.And(t >= 0, t < self.alloc_ptr()))

    # ---- lists ----------------------------------------------------------------------------------------------------
    def items(self, ref):
        return self.read("list.items", ref)

    def set_items(self, ref, seq):
        self.write("list.items", ref, seq)

    def new_list(self, seq=None, cls="list"):
        r = self.alloc(cls)
        self.H["list.items"] = z3.Store(self.comp("list.items"), r, seq if seq is not None else z3.Empty(SeqV))
        return r

    def cls_of(self, ref):
        return self.read("cls", ref)


def _distinct_syntactically(i, j):
    """True when two index terms are certainly different: distinct numerals, or the same base plus different offsets"""
    if z3.is_int_value(i) and z3.is_int_value(j):
        return i.as_long() != j.as_long()

    def split(t):
        if z3.is_add(t) and t.num_args() == 2:
            a, b = t.arg(0), t.arg(1)
            if z3.is_int_value(a):
                return b, a.as_long()
            if z3.is_int_value(b):
                return a, b.as_long()
        return t, 0
    (bi, oi), (bj, oj) = split(i), split(j)
    return bi.eq(bj) and oi != oj


def is_fresh_ref(t):
    """t is syntactically an allocation made by the function under verification: ALLOC0 + k or a later allocation base + k"""
    if z3.is_add(t) and t.num_args() == 2:
        a, b = t.arg(0), t.arg(1)
        if z3.is_int_value(a):
            a, b = b, a
        if z3.is_int_value(b) and b.as_long() >= 0:
            t = a
        else:
            return False
    return z3.is_const(t) and (t.decl().name() == "ALLOC0" or t.decl().name().startswith("ALLOC!"))


def is_old_ref(t, old_ids, depth=0):
    """t certainly denotes an object of the initial heap: a parameter, or a reference read from an initial heap component at an old ref"""
    if depth > 8 or not z3.is_app(t):
        return False
    if t.get_id() in old_ids:
        return True
    d = t.decl()
    if d.name() == "r" and t.num_args() == 1:
        x = t.arg(0)
        if x.get_id() in old_ids:
            return True
        if z3.is_app(x) and x.decl().kind() == z3.Z3_OP_SELECT:
            base = x.arg(0)
            if z3.is_const(base) and base.decl().name().startswith("H0."):
                return is_old_ref(x.arg(1), old_ids, depth + 1)
    return False


def select_store(a, i, old_ids=frozenset()):
    """Select(a, i) with reads through Store chains resolved when the indices are syntactically equal / certainly distinct
    (distinct numerals / offsets, or an object of the initial heap against an allocation of this call)"""
    i_old = None
    while z3.is_app(a) and a.decl().kind() == z3.Z3_OP_STORE:
        j = a.arg(1)
        if j.eq(i):
            return a.arg(2)
        if _distinct_syntactically(i, j):
            a = a.arg(0)
            continue
        if is_fresh_ref(j) and not is_fresh_ref(i):
            if i_old is None:
                i_old = is_old_ref(i, old_ids)
            if i_old:
                a = a.arg(0)
                continue
        if is_fresh_ref(i) and not is_fresh_ref(j) and is_old_ref(j, old_ids):
            a = a.arg(0)
            continue
        break
    return z3.Select(a, i)


BELOW0 = [None]     # set by the engine: predicate "every reference element of the sequence is below ALLOC0"


_STRINGY = {}


def _stringy(t):
    """does the formula contain string-theory operations (prefix/suffix/indexof/substr/contains/concat on String)?"""
    k = t.get_id()
    r = _STRINGY.get(k)
    if r is not None:
        return r
    res = False
    todo, seen = [t], set()
    biglit = strlen = False
    while todo:
        x = todo.pop()
        if x.get_id() in seen:
            continue
        seen.add(x.get_id())
        if z3.is_int_value(x) and abs(x.as_long()) >= 64:
            biglit = True
        if z3.is_app(x):
            if x.decl().kind() == z3.Z3_OP_SEQ_LENGTH and (x.arg(0).sort() == Str or x.arg(0).sort() == Bytes):
                strlen = True
            if biglit and strlen:       # |s| against a large literal makes the sequence solver build long witnesses
                res = True
                break
            if x.sort() == Str and x.num_args() > 0 and x.decl().kind() != z3.Z3_OP_DT_ACCESSOR and x.decl().kind() != z3.Z3_OP_SELECT \
                    and x.decl().kind() != z3.Z3_OP_UNINTERPRETED and x.decl().kind() != z3.Z3_OP_ITE:
                res = True
                break
            dk = x.decl().kind()
            if dk in (z3.Z3_OP_IDIV, z3.Z3_OP_MOD, z3.Z3_OP_DIV):
                res = True
                break
            if dk in (z3.Z3_OP_INT2BV, z3.Z3_OP_BV2INT) or x.decl().name() in ("int2bv", "bv2int", "int_to_bv", "ubv_to_int"):
                res = True
                break
            if dk in (z3.Z3_OP_SEQ_PREFIX, z3.Z3_OP_SEQ_SUFFIX, z3.Z3_OP_SEQ_CONTAINS, z3.Z3_OP_SEQ_INDEX) and x.arg(0).sort() == Str:
                res = True
                break
            todo += x.children()
    _STRINGY[k] = res
    return res


FEASIBLE_RLIMIT = int(__import__("os").environ.get("VERIF_FEASIBLE_RLIMIT", "300000"))
FEASIBLE_TIMEOUT_MS = int(__import__("os").environ.get("VERIF_FEASIBLE_MS", "400"))


def feasible(cs, timeout=None):
    """quick satisfiability test used to prune branches; `unknown` (timeout) counts as feasible: an infeasible path that is kept only
    produces obligations that are vacuously true"""
    timeout = timeout or FEASIBLE_TIMEOUT_MS
    cs = [c for c in cs if not _stringy(c)]       # string reasoning is slow: dropping constraints only over-approximates feasibility
    s = z3.Solver()
    s.set("timeout", timeout)
    s.set("rlimit", FEASIBLE_RLIMIT)
    s.add(*cs)
    return s.check() != z3.unsat


def entails(cs, goal, timeout=3000):
    s = z3.Solver()
    s.set("timeout", timeout)
    s.add(*cs)
    s.add(z3.Not(goal))
    return s.check() == z3.unsat
