"""Expression evaluation: Python expression AST -> typed z3 terms, forking on short-circuit operators in code mode."""
import ast
import builtins as _bi
import z3
from .sorts import (Int, Bool, Str, Bytes, Val, SeqV, V, VNONE, vint, vbool, vstr, vbytes, vref, box, fresh,
                    sort_of_type, split_type)
from .state import clsid, static_ref, feasible, Obligation
from .source import SourceError, EnumConst


class Unsupported(SourceError):
    pass


PY_EXC = {n: c for n, c in vars(_bi).items() if isinstance(c, type) and issubclass(c, BaseException)}


class ExprMixin:
    # ---- typing helpers ---------------------------------------------------------------------------------------------
    def field_type(self, cls, field):
        """declared type of `field` on class `cls` (walks the live MRO); returns (declaring class, type) or None"""
        if cls is None:
            return None
        mro = [cls]
        if self.repo.has_class(cls):
            mro = self.repo.cls(cls)["mro"]
        for k in mro:
            t = self.fields.get(k, {}).get(field)
            if t is not None:
                return k, t
        if cls.startswith("ast."):
            return "ast", "val"
        return None

    def subclass_ids(self, target):
        """class ids of every class that is `target` or a subclass of it (closed world)"""
        names = {target}
        if self.repo.has_class(target):
            names |= set(self.repo.subclasses(target))
        elif target.startswith("ast."):
            base = getattr(ast, target[4:], None)
            if base is not None:
                names |= {"ast." + n for n, c in vars(ast).items() if isinstance(c, type) and issubclass(c, base)}
        elif target in PY_EXC:
            names |= {n for n, c in PY_EXC.items() if issubclass(c, PY_EXC[target])}
            for k, c in self.repo.live["classes"].items():
                if "builtins." + target in c["mro"]:
                    names.add(k)
        elif target == "builtins.object" or target == "object":
            return None
        return sorted(clsid(n) for n in names)

    def is_subclass_static(self, cls, target):
        if cls is None:
            return None
        if cls == target:
            return True
        if self.repo.has_class(cls):
            return target in self.repo.cls(cls)["mro"] or ("builtins." + target) in self.repo.cls(cls)["mro"]
        if cls in PY_EXC and target in PY_EXC:
            return issubclass(PY_EXC[cls], PY_EXC[target])
        if cls in PY_EXC and self.repo.has_class(target):
            return False            # a builtin exception class is never a subclass of a class defined in the repository
        if cls.startswith("ast.") and target.startswith("ast."):
            a, b = getattr(ast, cls[4:], None), getattr(ast, target[4:], None)
            if a and b:
                return issubclass(a, b)
        return None

    def unbox(self, t, ty, st):
        if ty is None:
            return V("val", t)
        ty = ty.strip()
        if ty == "val" or "|" in ty:
            return V("val", t)
        if ty == "iterable":
            st.assume(Val.is_R(t))
            st.wf_ref(Val.r(t))
            return V("ref", Val.r(t), cls="iterable")
        if ty.endswith("?") and ty[:-1] in ("int", "bool", "str", "bytes", "float"):
            rec = {"int": Val.is_I, "bool": Val.is_B, "str": Val.is_S, "bytes": Val.is_Y, "float": Val.is_F}[ty[:-1]]
            st.assume(z3.Or(Val.is_N(t), rec(t)))
            return V("val", t)
        if ty.endswith("?"):
            base, elem = split_type(ty[:-1])
            r = Val.r(t)
            st.assume(z3.Or(Val.is_N(t), z3.And(Val.is_R(t), r >= 0, r < st.alloc_ptr(), self.tag_in(st, r, base))))
            return V("val", t, cls=base, elem=elem)
        if ty == "int":
            st.assume(Val.is_I(t))
            return V("int", Val.i(t))
        if ty == "bool":
            st.assume(Val.is_B(t))
            return V("bool", Val.b(t))
        if ty == "str":
            st.assume(Val.is_S(t))
            return V("str", Val.s(t))
        if ty == "bytes":
            st.assume(Val.is_Y(t))
            return V("bytes", Val.y(t))
        if ty == "float":
            st.assume(Val.is_F(t))
            return V("float", Val.f(t))
        if ty == "none":
            return VNONE
        base, elem = split_type(ty)
        st.assume(Val.is_R(t))
        r = Val.r(t)
        st.wf_ref(r)
        st.assume(self.tag_in(st, r, base))
        if base in self.enums:
            st.assume(z3.Or([r == static_ref(f"enum:{base}.{m}") for m in self.enums[base]]))
        return V("ref", r, cls=base, elem=elem)

    def tag_in(self, st, r, cls):
        if cls in self.enums:
            return z3.Or([r == static_ref(f"enum:{cls}.{m}") for m in self.enums[cls]])
        ids = self.subclass_ids(cls)
        if ids is None:
            return z3.BoolVal(True)
        tag = st.cls_of(r)
        return z3.Or([tag == i for i in ids]) if ids else z3.BoolVal(False)

    def fresh_of(self, ty, st, name="v"):
        ty = ty.strip()
        if ty == "int":
            return V("int", fresh(name, Int))
        if ty == "bool":
            return V("bool", fresh(name, Bool))
        if ty == "str":
            return V("str", fresh(name, Str))
        if ty == "bytes":
            return V("bytes", fresh(name, Bytes))
        if ty == "none":
            return VNONE
        if ty.startswith("seq[") or ty == "seq":
            return V("seq", fresh(name, SeqV), elem=split_type(ty)[1])
        if ty.startswith("tuple("):
            parts = [p.strip() for p in ty[6:-1].split(",")]
            return V("tuple", xs=[self.fresh_of(p, st, f"{name}.{i}") for i, p in enumerate(parts)])
        return self.unbox(fresh(name, Val), ty, st)

    def store_form(self, v, ty, st=None):
        """term to store a V into a component of declared type ty"""
        s = sort_of_type(ty)
        if s == Val:
            return box(self.materialize(v, st) if st is not None else v)
        want = {Int: "int", Bool: "bool", Str: "str", Bytes: "bytes"}[s]
        if v.k == want:
            return v.t
        if v.k == "val":
            acc = {"int": Val.i, "bool": Val.b, "str": Val.s, "bytes": Val.y}[want]
            return acc(v.t)
        if want == "int" and v.k == "bool":
            return z3.If(v.t, 1, 0)
        raise Unsupported(f"cannot store {v!r} into a field of type {ty}")

    def materialize(self, v, st):
        """static tuples / sequence values / python constants become heap objects when they must be boxed"""
        if v.k == "tuple":
            items = [box(self.materialize(x, st)) for x in v.xs]
            seq = z3.Concat(*[z3.Unit(i) for i in items]) if len(items) > 1 else (z3.Unit(items[0]) if items else z3.Empty(SeqV))
            return vref(st.new_list(seq, cls="tuple"), cls="tuple")
        if v.k == "seq":
            return vref(st.new_list(v.t, cls="list"), cls="list", elem=v.elem)
        if v.k == "const":
            return self.const_to_heap(v.xs, st)
        if v.k == "iter" and v.xs[0] in ("iter", "static"):
            # a list iterator stored somewhere: heap object (the list it walks, position)
            if v.xs[0] == "static":
                lst = st.new_list(self.as_seq(V("tuple", xs=list(v.xs[1])), st))
            else:
                inner = v.xs[1]
                if inner.k == "ref" and inner.cls == "list":
                    lst = inner.t
                else:
                    lst = st.new_list(self.as_seq(inner, st))
            r = st.alloc("iterator")
            st.H["iterator.seq"] = z3.Store(st.comp("iterator.seq", Int), r, lst)
            st.H["iterator.pos"] = z3.Store(st.comp("iterator.pos", Int), r, z3.IntVal(0))
            return vref(r, cls="iterator")
        if v.k in ("bound", "iter", "gen", "builtin", "opaque"):
            r = st.alloc(v.k)
            return vref(r, cls=v.k)
        return v

    def const_to_heap(self, x, st):
        v = self.lit(x)
        if v.k != "const":
            return self.materialize(v, st)
        if isinstance(x, (list, tuple)):
            items = [box(self.const_to_heap(i, st)) for i in x]
            seq = z3.Concat(*[z3.Unit(i) for i in items]) if len(items) > 1 else (z3.Unit(items[0]) if items else z3.Empty(SeqV))
            return vref(st.new_list(seq, cls="tuple" if isinstance(x, tuple) else "list"), cls="tuple" if isinstance(x, tuple) else "list")
        if isinstance(x, dict):
            return self.new_dict(st, [(self.const_to_heap(k, st), self.const_to_heap(val, st)) for k, val in x.items()])
        raise Unsupported(f"constant {type(x).__name__} cannot be materialised")

    def new_dict(self, st, pairs=()):
        r = st.alloc("dict")
        keys = z3.Empty(SeqV)
        m = z3.K(Val, Val.N)
        h = z3.K(Val, z3.BoolVal(False))
        for k, val in pairs:
            kb, vb = box(k), box(val)
            keys = z3.Concat(keys, z3.Unit(kb))
            m = z3.Store(m, kb, vb)
            h = z3.Store(h, kb, z3.BoolVal(True))
        st.H["dict.keys"] = z3.Store(st.comp("dict.keys"), r, keys)
        st.H["dict.map"] = z3.Store(st.comp("dict.map"), r, m)
        st.H["dict.has"] = z3.Store(st.comp("dict.has"), r, h)
        return vref(r, cls="dict")

    def lit(self, x):
        """python constant -> V"""
        if isinstance(x, bool):
            return vbool(x)
        if isinstance(x, int):
            return vint(x)
        if isinstance(x, str):
            return vstr(x)
        if isinstance(x, bytes):
            return vbytes(x)
        if x is None:
            return VNONE
        if isinstance(x, EnumConst):
            return self.enum_member(x.cls, x.name)
        if isinstance(x, tuple) and len(x) <= 8:
            return V("tuple", xs=[self.lit(i) for i in x])
        return V("const", xs=x)

    def enum_member(self, cls, name):
        full = cls if "." in cls else self.find_class(cls)
        return vref(static_ref(f"enum:{full}.{name}"), cls=full, elem=None)

    def find_class(self, short):
        for k in self.repo.live["classes"]:
            if k.split(".", 1)[1] == short:
                return k
        raise SourceError(f"unknown class {short}")

    # ---- truthiness, coercions ------------------------------------------------------------------------------------------
    def truth(self, v, st):
        """z3 Bool for python truthiness of v, or None when a method call (__len__/__bool__) is needed"""
        k = v.k
        if k == "bool":
            return v.t
        if k == "int":
            return v.t != 0
        if k == "str" or k == "bytes" or k == "seq":
            return z3.Length(v.t) > 0
        if k == "none":
            return z3.BoolVal(False)
        if k == "tuple":
            return z3.BoolVal(len(v.xs) > 0)
        if k == "const":
            return z3.BoolVal(bool(v.xs))
        if k in ("func", "cls", "module", "bound", "builtin"):
            return z3.BoolVal(True)
        if k == "ref":
            if v.cls in ("list", "tuple"):
                return z3.Length(st.items(v.t)) > 0
            if v.cls == "dict":
                return z3.Length(st.read("dict.keys", v.t)) > 0
            if v.cls == "set":
                return st.read("set.card", v.t) > 0
            if v.cls and self.repo.has_class(v.cls):
                if self.repo.attr(v.cls, "__bool__") or self.repo.attr(v.cls, "__len__"):
                    return None
            return z3.BoolVal(True)
        if k == "val":
            t = v.t
            if v.cls and self.repo.has_class(v.cls) and (self.repo.attr(v.cls, "__bool__") or self.repo.attr(v.cls, "__len__")):
                return None
            r = Val.r(t)
            tag = st.cls_of(r)
            ref_truth = z3.If(z3.Or(tag == clsid("list"), tag == clsid("tuple")), z3.Length(st.items(r)) > 0,
                              z3.If(tag == clsid("dict"), z3.Length(st.read("dict.keys", r)) > 0, z3.BoolVal(True)))
            if v.cls is not None and v.cls not in ("list", "tuple", "dict"):
                ref_truth = z3.BoolVal(True)
            return z3.If(Val.is_N(t), z3.BoolVal(False),
                         z3.If(Val.is_B(t), Val.b(t),
                               z3.If(Val.is_I(t), Val.i(t) != 0,
                                     z3.If(Val.is_S(t), z3.Length(Val.s(t)) > 0,
                                           z3.If(Val.is_Y(t), z3.Length(Val.y(t)) > 0,
                                                 z3.If(Val.is_R(t), ref_truth, z3.BoolVal(True)))))))
        raise Unsupported(f"truthiness of {v!r}")

    def as_seq(self, v, st):
        """SeqV term for list / tuple / seq values"""
        if v.k == "seq":
            return v.t
        if v.k == "tuple":
            items = [box(self.materialize(x, st)) for x in v.xs]
            return z3.Concat(*[z3.Unit(i) for i in items]) if len(items) > 1 else (z3.Unit(items[0]) if items else z3.Empty(SeqV))
        if v.k == "ref" and v.cls in ("list", "tuple", None):
            return st.items(v.t)
        if v.k == "val":
            return st.items(Val.r(v.t))
        if v.k == "const" and isinstance(v.xs, (list, tuple)):
            return self.as_seq(V("tuple", xs=[self.lit(i) for i in v.xs]), st)
        if v.k == "gen":
            return v.t
        if v.k == "iter" and v.xs[0] == "iter":
            return self.as_seq(v.xs[1], st)
        if v.k == "iter" and v.xs[0] == "reversed":
            return self.rules.REV(self.as_seq(v.xs[1], st))
        raise Unsupported(f"not a sequence: {v!r}")

    def elem_type(self, v):
        return v.elem if v.k in ("ref", "seq", "val", "gen") else None

    def as_int(self, v):
        if v.k == "int":
            return v.t
        if v.k == "bool":
            return z3.If(v.t, 1, 0)
        if v.k == "val":
            return z3.If(Val.is_B(v.t), z3.If(Val.b(v.t), 1, 0), Val.i(v.t))
        raise Unsupported(f"not an int: {v!r}")

    def as_ref(self, v, st):
        if v.k in ("ref", "func", "cls", "module", "closure"):
            return v.t
        if v.k == "val":
            return Val.r(v.t)
        raise Unsupported(f"not a reference: {v!r}")

    def py_eq(self, a, b, st):
        """z3 Bool for python `a == b` (identity for objects without __eq__, structural for scalars/tuples/lists)"""
        if a.k == "tuple" and b.k == "tuple":
            if len(a.xs) != len(b.xs):
                return z3.BoolVal(False)
            return z3.And([self.py_eq(x, y, st) for x, y in zip(a.xs, b.xs)] or [z3.BoolVal(True)])
        seqish = lambda v: v.k in ("seq", "tuple") or (v.k == "ref" and v.cls in ("list", "tuple")) or \
            (v.k == "const" and isinstance(v.xs, (list, tuple))) or (v.k == "iter" and v.xs[0] in ("iter", "reversed"))  # noqa
        if seqish(a) and seqish(b):
            return self.as_seq(a, st) == self.as_seq(b, st)
        if a.k == "none" or b.k == "none":
            o = b if a.k == "none" else a
            if o.k == "none":
                return z3.BoolVal(True)
            return Val.is_N(o.t) if o.k == "val" else z3.BoolVal(False)
        num = ("int", "bool")
        if a.k in num and b.k in num:
            return self.as_int(a) == self.as_int(b)
        if a.k == b.k and a.k in ("str", "bytes", "float"):
            return a.t == b.t
        if a.k in ("ref", "func", "cls", "module") and b.k in ("ref", "func", "cls", "module"):
            return a.t == b.t
        if a.k == "val" or b.k == "val":
            x, y = (a, b) if a.k == "val" else (b, a)
            if y.k in num:
                return z3.Or(z3.And(Val.is_I(x.t), Val.i(x.t) == self.as_int(y)),
                             z3.And(Val.is_B(x.t), z3.If(Val.b(x.t), 1, 0) == self.as_int(y)))
            if seqish(y):
                return z3.And(Val.is_R(x.t), st.items(Val.r(x.t)) == self.as_seq(y, st))
            return x.t == box(self.materialize(y, st))
        return z3.BoolVal(False)

    # ---- branching ------------------------------------------------------------------------------------------------------
    def branch(self, st, c, label=""):
        """-> [(state, bool)] for feasible outcomes of condition c"""
        cs = z3.simplify(c)
        if z3.is_true(cs):
            return [(st, True)]
        if z3.is_false(cs):
            return [(st, False)]
        out = []
        if feasible(st.pc + [c]):
            t = st.fork()
            t.pc.append(c)
            t.trail.append((label, True))
            out.append((t, True))
        if feasible(st.pc + [z3.Not(c)]):
            f = st.fork() if out else st
            f.pc.append(z3.Not(c))
            f.trail.append((label, False))
            out.append((f, False))
        return out

    def ev_truth(self, e, st):
        """evaluate e and branch on its truthiness -> [(state, bool)] (states with status != run are passed through with None)"""
        return [(s, b) for s, b, _ in self.ev_truth_v(e, st)]

    def ev_truth_v(self, e, st):
        """-> [(state, bool or None, value)]; narrows `isinstance(name, C)` tests on the true branch"""
        out = []
        narrow = None
        if (isinstance(e, ast.Call) and isinstance(e.func, ast.Name) and e.func.id == "isinstance" and len(e.args) == 2
                and isinstance(e.args[0], ast.Name) and "isinstance" not in st.env):
            narrow = e.args[0].id
        for s, v in self.ev(e, st):
            if s.status != "run":
                out.append((s, None, None))
                continue
            for s2, b in self.truth_branch(v, s, ast.unparse(e)[:40]):
                if b and narrow and narrow in s2.env:
                    self.narrow(s2, narrow, e.args[1])
                out.append((s2, b, v))
        return out

    def narrow(self, st, name, clsexpr):
        v = st.env[name]
        try:
            names = self.class_names(self.ev1(clsexpr, st))
        except Exception:  # noqa
            return
        if len(names) != 1:
            return
        c = names[0]
        prim = {"int": "int", "str": "str", "bytes": "bytes", "float": "float", "bool": "bool"}
        if v.k == "val":
            if c in prim:
                if c == "int":
                    return          # bool is an int: keep boxed
                acc = {"str": Val.s, "bytes": Val.y, "float": Val.f, "bool": Val.b}[c]
                st.env[name] = V(prim[c], acc(v.t))
            elif c in ("list", "tuple", "dict", "set") or self.repo.has_class(c) or c.startswith("ast."):
                st.env[name] = V("ref", Val.r(v.t), cls=c, elem=v.elem)
        elif v.k == "ref" and (self.repo.has_class(c) or c.startswith("ast.")):
            if v.cls is None or self.is_subclass_static(c, v.cls):
                st.env[name] = V("ref", v.t, cls=c, elem=v.elem)

    def truth_branch(self, v, s, label=""):
        c = self.truth(v, s)
        if c is not None:
            return self.branch(s, c, label)
        out = []
        cls = v.cls
        recv = v if v.k == "ref" else self.unbox(v.t, cls, s)
        meth = "__bool__" if self.repo.attr(cls, "__bool__") else "__len__"
        for s2, r in self.call_method(recv, meth, [], {}, s, None):
            if s2.status != "run":
                out.append((s2, None))
            else:
                out += self.branch(s2, self.truth(r, s2), label)
        return out

    # ---- main dispatcher ------------------------------------------------------------------------------------------------
    def ev(self, e, st):
        if st.status != "run":
            return [(st, None)]
        m = getattr(self, "ev_" + type(e).__name__, None)
        if m is None:
            raise Unsupported(f"{self.where(e)}: expression {type(e).__name__} not supported: {ast.unparse(e)[:60]}")
        return m(e, st)

    def ev1(self, e, st):
        r = self.ev(e, st)
        if len(r) != 1:
            raise Unsupported(f"{self.where(e)}: specification expression forks: {ast.unparse(e)[:80]}")
        return r[0][1]

    def ev_list(self, es, st):
        """evaluate expressions left to right -> [(state, [V])]"""
        res = [(st, [])]
        for e in es:
            nxt = []
            for s, vs in res:
                if s.status != "run":
                    nxt.append((s, vs))
                    continue
                for s2, v in self.ev(e, s):
                    nxt.append((s2, vs + [v]))
            res = nxt
        return res

    def where(self, node):
        return f"{self.cur_fn}:{getattr(node, 'lineno', '?')}"

    def ev_Constant(self, e, st):
        if isinstance(e.value, float):
            return [(st, V("float", z3.IntVal(static_ref(f"float:{e.value!r}"))))]
        if e.value is Ellipsis:
            return [(st, V("opaque"))]
        return [(st, self.lit(e.value))]

    def ev_Name(self, e, st):
        n = e.id
        if n in st.env:
            return [(st, st.env[n])]
        return [(st, self.global_name(n, st, e))]

    def ev_NamedExpr(self, e, st):
        out = []
        for s, v in self.ev(e.value, st):
            if s.status == "run":
                s.env[e.target.id] = v
            out.append((s, v))
        return out

    def global_name(self, n, st, node=None):
        m = self.cur_mod
        if n in self.spec_funcs and self.spec_mode:
            return V("builtin", cls="spec:" + n)
        if f"{m}.{n}" in self.repo.qual:
            return V("func", z3.IntVal(static_ref(f"func:{m}.{n}")), cls=f"{m}.{n}")
        if self.repo.has_class(f"{m}.{n}"):
            return V("cls", z3.IntVal(static_ref(f"class:{m}.{n}")), cls=f"{m}.{n}")
        imp = self.repo.imports.get(m, {}).get(n)
        if imp is not None:
            return self.imported(imp)
        g = self.repo.globals_src.get(m, {})
        if n in g or n in self.fields.get("module:" + m, {}):
            return self.module_global(m, n, g.get(n), st)
        if hasattr(_bi, n):
            if n in PY_EXC:
                return V("cls", z3.IntVal(static_ref("class:" + n)), cls=n)
            return V("builtin", cls=n)
        if self.spec_mode and (("module:" + n) in self.fields or n in self.repo.trees):
            # specifications name modules (pickle.load, hook._original_pickle_load) whether or not the module under verification imports them
            return self.imported(n if ("module:" + n) in self.fields and n not in self.repo.trees else "fickling." + n)
        raise Unsupported(f"{self.where(node)}: unbound name {n}")

    def imported(self, dotted):
        if dotted.startswith("fickling."):
            rest = dotted[len("fickling."):]
            if rest in self.repo.trees or rest in ("loader", "hook", "fickle", "analysis", "ml", "polyglot", "pytorch", "tracing", "context", "exception"):
                return V("module", z3.IntVal(static_ref("module:" + rest)), cls=rest)
            if self.repo.has_class(rest):
                return V("cls", z3.IntVal(static_ref("class:" + rest)), cls=rest)
            if rest in self.repo.qual:
                return V("func", z3.IntVal(static_ref("func:" + rest)), cls=rest)
            mod, _, name = rest.rpartition(".")
            if mod in self.repo.globals_src and name in self.repo.globals_src[mod]:
                return V("modglobal", xs=(mod, name))
            if rest == "__version__":
                return vstr("0")
            raise Unsupported(f"import {dotted} not resolved")
        if dotted == "fickling":
            return V("module", z3.IntVal(static_ref("module:fickling")), cls="fickling")
        parts = dotted.split(".")
        if parts[0] == "ast" and len(parts) == 2 and parts[1] in self.repo.live["ast_fields"]:
            return V("cls", z3.IntVal(static_ref("class:" + dotted)), cls=dotted)
        if len(parts) == 1:
            return V("module", z3.IntVal(static_ref("module:" + dotted)), cls=dotted)
        return V("builtin", cls=dotted)      # e.g. ast.unparse, io.BytesIO, pickletools.genops: external model by dotted name

    @staticmethod
    def fold_const(node):
        """value of a module-level arithmetic constant such as 1 << 20 or 4 * 1024 (integers and the operators + - * // << >> | & ** only)"""
        import operator
        ops = {ast.Add: operator.add, ast.Sub: operator.sub, ast.Mult: operator.mul, ast.FloorDiv: operator.floordiv, ast.LShift: operator.lshift,
               ast.RShift: operator.rshift, ast.BitOr: operator.or_, ast.BitAnd: operator.and_, ast.Pow: operator.pow}

        def go(e):
            if isinstance(e, ast.Constant) and type(e.value) is int:
                return e.value
            if isinstance(e, ast.UnaryOp) and isinstance(e.op, ast.USub):
                v = go(e.operand)
                return None if v is None else -v
            if isinstance(e, ast.BinOp) and type(e.op) in ops:
                a, b = go(e.left), go(e.right)
                if a is None or b is None or (isinstance(e.op, (ast.LShift, ast.Pow)) and not 0 <= b <= 4096) or (isinstance(e.op, ast.FloorDiv) and b == 0):
                    return None
                return ops[type(e.op)](a, b)
            return None
        return go(node)

    def module_global(self, m, n, valnode, st):
        """module-level assignment: literals are constants; everything else is a field of the module object"""
        ft = self.fields.get("module:" + m, {}).get(n)
        if ft is None:
            try:
                return self.lit(ast.literal_eval(valnode))
            except Exception:  # noqa
                pass
            live = self.repo.live.get("module_str_sets", {}).get(m, {}).get(n)
            if live is not None and live["type"] in ("frozenset", "tuple") and isinstance(valnode, ast.Call):
                # an immutable collection of strings computed at import time (frozenset(sys.builtin_module_names)): its imported value
                return V("const", xs=tuple(live["items"]))
            if isinstance(valnode, ast.BinOp):
                folded = self.fold_const(valnode)
                if folded is not None:
                    return self.lit(folded)
            if isinstance(valnode, ast.JoinedStr) or isinstance(valnode, ast.BinOp):
                return V("str", fresh("modconst." + n, Str))
            if isinstance(valnode, (ast.Attribute, ast.Name)):      # alias of another global (make_constant = ast.Constant)
                saved = (self.cur_mod, self.spec_mode, st.env)
                self.cur_mod, self.spec_mode, st.env = m, True, {}
                try:
                    return self.ev1(valnode, st)
                finally:
                    self.cur_mod, self.spec_mode, st.env = saved
            raise Unsupported(f"module global {m}.{n} has no declared type in the sidecar")
        t = st.read(f"module:{m}.{n}", z3.IntVal(static_ref("module:" + m)), sort_of_type(ft))
        return self.unbox(t, ft, st) if sort_of_type(ft) == Val else V(ft, t)
