"""Calls: every call of a repo function is replaced by the callee's contract (modular verification)."""
import ast
import z3
from .sorts import (Int, Bool, Str, Val, SeqV, V, VNONE, vint, vbool, vstr, vref, box, fresh, sort_of_type, split_type)
from .state import feasible, Obligation, clsid, static_ref
from .eval import Unsupported, PY_EXC


class Contract:
    def __init__(self, qual, params="", returns=None, requires=(), ensures=(), raises=None, may_raise=(), modifies=(),
                 loops=None, effects=(), trusted=None, pure=False, allocates=None, ensures_raise=None, ghost=None,
                 exact_raises=True, props=(), yields=None, logs=(), defines=(), may_raise_if=None, internal=(), inline_ok=False, fn_override=None, closure_env=None, notes=""):
        self.qual = qual
        self.params = parse_params(params)
        self.returns = returns
        self.requires = list(requires)
        self.ensures = list(ensures)
        self.raises = dict(raises or {})            # exception class -> condition text (raised exactly when it holds at entry)
        self.may_raise = list(may_raise)            # exception classes that may be raised (no condition given)
        self.ensures_raise = dict(ensures_raise or {})   # exception class -> [clauses that hold when it is raised]
        self.modifies = list(modifies)
        self.loops = dict(loops or {})
        self.effects = list(effects)
        self.trusted = trusted
        self.pure = pure
        self.allocates = (not pure) if allocates is None else allocates
        self.exact_raises = exact_raises
        self.props = list(props)
        self.logs = list(logs)
        self.internal = list(internal)     # postconditions proved for the function but phrased over its own ghosts: not exported to callers
        self.may_raise_if = may_raise_if      # condition (at entry) under which the may_raise exceptions can occur at all
        self.defines = list(defines)     # definitional clauses: assumed at call sites, not proof obligations (listed as trusted)
        self.yields = yields                        # element type of a generator's yielded values
        self.fn_override = fn_override
        self.closure_env = closure_env
        self.notes = notes


def parse_params(text):
    """'self: fickle.Stack, obj: val, n: int = 3' -> [(name, type, default text or None)]"""
    out = []
    depth, cur = 0, ""
    parts = []
    for ch in text:
        if ch == "[":
            depth += 1
        if ch == "]":
            depth -= 1
        if ch == "," and depth == 0:
            parts.append(cur)
            cur = ""
        else:
            cur += ch
    if cur.strip():
        parts.append(cur)
    for p in parts:
        default = None
        if "=" in p:
            p, default = p.split("=", 1)
            default = default.strip()
        name, _, ty = p.partition(":")
        out.append((name.strip(), ty.strip() or "val", default))
    return out


class InlineStub:
    def __init__(self, qual):
        self.qual = qual


class CallMixin:
    def ev_Call(self, e, st):
        if self.spec_mode and isinstance(e.func, ast.Name) and e.func.id == "old":
            return [(st, self.eval_old(e.args[0], st))]
        if self.spec_mode and isinstance(e.func, ast.Name) and e.func.id in ("forall", "exists", "implies"):
            return [(st, self.eval_quant(e, st))]
        if (isinstance(e.func, ast.Name) and e.func.id == "sorted" and len(e.args) == 1 and len(e.keywords) == 1 and e.keywords[0].arg == "key"
                and isinstance(e.keywords[0].value, ast.Attribute) and e.keywords[0].value.attr == "__getitem__"
                and ast.unparse(e.keywords[0].value.value) == ast.unparse(e.args[0]) and "sorted" not in st.env):
            # sorted(d, key=d.__getitem__): the keys of d ordered by their values — for the priority table (kept in that order from the live import)
            res = []
            for s2, v in self.ev(e.args[0], st):
                if s2.status == "run" and v.k == "priotable":
                    items = [t.xs[0] for t in v.xs.xs[1]]
                    res.append((s2, V("iter", xs=("static", items), cls="list")))
                else:
                    res = None
                    break
            if res is not None:
                return res
        out = []
        starred = [a for a in e.args if isinstance(a, ast.Starred)]
        dstar = [k for k in e.keywords if k.arg is None]
        plain_args = [a for a in e.args if not isinstance(a, ast.Starred)]
        kws = [k for k in e.keywords if k.arg is not None]
        for s, fv in self.ev(e.func, st):
            if s.status != "run":
                out.append((s, None))
                continue
            for s2, vs in self.ev_list(plain_args + [k.value for k in kws] + [a.value for a in starred] + [k.value for k in dstar], s):
                if s2.status != "run":
                    out.append((s2, None))
                    continue
                n = len(plain_args)
                args = vs[:n]
                kwargs = {k.arg: v for k, v in zip(kws, vs[n:n + len(kws)])}
                extra = vs[n + len(kws):]
                if starred or dstar:
                    kwargs["*"] = extra[:len(starred)]
                    kwargs["**"] = extra[len(starred):]
                out += self.call(fv, args, kwargs, s2, e)
        return out

    def eval_quant(self, e, st):
        """forall("j", n, "body") / exists("k", n, "body") over 0 <= j < n;  implies(a, b)"""
        kind = e.func.id
        if kind == "implies":
            saved = self.quant_goal
            self.quant_goal = not saved
            try:
                a = self.truth(self.ev1(e.args[0], st), st)
            finally:
                self.quant_goal = saved
            b = self.truth(self.ev1(e.args[1], st), st)
            return vbool(z3.Implies(a, b))
        var = e.args[0].value
        n = self.as_int(self.ev1(e.args[1], st))
        body_text = e.args[2].value
        lo = self.as_int(self.ev1(e.args[3], st)) if len(e.args) > 3 else z3.IntVal(0)
        env0 = dict(st.env)
        old0 = self.old_state
        mod0 = self.cur_mod

        def body_at(t, state):
            """formula for the body at index t, with the type facts its evaluation assumes folded in"""
            tmp = state.fork()
            tmp.env = dict(env0)
            tmp.env[var] = vint(t)
            saved = (self.spec_mode, self.old_state, self.quant_goal, self.cur_mod)
            self.spec_mode, self.old_state, self.cur_mod = True, old0, mod0
            try:
                b = self.truth(self.ev1(self.parse_spec(body_text), tmp), tmp)
            finally:
                self.spec_mode, self.old_state, self.quant_goal, self.cur_mod = saved
            facts = tmp.pc[len(state.pc):]
            for k, v in tmp.H.items():
                state.H.setdefault(k, v)
            return facts, b
        goal_mode = self.quant_goal
        if (kind == "forall") == goal_mode:
            # forall to prove, or exists assumed: one fresh index
            j = fresh(var)
            st.idx.append(j)
            rng = z3.And(j >= lo, j < n)
            if kind == "forall":
                self.quant_goal = True
                facts, b = body_at(j, st)
                for f in facts:
                    st.assume(z3.Implies(rng, f))
                return vbool(z3.Implies(rng, b))
            facts, b = body_at(j, st)
            st.assume(rng)
            for f in facts:
                st.assume(f)
            return vbool(b)
        if kind == "forall":
            # assumed universal: instantiated lazily at the index terms of the path
            snapshot = st.fork()

            def inst(t, snapshot=snapshot):
                facts, b = body_at(t, snapshot)
                return z3.Implies(z3.And(t >= lo, t < n), z3.And(facts + [b]) if facts else b)
            st.univ.append(inst)
            return vbool(True)
        # exists to prove: try the index terms known on this path
        opts = []
        for t in st.idx:
            facts, b = body_at(t, st)
            opts.append(z3.And(t >= lo, t < n, b))
        return vbool(z3.Or(opts) if opts else z3.BoolVal(False))

    def eval_old(self, expr, st):
        if self.old_state is None:
            raise Unsupported("old() outside a postcondition")
        o = self.old_state
        saved = (st.H, st.alloc_base, st.alloc_off)
        saved_y = st.yielded
        oenv = o.env
        # evaluate in the old heap but with the current parameter bindings (parameters are not reassigned in specs)
        st.H = dict(o.H)
        st.yielded = o.yielded          # yielded() under old() is what had been yielded at the old state (function / loop entry)
        try:
            v = self.ev1(expr, st)
            if v.k == "ref" and v.cls in ("list", "tuple"):
                v = V("seq", st.items(v.t), elem=v.elem)
            elif v.k == "val" and v.cls in ("list", "tuple"):
                v = V("seq", st.items(Val.r(v.t)), elem=v.elem)
            elif v.k in ("ref", "val") and v.cls in ("dict", "set"):
                r = self.as_ref(v, st)
                v = V("snap", xs={c: st.read(c, r) for c in (("dict.keys", "dict.map", "dict.has") if v.cls == "dict" else ("set.has",))},
                      cls=v.cls)
            return v
        finally:
            st.yielded = saved_y
            o.H.update({k: t for k, t in st.H.items() if k not in o.H})
            st.H = saved[0]
            for k, t in o.H.items():
                if k not in st.H:
                    st.H[k] = t

    # ---- dispatch -------------------------------------------------------------------------------------------------------
    def call(self, fv, args, kwargs, st, node):
        k = fv.k
        if k == "builtin":
            return self.call_builtin(fv.cls, args, kwargs, st, node)
        if k == "func":
            return self.call_repo(fv.cls, args, kwargs, st, node)
        if k == "bound":
            recv, name = fv.xs
            return self.call_method(recv, name, args, kwargs, st, node)
        if k == "cls":
            return self.instantiate(fv.cls, args, kwargs, st, node)
        if k == "closure":
            return self.call_closure(fv, args, kwargs, st, node)
        if k == "lambda":
            return self.call_lambda(fv, args, kwargs, st, node)
        if k == "superbound":
            recv, key = fv.xs
            return self.apply_contract(self.need_contract(key, node), [recv] + list(args), kwargs, st, node)
        if k == "superext":
            recv, ext = fv.xs
            return self.ext_models[ext](self, st, [recv] + list(args), kwargs, node)
        if k == "param_func":
            return self.apply_contract(fv.xs, args, kwargs, st, node)
        return self.call_dynamic(fv, args, kwargs, st, node)

    def call_dynamic(self, fv, args, kwargs, st, node):
        """a callee held in a variable / module binding: resolved when the path condition pins it to one known function"""
        from .state import entails, STATIC
        if fv.k in ("val", "ref"):
            r = self.as_ref(fv, st)
            isref = Val.is_R(fv.t) if fv.k == "val" else z3.BoolVal(True)
            hyps = st.hyps()
            for name, sid in list(STATIC.items()):
                if name.startswith("func:") and name[5:] in self.contracts:
                    if entails(hyps, z3.And(isref, r == sid)):
                        st.log.append(("dispatch", name[5:], getattr(node, "lineno", 0)))
                        return self.apply_contract(self.contracts[name[5:]], args, kwargs, st, node)
            for name, sid in list(STATIC.items()):
                if name.startswith("ext:") and name[4:] in self.ext_models:
                    if entails(hyps, z3.And(isref, r == sid)):
                        st.log.append(("dispatch", name[4:], getattr(node, "lineno", 0)))
                        return self.ext_models[name[4:]](self, st, args, kwargs, node)
            code = st.read("function.code", r, Int)
            for name, sid in list(STATIC.items()):
                if name.startswith("code:") and name[5:] in self.contracts:
                    if entails(hyps, z3.And(isref, code == sid)):
                        st.log.append(("dispatch", name[5:], getattr(node, "lineno", 0), r))
                        c = self.contracts[name[5:]]
                        return self.apply_contract(c, [V("ref", r, cls="function")] + list(args) if c.params and c.params[0][0] == "__closure__"
                                                   else args, kwargs, st, node)
            # a nested def without a contract whose closure object is pinned by the path condition: executed in place, its free variables
            # read from the closure's cells
            for name, sid in list(STATIC.items()):
                if name.startswith("code:") and name[5:] in self.repo.qual and name[5:] not in self.contracts and ".<locals>." in name[5:]:
                    if entails(hyps, z3.And(isref, code == sid)):
                        q = name[5:]
                        fn = self.repo.qual[q]
                        params = {a.arg for a in fn.args.posonlyargs + fn.args.args + fn.args.kwonlyargs} | \
                            ({fn.args.vararg.arg} if fn.args.vararg else set()) | ({fn.args.kwarg.arg} if fn.args.kwarg else set())
                        outer = self.repo.qual.get(q.rsplit(".<locals>.", 1)[0])
                        outer_locals = ({n.id for n in ast.walk(outer) if isinstance(n, ast.Name) and isinstance(n.ctx, ast.Store)} |
                                        {a.arg for a in outer.args.posonlyargs + outer.args.args + outer.args.kwonlyargs} |
                                        {n.name for n in ast.walk(outer) if isinstance(n, ast.FunctionDef) and n is not outer}) if outer is not None else set()
                        free = {n.id for n in ast.walk(fn) if isinstance(n, ast.Name) and isinstance(n.ctx, ast.Load)} - params
                        captured = {n: V("val", st.read(f"function.cell.{n}", r, Val)) for n in sorted(free & outer_locals)}
                        st.log.append(("dispatch", q, getattr(node, "lineno", 0), r))
                        return self.inline_call(q, args, kwargs, st, node, fn_mod=(q.split(".")[0], fn), captured=captured)
        raise Unsupported(f"{self.where(node)}: call of a computed callee {fv!r}")

    def call_lambda(self, fv, args, kwargs, st, node):
        lam, env, mod = fv.xs
        saved_env, saved_mod = st.env, self.cur_mod
        st.env = dict(env)
        for p, a in zip(lam.args.args, args):
            st.env[p.arg] = a
        self.cur_mod = mod
        try:
            res = self.ev(lam.body, st)
        finally:
            self.cur_mod = saved_mod
        for s, _ in res:
            s.env = saved_env
        return res

    def call_closure(self, fv, args, kwargs, st, node):
        qual = fv.xs[1]
        c = self.contracts.get(qual)
        if c is None:
            return self.inline_call(qual, args, kwargs, st, node, fn_mod=(fv.xs[2], fv.xs[0]), captured=dict(st.env))
        if c.params and c.params[0][0] == "__closure__":
            args = [V("ref", fv.t, cls="function")] + list(args)
        return self.apply_contract(c, args, kwargs, st, node)

    def call_repo(self, qual, args, kwargs, st, node):
        return self.apply_contract(self.need_contract(qual, node), args, kwargs, st, node)

    def call_method(self, recv, name, args, kwargs, st, node):
        """method call on a receiver: repo classes by contract (closed-world split when overridden), builtins by model"""
        cls = recv.cls
        if recv.k == "cls":
            # classmethod call: cls.m(...)
            a = self.repo.attr(recv.cls, name)
            if a is None:
                raise Unsupported(f"{self.where(node)}: {recv.cls}.{name} not found")
            return self.call_classmethod(recv.cls, name, args, kwargs, st, node)
        if recv.k in ("ref", "val") and cls and self.repo.has_class(cls):
            a = self.repo.attr(cls, name)
            if a is None:
                ext = self.external_base_method(cls, name)
                if ext is not None:
                    return self.ext_methods[(ext[1], name)](self, st, recv, args, kwargs, node)
                raise Unsupported(f"{self.where(node)}: method {cls}.{name} not found")
            return self.dispatch_method(recv, cls, name, args, kwargs, st, node)
        return self.call_builtin_method(recv, name, args, kwargs, st, node)

    def external_base_method(self, cls, name):
        for k in self.repo.cls(cls)["mro"]:
            if (k, name) in self.ext_methods:
                return ("method", k)
        return None

    def dispatch_method(self, recv, cls, name, args, kwargs, st, node):
        """closed-world dispatch: group the subclasses of the static class by the function `name` resolves to"""
        a0 = self.repo.attr(cls, name)
        if a0 is not None and a0[0]["kind"] == "staticmethod":
            key = self.method_contract_key(cls, name, a0[0])
            return self.apply_contract(self.need_contract(key, node), list(args), kwargs, st, node)
        if a0 is not None and a0[0]["kind"] == "classmethod":
            return self.call_classmethod(recv.cls, name, args, kwargs, st, node)
        impls = {}
        for k in self.repo.subclasses(cls):
            a = self.repo.attr(k, name)
            if a is None:
                continue
            key = self.method_contract_key(k, name, a[0])
            impls.setdefault(key, []).append(k)
        if len(impls) == 1:
            key = next(iter(impls))
            return self.apply_contract(self.need_contract(key, node), [recv] + list(args), kwargs, st, node)
        out = []
        tag = st.cls_of(recv.t)
        for key, ks in sorted(impls.items()):
            cond = z3.Or([tag == clsid(k) for k in ks])
            if not feasible(st.pc + [cond]):
                continue
            s = st.fork()
            s.pc.append(cond)
            narrowed = V("ref", recv.t, cls=ks[0] if len(ks) == 1 else cls, elem=recv.elem)
            out += self.apply_contract(self.need_contract(key, node), [narrowed] + list(args), kwargs, s, node)
        return out

    def method_contract_key(self, cls, name, info):
        """contract key for method `name` as seen from class `cls`: per-class key if the sidecar has one, else the owner's"""
        if f"{cls}.{name}" in self.contracts:
            return f"{cls}.{name}"
        for k in self.repo.cls(cls)["mro"]:      # behavioural subtyping: an override without its own contract inherits the base one
            if f"{k}.{name}" in self.contracts:
                return f"{k}.{name}"
        if info.get("name") and info["name"] != name:      # alias of another method (append = push)
            return self.method_contract_key(cls, info["name"], info)
        return f"{info['owner']}.{name}"

    def need_contract(self, key, node):
        c = self.contracts.get(key)
        if c is None:
            # a repo function the sidecar does not know (new helper): it is executed in place (recorded in the evidence as inlined)
            return InlineStub(key)
        return c

    def inline_call(self, key, args, kwargs, st, node, fn_mod=None, captured=None):
        """symbolically execute an un-contracted repo function at the call site (bounded depth; loops get the trivial invariant)"""
        if fn_mod is not None:
            mod, fn = fn_mod
        else:
            try:
                mod, fn = self.repo.function(key)
            except Exception:  # noqa
                raise Unsupported(f"{self.where(node)}: call of {key}, which has no contract in the sidecar and no source")
        if self.inline_depth >= 6:
            raise Unsupported(f"{self.where(node)}: inlining depth exceeded at {key}")
        self.check_decorators(key, fn)
        self.inlined.append((self.cur_fn, key))
        # (executing a helper in place is exact; what is approximate inside it — a loop without an invariant — marks the path itself, loops.py)
        a = fn.args
        names = [x.arg for x in a.posonlyargs + a.args]
        env = {}
        args = list(args)
        if "*" in kwargs:
            for extra in kwargs["*"]:
                if extra.k == "tuple":
                    args += extra.xs
        kw = {k: v for k, v in kwargs.items() if k not in ("*", "**")}
        defaults = list(a.defaults)
        dstart = len(names) - len(defaults)
        if captured:
            env.update(captured)        # a local closure reads the variables of its defining scope
        saved = (st.env, self.cur_fn, self.cur_mod, self.loop_ordinals, self.cur_contract, st.yielded)
        caller_loop_ghosts = {k: v for k, v in st.ghost.items() if isinstance(k, str) and k.startswith("loop") and k[4:5].isdigit()}
        try:
            self.cur_mod = mod
            for i, n in enumerate(names):
                if i < len(args):
                    env[n] = args[i]
                elif n in kw:
                    env[n] = kw.pop(n)
                elif i >= dstart:
                    st.env = {}
                    env[n] = self.ev1(defaults[i - dstart], st)
                else:
                    raise Unsupported(f"{self.where(node)}: missing argument {n} inlining {key}")
            if a.vararg:
                env[a.vararg.arg] = V("tuple", xs=args[len(names):])
            elif len(args) > len(names):
                raise Unsupported(f"{self.where(node)}: too many arguments inlining {key}")
            for k_, d in zip(a.kwonlyargs, a.kw_defaults):
                if k_.arg in kw:
                    env[k_.arg] = kw.pop(k_.arg)
                elif d is not None:
                    st.env = {}
                    env[k_.arg] = self.ev1(d, st)
            if a.kwarg:
                env[a.kwarg.arg] = V("kwargs", xs=kw)
            elif kw:
                raise Unsupported(f"{self.where(node)}: unexpected keyword arguments inlining {key}")
            st.env = env
            self.cur_fn = key
            self.cur_contract = None
            self.loop_ordinals = {id(l): i for i, l in enumerate(self.repo.loops(fn))}
            if self.loop_ordinals and getattr(self, "auto_loop_specs", None) is not None:
                # a helper without a contract whose loops have a shape the property module knows an invariant for (e.g. "pop down to the mark")
                auto = self.auto_loop_specs(key, fn)
                if auto:
                    self.cur_contract = Contract(key, loops=auto, props=["no-frame"])
                    self.cur_contract.auto_inline = True
            is_gen = any(isinstance(n, (ast.Yield, ast.YieldFrom)) for n in ast.walk(fn))
            if is_gen:
                st.yielded = z3.Empty(SeqV)
            self.inline_depth += 1
            try:
                finals = self.exec_block(fn.body, [st])
            finally:
                self.inline_depth -= 1
            out = []
            for f in finals:
                f.env = saved[0] if f is st else dict(saved[0])
                # ghost markers of the caller's loops (keyed by loop ordinal) must not be overwritten by the helper's own loops
                if caller_loop_ghosts or any(isinstance(k, str) and k.startswith("loop") and k[4:5].isdigit() for k in f.ghost):
                    g = {k: v for k, v in f.ghost.items() if not (isinstance(k, str) and k.startswith("loop") and k[4:5].isdigit())}
                    g.update(caller_loop_ghosts)
                    f.ghost = g
                if f.status == "raise":
                    out.append((f, None))
                    continue
                ret = f.ret if f.status == "ret" and f.ret is not None else VNONE
                if is_gen:
                    ret = V("gen", f.yielded if f.yielded is not None else z3.Empty(SeqV))
                    f.yielded = saved[5]
                f.status, f.ret = "run", None
                out.append((f, ret))
            return out
        finally:
            _, self.cur_fn, self.cur_mod, self.loop_ordinals, self.cur_contract, _ = saved

    def call_classmethod(self, cls, name, args, kwargs, st, node):
        a = self.repo.attr(cls, name)
        key = self.method_contract_key(cls, name, a[0])
        c = self.need_contract(key, node)
        if a[0]["kind"] == "classmethod":
            clsv = V("cls", z3.IntVal(static_ref("class:" + cls)), cls=cls)
            return self.apply_contract(c, [clsv] + list(args), kwargs, st, node)
        return self.apply_contract(c, list(args), kwargs, st, node)

    def call_setter(self, recv, name, v, st, node):
        key = f"{recv.cls}.{name}.setter"
        for k in self.repo.cls(recv.cls)["mro"]:
            if f"{k}.{name}.setter" in self.contracts:
                return self.apply_contract(self.contracts[f"{k}.{name}.setter"], [recv, v], {}, st, node)
        raise Unsupported(f"{self.where(node)}: property setter {key} has no contract")

    # ---- contract application -------------------------------------------------------------------------------------------
    def bind_params(self, c, args, kwargs, st, node):
        env = {}
        args = list(args)
        if "*" in kwargs:
            for extra in kwargs["*"]:
                if extra.k == "tuple":
                    args += extra.xs
                else:
                    env["*rest"] = extra
        kw = {k: v for k, v in kwargs.items() if k not in ("*", "**")}
        star = [p for p in c.params if p[0].startswith("*") and not p[0].startswith("**")]
        names = [p[0] for p in c.params]
        cut = names.index(star[0][0]) if star else len(names)
        pos = [p for p in c.params[:cut] if not p[0].startswith("*")]
        kwonly = [p for p in c.params[cut:] if not p[0].startswith("*")]        # parameters after *args are keyword-only
        for (name, ty, default), a in zip(pos, args):
            env[name] = self.coerce(a, ty, st)
        if len(args) > len(pos):
            if star:
                env[star[0][0][1:]] = V("tuple", xs=args[len(pos):])
            else:
                raise Unsupported(f"{self.where(node)}: too many arguments for {c.qual}")
        elif star:
            env[star[0][0][1:]] = env.pop("*rest", V("tuple", xs=[]))
        for name, ty, default in pos[len(args):] + kwonly:
            if name in kw:
                env[name] = self.coerce(kw.pop(name), ty, st)
            elif default is not None:
                saved_mod = self.cur_mod
                if self._spec_mod is not None:
                    self.cur_mod = self._spec_mod
                try:
                    env[name] = self.coerce(self.spec_value(default, st), ty, st)
                finally:
                    self.cur_mod = saved_mod
            else:
                raise Unsupported(f"{self.where(node)}: missing argument {name} for {c.qual}")
        dstar = [p for p in c.params if p[0].startswith("**")]
        if kw:
            if dstar:
                env[dstar[0][0][2:]] = V("kwargs", xs=kw)
            else:
                raise Unsupported(f"{self.where(node)}: unexpected keyword arguments {sorted(kw)} for {c.qual}")
        elif dstar:
            env[dstar[0][0][2:]] = V("kwargs", xs={})
        return env

    def coerce(self, v, ty, st):
        """view value v at declared type ty (no check: type obligations are generated separately where a contract asks)"""
        ty = ty.strip()
        if ty in ("val", "any") or "|" in ty:
            return v
        if v.k == "val" and ty in ("int", "bool", "str", "bytes", "float"):
            acc = {"int": Val.i, "bool": Val.b, "str": Val.s, "bytes": Val.y, "float": Val.f}[ty]
            return V(ty, acc(v.t))
        if v.k == "val" and not ty.endswith("?") and ty not in ("none", "seq") and not ty.startswith("seq["):
            base, elem = split_type(ty)
            return V("ref", Val.r(v.t), cls=base, elem=elem)
        if v.k == "ref" and v.cls is None and not ty.endswith("?"):
            base, elem = split_type(ty)
            return V("ref", v.t, cls=base, elem=elem)
        if v.k == "ref" and v.elem is None and not ty.endswith("?"):
            base, elem = split_type(ty)
            if base == v.cls and elem:
                return V("ref", v.t, cls=base, elem=elem, note=v.note)
        return v

    def apply_contract(self, c, args, kwargs, st, node):
        if isinstance(c, InlineStub):
            return self.inline_call(c.qual, args, kwargs, st, node)
        saved_spec_mod = self._spec_mod
        self._spec_mod = c.qual.split(".")[0] if c.qual.split(".")[0] in self.repo.trees else None
        try:
            return self._apply_contract(c, args, kwargs, st, node)
        finally:
            self._spec_mod = saved_spec_mod

    def _apply_contract(self, c, args, kwargs, st, node):
        q0 = c.qual.split("#")[0].split("@")[0]
        if q0 in self.repo.qual and c.fn_override is None:
            self.check_decorators(q0, self.repo.qual[q0])       # a contract on the body does not describe a call that goes through a wrapper
            if getattr(c, "variant_of", None) is None and "#" not in c.qual and "@" not in c.qual and not c.trusted:
                self.check_signature(c, self.repo.qual[q0])         # a callee whose parameters changed is not applied under a stale contract
        env = self.bind_params(c, args, kwargs, st, node)
        self.calls_seen.append((self.cur_fn, c.qual))
        st.log.append(("call-begin", c.qual, dict(env), None, getattr(node, "lineno", 0)))
        pre = st.fork()
        pre.env = env
        # preconditions are obligations of the caller
        for j, r in enumerate(c.requires):
            goal = self.spec_eval_in(r, st, env, None, goal=True)
            self.obligations.append(Obligation(f"{self.cur_fn}:pre@call:{c.qual}#{j}@{getattr(node, 'lineno', 0)}", "pre@call", st.hyps(), goal,
                                               where=self.where(node),
                                               meta=dict({"clause": r, "callee": c.qual}, **({"unannotated_loop": True} if st.ghost.get("unannotated_loop") else {}))))
            st.assume(goal)
        for eff in c.effects:
            st.log.append(("effect", eff, c.qual, getattr(node, "lineno", 0)))
        out = []
        none_of = []
        for exc, cond in c.raises.items():
            cnd = self.spec_eval_in(cond, st, env, None)
            none_of.append(z3.Not(cnd))
            if feasible(st.pc + [cnd]):
                r = st.fork()
                r.pc.append(cnd)
                for cl in list(c.ensures_raise.get(exc, [])) + list(c.ensures_raise.get("*", [])):
                    r.assume(self.spec_eval_in(cl, r, env, pre))
                self.raise_exc(r, exc)
                r.trail.append((f"{c.qual} raises {exc}", True))
                out.append((r, None))
        mr_cond = self.spec_eval_in(c.may_raise_if, st, env, None) if c.may_raise_if else None
        for exc in c.may_raise:
            if mr_cond is not None and not feasible(st.pc + [mr_cond]):
                continue
            r = st.fork()
            r.pc.append(fresh("mayraise." + exc, Bool))
            if mr_cond is not None:
                r.pc.append(mr_cond)
            self.havoc_modifies(c, r, env)
            for cl in list(c.ensures_raise.get(exc, [])) + list(c.ensures_raise.get("*", [])):
                r.assume(self.spec_eval_in(cl, r, env, pre))
            self.raise_exc(r, exc)
            r.trail.append((f"{c.qual} may raise {exc}", True))
            out.append((r, None))
        st.pc += none_of
        if not feasible(st.pc):
            return out
        self.havoc_modifies(c, st, env)
        if c.allocates:
            st.bump_alloc()
        res = VNONE
        if c.returns and c.returns != "none":
            if c.yields is not None or c.returns.startswith("gen"):
                res = V("gen", fresh("gen." + c.qual.split(".")[-1], SeqV), elem=c.yields)
            else:
                res = self.fresh_of(c.returns, st, "ret." + c.qual.split(".")[-1])
        env2 = dict(env, result=res)
        for cl in list(c.ensures) + list(c.defines):
            st.assume(self.spec_eval_in(cl, st, env2, pre))
        if not feasible(st.pc, 5000):
            # vacuity guard: the callee's postcondition contradicts what the caller knows — a contract (or encoding) error, never a proof
            from .source import SourceError
            raise SourceError(f"{self.where(node)}: the ensures of {c.qual} are inconsistent with the caller's state (vacuous path)")
        for tag, exprs in c.logs:
            st.log.append((tag,) + tuple(self.spec_value_in(x, st, env2, pre) for x in exprs) + (getattr(node, "lineno", 0),))
        self.after_call(c, env2, st, node)
        st.log.append(("call", c.qual, dict(env), res, getattr(node, "lineno", 0)))
        out.append((st, res))
        return out

    def after_call(self, c, env, st, node):
        pass

    def havoc_modifies(self, c, st, env):
        saved_origin = st.origin
        st.origin = c.qual
        try:
            self._havoc_modifies(c, st, env)
        finally:
            st.origin = saved_origin

    def _havoc_modifies(self, c, st, env):
        for m in c.modifies:
            saved, saved_mod = st.env, self.cur_mod
            st.env = dict(env)
            if self._spec_mod is not None:
                self.cur_mod = self._spec_mod
            try:
                self.havoc_target(m, st, None)
            finally:
                st.env, self.cur_mod = saved, saved_mod

    def spec_value_in(self, text, st, env, old):
        saved_env, saved_mod = st.env, self.cur_mod
        st.env = dict(env)
        if self._spec_mod is not None:
            self.cur_mod = self._spec_mod
        try:
            return self.spec_value(text, st, None, old=old)
        finally:
            st.env, self.cur_mod = saved_env, saved_mod

    def spec_eval_in(self, text, st, env, old, goal=False):
        """evaluate a clause of *another* function's contract: its parameter names only, in its own module scope"""
        saved_env, saved_mod = st.env, self.cur_mod
        st.env = dict(env)
        if self._spec_mod is not None:
            self.cur_mod = self._spec_mod
        try:
            return self.spec_eval(text, st, None, old=old, goal=goal)
        finally:
            st.env, self.cur_mod = saved_env, saved_mod

    # ---- instantiation --------------------------------------------------------------------------------------------------
    def instantiate(self, cls, args, kwargs, st, node):
        if cls.startswith("ast."):
            return self.new_ast_node(cls, args, kwargs, st, node)
        if cls in PY_EXC:
            return [(st, V("exc", xs=(cls, args[0] if args else None)))]
        if self.repo.has_class(cls):
            mro = self.repo.cls(cls)["mro"]
            if any(m.startswith("builtins.") and m[9:] in PY_EXC for m in mro):
                init = self.repo.attr(cls, "__init__")
                r = st.alloc(cls)
                obj = vref(r, cls=cls)
                if init is None:
                    return [(st, obj)]
                key = self.method_contract_key(cls, "__init__", init[0])
                return [(s, obj if s.status == "run" else None) for s, _ in
                        self.apply_contract(self.need_contract(key, node), [obj] + list(args), kwargs, st, node)]
            new = self.repo.attr(cls, "__new__")
            if new is not None and new[0]["owner"] == cls and f"{cls}.__new__" in self.contracts:
                # the class's own __new__ is a dispatcher under contract (Opcode(info=...)); subclasses go through __init__
                return self.apply_contract(self.contracts[f"{new[0]['owner']}.__new__"],
                                           [V("cls", z3.IntVal(static_ref('class:' + cls)), cls=cls)] + list(args), kwargs, st, node)
            r = st.alloc(cls)
            obj = vref(r, cls=cls)
            init = self.repo.attr(cls, "__init__")
            if init is None:
                return [(st, obj)]
            key = self.method_contract_key(cls, "__init__", init[0])
            res = self.apply_contract(self.need_contract(key, node), [obj] + list(args), kwargs, st, node)
            return [(s, obj if s.status == "run" else None) for s, _ in res]
        return self.call_builtin("new:" + cls, args, kwargs, st, node)

    def new_ast_node(self, cls, args, kwargs, st, node):
        fields = self.repo.live["ast_fields"].get(cls[4:])
        if fields is None:
            raise Unsupported(f"{self.where(node)}: unknown ast class {cls}")
        r = st.alloc(cls)
        vals = dict(zip(fields, args))
        vals.update({k: v for k, v in kwargs.items() if k not in ("*", "**")})
        for f, v in vals.items():
            self.on_ast_field(st, cls, f, v, node)
            bv = box(self.materialize(v, st))
            st.H[f"ast.{f}"] = z3.Store(st.comp(f"ast.{f}", Val), r, bv)
            self.mark_nodeowned(st, bv)
        n = vref(r, cls=cls)
        self.on_ast_new(st, n, cls, vals, node)
        return [(st, n)]

    def mark_nodeowned(self, st, bv):
        """ghost: an object stored into a field of an AST node is from now on referred to by a node"""
        if z3.is_app_of(bv, z3.Z3_OP_DT_CONSTRUCTOR) and bv.decl().name() != "R":
            return
        own = st.comp("list.nodeowned")
        r = Val.r(bv)
        st.write("list.nodeowned", r, z3.Or(Val.is_R(bv), z3.Select(own, r)))

    def on_ast_field(self, st, cls, field, v, node):
        pass

    def on_ast_new(self, st, n, cls, vals, node):
        pass
