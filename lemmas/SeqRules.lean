/-
  Rule library of pyvc (pyvc/rules.py, contracts/encoders.py L6, contracts/pickled_inv.py cd_unfold).

  The verifier never asks the SMT solvers to do induction over sequences: pointwise notions are uninterpreted symbols and the
  verifier adds *ground instances* of the rules below at the sequence terms of each verification condition.  Each rule is a
  theorem about finite sequences (lists); they are stated and proved here, once, for all element types.
  Checked by:  lean lemmas/SeqRules.lean   (Lean 4 + Mathlib, offline).
-/
import Mathlib.Data.List.Basic

open List

namespace SeqRules
variable {α : Type}

/-! ### `forall_pred` : "every element satisfies p" (NM, BELOW0, NONE_AT_LEAST_k, ...) -/

theorem all_nil (p : α → Prop) : ∀ x ∈ ([] : List α), p x := by simp

theorem all_unit (p : α → Prop) (x : α) : (∀ y ∈ [x], p y) ↔ p x := by simp

theorem all_concat (p : α → Prop) (a b : List α) :
    (∀ x ∈ a ++ b, p x) ↔ (∀ x ∈ a, p x) ∧ (∀ x ∈ b, p x) := by
  simp [or_imp, forall_and]

/-- unfolding on an extracted piece: a predicate that holds of every element holds of every element of a slice -/
theorem all_extract (p : α → Prop) (s : List α) (i n : Nat) (h : ∀ x ∈ s, p x) :
    ∀ x ∈ (s.drop i).take n, p x := by
  intro x hx
  exact h x (mem_of_mem_drop (mem_of_mem_take hx))

/-- skolemised contrapositive (contracts: has_rank): if not every element satisfies p there is a witness index -/
theorem not_all_witness (p : α → Prop) (s : List α) (h : ¬ ∀ x ∈ s, p x) :
    ∃ k, ∃ hk : k < s.length, ¬ p (s.get ⟨k, hk⟩) := by
  classical
  by_contra hne
  apply h
  intro x hx
  obtain ⟨k, hk⟩ := List.mem_iff_get.mp hx
  by_contra hp
  exact hne ⟨k.1, k.2, by rw [hk]; exact hp⟩

/-! ### element of a concatenation, prefix extension -/

theorem nth_of_concat (a b : List α) (t : Nat) (h : t < (a ++ b).length) :
    (a ++ b)[t] = if h' : t < a.length then a[t] else b[t - a.length]'(by
      simp at h; omega) := by
  split
  · next h' => exact List.getElem_append_left h'
  · next h' => exact List.getElem_append_right (by omega)

theorem prefix_extension (s : List α) (b : Nat) (h : b < s.length) :
    s.take (b + 1) = s.take b ++ [s[b]] := by
  rw [List.take_add_one]
  simp [List.getElem?_eq_getElem h]

/-! ### REV (mark scanning loops collect popped values in reverse) -/

theorem rev_snoc (a : List α) (x : α) : (a ++ [x]).reverse = x :: a.reverse := by simp

theorem rev_concat (a b : List α) : (a ++ b).reverse = b.reverse ++ a.reverse := by simp

theorem rev_length (a : List α) : a.reverse.length = a.length := by simp

theorem rev_rev (a : List α) : a.reverse.reverse = a := by simp

/-! ### last-mark uniqueness, with an arbitrary notion of "mark" (two separator kinds in fickling: MarkObject instances) -/

theorem last_mark_unique (isMark : α → Prop) (a b c d : List α) (m n : α)
    (hm : isMark m) (hn : isMark n)
    (h : a ++ m :: b = c ++ n :: d) (hb : ∀ x ∈ b, ¬ isMark x) (hd : ∀ x ∈ d, ¬ isMark x) :
    a = c ∧ m = n ∧ b = d := by
  induction a generalizing c with
  | nil =>
    cases c with
    | nil =>
      simp at h
      exact ⟨rfl, h.1, h.2⟩
    | cons y ys =>
      simp at h
      obtain ⟨rfl, h2⟩ := h
      exact absurd hn (hb n (by rw [h2]; simp))
  | cons x xs ih =>
    cases c with
    | nil =>
      simp at h
      obtain ⟨rfl, h2⟩ := h
      exact absurd hm (hd m (by rw [← h2]; simp))
    | cons y ys =>
      simp at h
      obtain ⟨rfl, h2⟩ := h
      obtain ⟨r1, r2, r3⟩ := ih ys h2
      exact ⟨by rw [r1], r2, r3⟩

/-! ### telescoping of concatenated opcode data (C06 / C14: dumps == first pickle) -/

/-- CD s n = data of the first n elements, concatenated -/
def CD {β : Type} (data : α → List β) (s : List α) (n : Nat) : List β :=
  ((s.take n).map data).flatten

theorem cd_zero {β : Type} (data : α → List β) (s : List α) : CD data s 0 = [] := by
  simp [CD]

theorem cd_succ {β : Type} (data : α → List β) (s : List α) (i : Nat) (h : i < s.length) :
    CD data s (i + 1) = CD data s i ++ data s[i] := by
  unfold CD
  rw [prefix_extension s i h, List.map_append, List.flatten_append]
  simp

/-- if every element holds exactly its slice of the input (consecutive slices), the concatenation is the input prefix -/
theorem telescoping {β : Type} (data : α → List β) (s : List α) (input : List β) (pos : Nat → Nat)
    (h0 : pos 0 = 0)
    (hs : ∀ i, ∀ hi : i < s.length, pos i ≤ pos (i + 1) ∧ data s[i] = (input.drop (pos i)).take (pos (i + 1) - pos i))
    (hle : pos s.length ≤ input.length) :
    ∀ n, n ≤ s.length → CD data s n = input.take (pos n) := by
  intro n
  induction n with
  | zero => intro _; simp [cd_zero, h0]
  | succ k ih =>
    intro hk
    have hk' : k < s.length := by omega
    rw [cd_succ data s k hk', ih (by omega)]
    obtain ⟨hmono, hdata⟩ := hs k hk'
    rw [hdata]
    have : pos (k + 1) = pos k + (pos (k + 1) - pos k) := by omega
    rw [this, List.take_add]
    simp

/-! ### L6: the line between an opcode byte and the terminating newline -/

theorem line_between (h : α) (X : List α) (nl : α) (hx : nl ∉ X) :
    ((h :: X) ++ [nl]).length - 1 = X.length + 1 ∧
    (((h :: X) ++ [nl]).drop 1).take (((h :: X) ++ [nl]).length - 2) = X := by
  constructor
  · simp
  · simp

/-- the first newline at or after offset 1 is the last element -/
theorem first_newline_is_last [DecidableEq α] (h : α) (X : List α) (nl : α) (hx : nl ∉ X) :
    ((X ++ [nl]).idxOf nl) = X.length := by
  induction X with
  | nil => simp
  | cons y ys ih =>
    have hy : y ≠ nl := by
      intro e; exact hx (by simp [e])
    have hys : nl ∉ ys := by
      intro e; exact hx (by simp [e])
    simp [hy, ih hys]

end SeqRules
