"""C18 — CLI on stacked pickles: injection is local, decompilation is one valid program."""
import os
import sys
sys.path.insert(0, os.path.dirname(os.path.dirname(os.path.abspath(__file__))))
from props.common import main, Run, run_child, ALL_SIDECARS  # noqa: E402
from props import cli_faces  # noqa: E402
from pyvc.calls import Contract  # noqa: E402

SIDE = ALL_SIDECARS + ("cli",)


def cli_contract(run):
    c = Contract("cli.main", params="argv: val = None", returns="int", may_raise=["Exception", "SystemExit", "struct.error", "fickle.PickleDecodeError", "OSError"], exact_raises=False,
                 props=["no-frame", "inferred-loop-frames"], ensures=[])
    L = cli_faces.loops_of_main(run.repo)
    if "check" in L:
        c.loops[L["check"]] = dict(invariant=["private(stacked_pickled.pickled)", "forall('j', len(stacked_pickled.pickled), 'inv(stacked_pickled.pickled[j])')"],
                                      modifies="infer")
    run.eng.contracts["cli.main"] = c
    return c


def make_replayer(run):
    cache = {}

    def replay(o):
        if "d" not in cache:
            cache["d"] = run_child(run.repo.root, "cli_diff.py", [str(run.seed)])
        d = cache["d"]
        want = "check" if ":check:" in o.name else ("decompile" if ":decompile:" in o.name else "inject")
        fl = [f for f in d.get("failures", []) if f.get("face") == want] or ([] if ":" in o.name and want != "inject" else d.get("failures", []))
        if fl:
            f = fl[0]
            return {"reproduced": True, "failing_case": f, "how": "stacks of generated pickles through the command line (replay/cli_diff.py)"}
        return {"reproduced": False, "searched": {k: v for k, v in d.items() if k != "failures"}}
    return replay


def build(run: Run):
    eng = run.eng
    run.replayers.append(make_replayer(run))
    cli_contract(run)
    eng.back_edge_hook = cli_faces.make_back_edge(run, {"inject", "decompile"})
    run.verify("cli.main", extra_post=cli_faces.inject_paths)
    eng.back_edge_hook = None
    run.verify("fickle.Interpreter.new_variable", "fickle.Interpreter.next_variable_id", "fickle.Interpreter.__init__")
    # what the CLI iterates over: the stack as StackedPickle.load builds it from a file, bytes or a non-seekable stdin (one normalised stream,
    # one Pickled per member, in order: the partition clause of C06, needed here for "exactly one pickle is edited, the others are copied")
    run.verify("fickle.Pickled.make_stream#bytes", "fickle.Pickled.make_stream#stream", "fickle.StackedPickle.load", "fickle.StackedPickle.__init__",
               "fickle.StackedPickle.__len__", "fickle.StackedPickle.__getitem__")
    run.assumptions += [
        "argparse is modelled: parse_args returns a namespace whose attributes are the destinations declared by the add_argument calls of the "
        "working tree at their declared types, or exits; options of the mutually exclusive group are not given together",
        "composition (argued, not an obligation): from 'each pickle before / after the target is written once, unedited, in order', 'the target "
        "is edited once by insert_python_eval(args.inject, run_first=not run_last, use_output_as_unpickle_result=replace_result) and then written "
        "once', Pickled.dump's contract (appends exactly dumps()) and the frame of the injection helper (it edits only the pickle it is called "
        "on), the output is the n re-serialised pickles with only the target-th changed; that an unedited pickle re-serialises to its input "
        "bytes and that the stack partitions the file is C06; what the injection does to the target is C08",
        "decompilation: each Interpreter starts numbering at the previous one's next_variable_id and the counter never decreases, new variables "
        "are named _var<counter> (Interpreter.new_variable, verified), results are named result<i>: distinct pickles use disjoint names; that the "
        "printed text is valid Python is ast.unparse's business (bounded companion)",
    ]
    d = run_child(run.repo.root, "cli_diff.py", [str(run.seed)])
    if "error" in d:
        raise RuntimeError(f"replay/cli_diff.py failed: {d}")
    viol = []
    for f in d.get("failures", []):
        if f.get("face") in ("inject", "decompile"):
            f = dict(f)
            f["name"] = f"cli_diff:{f['face']}:{f.get('what', '')[:50]}"
            if not any(v["name"] == f["name"] for v in viol):
                viol.append(f)
    run.bounded_parts.append({"name": "cli_diff", "label": "bounded",
                              "what": "replay/cli_diff.py: stacks of 1..4 generated pickles x targets 0..n x --run-last x --replace-result x file / stdin "
                                      "through fickling.cli.main; output pickles compared byte-wise with the input's, the target with the library's "
                                      "injection; decompiled stacks executed under inert stubs for result names and variable reuse",
                              "bound": {k: v for k, v in d.items() if k != "failures"}, "violations": viol[:4]})


if __name__ == "__main__":
    sys.exit(main("C18", build, sidecars=SIDE))
