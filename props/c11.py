"""C11 — user allowlist additions do not outlive or leak beyond their activation."""
import ast as _ast
import os
import sys
import z3
sys.path.insert(0, os.path.dirname(os.path.dirname(os.path.abspath(__file__))))
from props.common import main, Run, run_child, ALL_SIDECARS  # noqa: E402

SIDE = ALL_SIDECARS


def make_replayer(run):
    cache = {}

    def replay(o):
        if "d" not in cache:
            cache["d"] = run_child(run.repo.root, "allow_diff.py", [str(run.seed)])
        d = cache["d"]
        if d.get("n_failures"):
            f = d["failures"][0]
            return {"reproduced": True, "history": f.get("history"), "what": f.get("what"), "details": {k: v for k, v in f.items() if k not in ("history", "what")},
                    "how": "sequence of activate / deactivate / construct / probe operations (replay/allow_diff.py)"}
        return {"reproduced": False, "searched": {k: v for k, v in d.items() if k != "failures"}}
    return replay


def scans(run):
    """nothing but FicklingMLUnpickler.__init__ stores into an allowlist table, nothing stores into ML_ALLOWLIST, and ml.py / hook.py keep
    no other module- or class-level mutable state (a cache there would let one activation see another's additions)"""
    for m in ("ml", "hook"):
        tree = run.repo.trees[m]
        for q, fn in run.repo.qual.items():
            if q.split(".")[0] != m:
                continue
            for n in _ast.walk(fn):
                tgt = []
                if isinstance(n, (_ast.Assign, _ast.AugAssign, _ast.AnnAssign)):
                    tgt = n.targets if isinstance(n, _ast.Assign) else [n.target]
                elif isinstance(n, _ast.Delete):
                    tgt = n.targets
                for t in tgt:
                    for x in _ast.walk(t):
                        src = _ast.unparse(x)
                        if isinstance(x, (_ast.Subscript, _ast.Attribute)) and "ML_ALLOWLIST" in src:
                            run.syntactic(f"{q}:no-store-into-builtin-allowlist@{n.lineno}", "frame", False, src, where=q,
                                          meta={"clause": "nothing stores into ML_ALLOWLIST", "weak": True})
                        if isinstance(x, _ast.Attribute) and isinstance(x.ctx, _ast.Store) and isinstance(x.value, _ast.Name) \
                                and f"{m}.{x.value.id}" in run.repo.classes_src:
                            run.syntactic(f"{q}:no-class-level-state@{n.lineno}", "frame", False, src, where=q,
                                          meta={"clause": "no class-level mutable state in ml.py / hook.py", "weak": True})
                if isinstance(n, _ast.Global):
                    run.syntactic(f"{q}:no-module-level-state@{n.lineno}", "frame", False, f"global {', '.join(n.names)}", where=q,
                                  meta={"clause": "no module-level mutable state in ml.py / hook.py besides the four pickle bindings", "weak": True})
                if isinstance(n, _ast.Call) and isinstance(n.func, _ast.Attribute) and "ML_ALLOWLIST" in _ast.unparse(n.func.value) \
                        and n.func.attr in ("update", "setdefault", "pop", "clear", "popitem", "__setitem__"):
                    run.syntactic(f"{q}:no-mutation-of-builtin-allowlist@{n.lineno}", "frame", False, _ast.unparse(n)[:80], where=q,
                                  meta={"clause": "nothing mutates ML_ALLOWLIST", "weak": True})
            decos = [_ast.unparse(d) for d in fn.decorator_list]
            if any("cache" in d for d in decos):
                run.syntactic(f"{q}:no-memoisation", "frame", False, str(decos), where=q,
                              meta={"clause": "no memoised function in ml.py / hook.py", "weak": True})
    run.syntactic("ml,hook:scan:stores-into-builtin-allowlist", "frame", True, "scanned every assignment / deletion / mutating call in ml.py and hook.py",
                  where="ml.py, hook.py", meta={"clause": "scan completed"})


def creation_events(eng, c, f, entry, j, raised):
    """each call through an installed closure builds exactly one unpickler, from the additions captured by *that* closure"""
    from pyvc.state import Obligation
    from pyvc.sorts import box
    ev = [e for e in f.log[len(entry.log):] if e[0] == "call" and e[1] == "ml.FicklingMLUnpickler.__init__"]
    cell = eng.spec_value("also_allow", f, extra_env=c.closure_env(eng, entry) if c.closure_env else None)
    if raised is None:
        eng.obligations.append(Obligation(f"{c.qual}:post:one-unpickler#path{j}", "post", f.hyps(), z3.BoolVal(len(ev) == 1), where=c.qual,
                                          meta={"clause": "one FicklingMLUnpickler per call", "trail": f.trail}))
    for e in ev:
        args = e[2] if len(e) > 2 else {}
        got = args.get("also_allow") if isinstance(args, dict) else None
        goal = z3.BoolVal(False) if got is None else box(eng.materialize(got, f)) == box(eng.materialize(cell, f))
        eng.obligations.append(Obligation(f"{c.qual}:post:additions-are-the-closures#path{j}", "post", f.hyps(), goal, where=c.qual,
                                          meta={"clause": "the unpickler is built with the additions of the activation that installed this closure",
                                                "trail": f.trail}))


def build(run: Run):
    run.replayers.append(make_replayer(run))
    scans(run)
    run.verify("ml.FicklingMLUnpickler.__init__", "ml.FicklingMLUnpickler.find_class", "ml.MLAllowlist.__init__")
    run.verify("hook.activate_safe_ml_environment", "hook.remove_hook")
    for q in ("hook.activate_safe_ml_environment.<locals>.new_load", "hook.activate_safe_ml_environment.<locals>.new_loads"):
        run.verify(q, extra_post=creation_events)
    run.assumptions += [
        "history quantifier, by frames: FicklingMLUnpickler.__init__ writes only its own instance and objects it allocates (obligations), "
        "find_class writes nothing, the closures write nothing, activation / deactivation write only the four pickle bindings (C12), and no "
        "module- or class-level state exists in ml.py / hook.py (scan); hence ML_ALLOWLIST and its per-module tables are the import-time "
        "ones at every moment, and what a load permits depends only on ML_ALLOWLIST and the additions captured by the closure in force",
        "that the permitted set is *exactly* built-in + additions (the also_allow loop's functional meaning: rsplit on the last dot, add to "
        "the module's table) is covered by the bounded companion replay/allow_diff.py, not proved",
        "the closure captures the caller's list object: later in-place edits of that list by the caller change the additions in force",
        "pickle.Unpickler.__init__ / load are C code: assumed to store the stream and to resolve every global through self.find_class",
    ]
    d = run_child(run.repo.root, "allow_diff.py", [str(run.seed)])
    if "error" in d:
        raise RuntimeError(f"replay/allow_diff.py failed: {d}")
    viol = []
    for f in d.get("failures", [])[:3]:
        f = dict(f)
        f["name"] = "allow_diff:" + str(f.get("what"))[:60]
        viol.append(f)
    run.bounded_parts.append({"name": "allow_diff", "label": "bounded",
                              "what": "replay/allow_diff.py: sequences (fixed + random, length <= 8) of activate / deactivate / construct / probe; after each "
                                      "operation the permitted probe set through the four entry points is compared with built-in + active additions and "
                                      "ML_ALLOWLIST with its import-time snapshot",
                              "bound": {k: v for k, v in d.items() if k != "failures"}, "violations": viol})


if __name__ == "__main__":
    sys.exit(main("C11", build, sidecars=SIDE))
