"""C02 — checked load is fail-closed and loads exactly the bytes it analysed."""
import os
import sys
import z3
sys.path.insert(0, os.path.dirname(os.path.dirname(os.path.abspath(__file__))))
from props.common import main, Run, ALL_SIDECARS, companion_replayer, bounded_companion  # noqa: E402
from props import faces  # noqa: E402
from props.c12 import install_lemmas, dispatch_checked, HOOK_FNS  # noqa: E402

SIDE = ALL_SIDECARS


LOAD_DIFF = ("replay/load_diff.py: benign / sink-calling / analysis-raising inputs x {BytesIO, non-seekable stream, stream that serves other bytes after "
             "the first pass} x {loader.load at all six thresholds, pickle.load under the global hook, pickle.load inside the context manager}: "
             "returned object vs pickle.loads of the analysed bytes, UnsafeFileError's severity, pickle.find_class audit events and sink calls")


def name_ld(f):
    return f"load_diff:{f['kind']}:{f['way'].split('(')[0]}:{f['delivery']}"


def build(run: Run):
    install_lemmas(run)
    eng = run.eng
    arming = lambda o: o.name.split(":")[0].split(".")[0] in ("hook", "context", "lemmas_hooks")  # noqa: E731
    run.replayers.append(companion_replayer(run, "C02", "hook_diff.py", only=arming, how="operation sequences over the arming API (replay/hook_diff.py)"))
    run.replayers.append(companion_replayer(run, "C02", "load_diff.py", name_fn=name_ld, how=LOAD_DIFF))
    # the order used by the threshold test, and the aggregation the verdict comes from
    run.verify("analysis.Severity.__lt__", "analysis.Severity.__eq__", "analysis.Severity.__le__", "analysis.AnalysisResults.severity",
               "analysis.AnalysisResults.to_dict", "analysis.check_safety", "exception.UnsafeFileError.__init__",
               "analysis.AnalysisContext.__init__", "analysis.AnalysisContext.analyze", "analysis.AnalysisContext.results",
               "analysis.Analyzer.analyze", "analysis.AnalysisResults.__init__")
    # the checked loader: path obligations (fail-closed, sink dominance, same bytes, same object)
    run.verify("loader.load", extra_post=faces.loader_load_path)
    # the three ways of arming: each makes pickle.load *be* loader.load with the default threshold
    run.verify("hook.run_hook", "hook.always_check_safety", "context.FicklingContextManager.__init__",
               "context.FicklingContextManager.__enter__", "context.FicklingContextManager.__exit__", "context.check_safety")
    run.verify("lemmas_hooks.L1_arm_global", "lemmas_hooks.L1_arm_global_alias", "lemmas_hooks.L1_arm_context", extra_post=dispatch_checked)
    # check_safety must not touch what dumps() reads: its contract has an empty frame (verified: frame obligations above);
    run.informational.append("FicklingContextManager(max_acceptable_severity=X) ignores X (the lambda built in __enter__ is dead): the context "
                              "always applies the strictest threshold, which 'returns only when at or below the accepted severity' permits")
    run.assumptions += [
        "pickle.loads is the stock unpickler (UNPICKLE uninterpreted); 'equals what the stock unpickler returns' is term equality with it",
        "Pickled.load's contract (DUMPS(result) == first pickle of the stream as it was at the call; the stream is havocked afterwards) and "
        "Pickled.dumps's are callee contracts here and are verified under C06",
        "analysis raising: check_safety / Pickled.load may raise anything (may_raise); every such path is shown to reach no unpickle event",
        "the stream changes between analysis and load: modelled by never constraining later reads of the stream — the proof shows no later read exists",
    ]
    bounded_companion(run, "C02", "load_diff.py", name_fn=name_ld, what=LOAD_DIFF)
    run.trusted_base += ["pickle.loads (stock unpickler)", "open/json.dump models", "stream protocol model"]


if __name__ == "__main__":
    sys.exit(main("C02", build, sidecars=SIDE))
