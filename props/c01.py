"""C01 — analysis is inert: inspecting a pickle never executes any part of it.

Effects clauses (DESIGN S9): every function reachable from the analysis entry points gets the clause  own primitive effects ∪ callees'
clauses, recomputed from the working tree on every run (pyvc/effects.py, closed-world call resolution).  Obligation per primitive effect
site: its effect row is one the statement allows.  Unclassifiable sites (a call of a computed value, an external function without a
row, a method no repository class defines) are *weak* obligations: reported as a violation only when the bounded replay
(replay/inert_diff.py: every entry point under an audit hook over programs naming sentinel globals) shows the effect; otherwise undecided."""
import os
import sys
sys.path.insert(0, os.path.dirname(os.path.dirname(os.path.abspath(__file__))))
from props.common import main, Run, run_child  # noqa: E402
from pyvc.effects import EffectSystem  # noqa: E402
from pyvc.models import EFFECTS  # noqa: E402

ROOTS = [
    "fickle.Pickled.load", "fickle.Pickled.__init__", "fickle.StackedPickle.load", "fickle.Pickled.ast", "fickle.Pickled.properties",
    "fickle.Pickled.has_import", "fickle.Pickled.has_call", "fickle.Pickled.has_non_setstate_call", "fickle.Pickled.non_standard_imports",
    "fickle.Pickled.unsafe_imports", "fickle.Pickled.dumps", "fickle.Pickled.dump",
    "fickle.Interpreter.__init__", "fickle.Interpreter.interpret", "fickle.Interpreter.run", "fickle.Interpreter.to_ast", "fickle.Interpreter.step",
    "fickle.Interpreter.unused_assignments", "tracing.Trace.__init__", "tracing.Trace.run",
    "analysis.check_safety", "analysis.is_likely_safe", "analysis.Analyzer.analyze", "analysis.AnalysisResults.to_string",
    "analysis.AnalysisResults.to_dict", "analysis.AnalysisResults.detailed_results", "analysis.AnalysisResults.severity",
    "cli.main",
]
# effect rows of the externals the closure uses, beyond pyvc/models.py EFFECTS (each row is an assumption about code outside /repo)
ROWS = dict(EFFECTS)
ROWS.update({
    "open[read,caller-path]": ("fs-open-read(caller-path)",), "open[write,caller-path]": ("fs-open-write(caller-path)",),
    "open[read,command-line-path]": ("fs-open-read(command-line-path)",), "open[write,command-line-path]": ("fs-open-write(command-line-path)",),
    "open[read,computed-path]": ("fs-open(computed-path)",), "open[write,computed-path]": ("fs-open(computed-path)",),
    "getattr[literal-name]": (), "hasattr[literal-name]": (), "setattr[literal-name]": (), "delattr[literal-name]": (),
    "getattr[computed-name]": ("resolve-attr",), "hasattr[computed-name]": ("resolve-attr",), "setattr[computed-name]": ("setattr(computed)",),
    "sys.stdout.isatty": (), "ast.NodeVisitor.visit": (), "argparse.ArgumentParser": (), "re.match": (), "marshal.dumps": (),
    "stdlib_list.in_stdlib": ("fs-read(package-data)",),
})
PURE_PREFIXES = ("ast.", "typing.", "enum.", "abc.", "collections.", "argparse.ArgumentParser.")
# externals whose effect is one the statement forbids (named so that a failure names the effect, whatever member is called)
PREFIX_ROWS = {"importlib.": ("import",), "subprocess.": ("spawn",), "socket.": ("connect",), "os.system": ("spawn",), "os.popen": ("spawn",),
               "os.exec": ("spawn",), "os.spawn": ("spawn",), "os.remove": ("fs-delete",), "os.unlink": ("fs-delete",), "shutil.": ("fs-write",),
               "pickle.": ("unpickle",), "_pickle.": ("unpickle",), "marshal.loads": ("unmarshal",), "runpy.": ("exec",), "ctypes.": ("native-call",),
               "urllib.": ("connect",), "http.": ("connect",), "tempfile.": ("fs-write",)}
ALLOWED = {
    "stdout": "prints its report", "stderr": "prints warnings", "read(arg)": "reads the stream it was given", "seek(arg)": "repositions the stream it was given",
    "close(arg)": "closes the stream it opened / was given", "write(arg)": "writes to the stream it was given (dump, report)",
    "fs-read(package-data)": "stdlib_list reads its own bundled list of standard-library module names",
    "fs-open-read(caller-path)": "opens the file the caller names, for reading", "fs-open-write(caller-path)": "the JSON report at the path the caller passes",
    "fs-open-read(command-line-path)": "the PICKLE_FILE argument", "fs-open-write(command-line-path)": "the PICKLE_FILE argument of --create",
    "fs-write(file-arg)": "json.dump into the report file", "import(static)": "an import statement with a literal module name",
    "address": "id() (C13's concern)", "hash": "hash() (C13's concern)",
}
WEAK = {"dynamic-call", "unknown-external", "unknown-method"}


def make_replayer(run):
    cache = {}

    def replay(o):
        if "d" not in cache:
            cache["d"] = run_child(run.repo.root, "inert_diff.py", [str(run.seed)])
        d = cache["d"]
        if d.get("n_failures"):
            f = d["failures"][0]
            return {"reproduced": True, "failing_input_hex": f["bytes"], "program": f["program"], "entry_point": f["entry_point"], "events": f["events"],
                    "how": "entry point run under sys.addaudithook over programs naming sentinel globals (replay/inert_diff.py)"}
        return {"reproduced": False, "searched": {k: v for k, v in d.items() if k != "failures"}}
    return replay


def build(run: Run):
    run.replayers.append(make_replayer(run))
    es = EffectSystem(run.repo, ROWS, PURE_PREFIXES, PREFIX_ROWS)
    # dunder protocols of the repository's classes are reachable from any operator / builtin applied to their instances
    roots = list(ROOTS) + sorted(q for q in run.repo.qual if q.split(".")[0] in ("fickle", "analysis", "tracing") and ".<locals>" not in q
                                 and q.rsplit(".", 1)[-1].startswith("__") and q.rsplit(".", 1)[-1].endswith("__")
                                 and q.rsplit(".", 1)[-1] not in ("__init_subclass__",))
    missing = [r for r in ROOTS if r not in run.repo.qual]
    for r in missing:
        run.syntactic(f"{r}:entry-point-exists", "effect", False, "the entry point is not in the working tree", where=r,
                      meta={"clause": "entry point of the statement", "weak": True})
    seen, sites = es.closure(roots)
    clause = {}
    for q in seen:
        clause[q] = sorted({e for s in sites[q] for e in s.effects})
    # callers against callees: an entry point's clause is the union over its closure
    n_sites = 0
    for q in sorted(seen):
        own_sites, callees = es.own(q)
        for s in own_sites:
            for e in s.effects:
                n_sites += 1
                ok = e in ALLOWED
                run.syntactic(f"{q}:effect:{s.name}@{s.line}:{e}", "effect", ok,
                              ALLOWED.get(e, f"effect `{e}` is not among the effects the statement allows an analysis entry point"),
                              where=f"{q}:{s.line}", meta={"clause": "effects(f) ⊆ allowed: no import / resolve / call of anything named by the input, no "
                                                                     "write, spawn or connection caused by its content", "weak": e in WEAK})
        pure_sites = [s for s in own_sites if not s.effects]
        run.syntactic(f"{q}:effect:pure-sites", "effect", True, f"{len(pure_sites)} call site(s) of externals with an empty effect row; "
                      f"{len(callees)} repository callee(s) checked under their own clauses", where=q,
                      meta={"clause": "every call site of f is resolved: a repository function (checked under its own clause) or an external with a row"})
        run.extra_functions.append({"function": q, "body_sha": run.repo.body_hash(run.repo.qual[q]), "paths": 0, "normal_exit_paths": 0,
                                    "raising_paths": 0, "obligations": max(1, sum(len(s.effects) for s in own_sites)), "requires": [],
                                    "ensures": ["effects ⊆ " + "{" + ", ".join(clause[q]) + "} ∪ effects(callees)"], "raises": {},
                                    "modifies": [], "callees": [c for c in callees if c in run.repo.qual]})
    run.notes["closure_size"] = len(seen)
    run.notes["effect_sites"] = n_sites
    run.notes["entry_point_clauses"] = {r: sorted({e for q in es.closure([r])[0] for s in sites.get(q, es.own(q)[0]) for e in s.effects}) for r in ROOTS
                                        if r in run.repo.qual}
    run.assumptions = [
        "closed world: a method call on a receiver of unknown class can reach every repository method of that name (over-approximation), the "
        "builtin-type method of that name (no effect beyond the receiver), or a stream method (read/seek/write on the stream given)",
        "effect rows of externals (pyvc/models.py EFFECTS + props/c01.py ROWS) are assumed: ast.* constructors and ast.unparse are pure, "
        "pickletools.genops only reads/seeks its stream, stdlib_list.in_stdlib only reads its package data, argparse only parses argv",
        "module-level (import-time) code and C extensions are outside the clause; attribute access on fickling's own AST nodes runs no code",
        "property and dunder methods of repository classes are included in every closure (attribute loads by property name; all dunders as roots)",
        "the statement's 'as a consequence of the input's content' is read as: the only file paths opened are the caller's / command line's, "
        "and no import, attribute resolution or call has a computed (input-derived) target",
    ]
    if run.tier == "thorough" or os.environ.get("VERIF_C01_BOUNDED", "1") == "1":
        d = run_child(run.repo.root, "inert_diff.py", [str(run.seed)])
        if "error" in d:
            raise RuntimeError(f"replay/inert_diff.py failed: {d}")
        viol = []
        for f in d.get("failures", [])[:3]:
            f = dict(f)
            f["name"] = f"inert_diff:{f['entry_point']}:{f['program']}"
            viol.append(f)
        run.bounded_parts.append({"name": "inert_diff", "label": "bounded",
                                  "what": "replay/inert_diff.py: 9 entry points (parse, stacked parse, decompile+unparse, trace, check_safety, "
                                          "is_likely_safe, cli decompile / --trace / --check-safety) under sys.addaudithook over programs naming sentinel "
                                          "globals through every global-resolving / call-making opcode, natural pickles, truncations and bit flips",
                                  "bound": {k: v for k, v in d.items() if k != "failures"}, "violations": viol})


if __name__ == "__main__":
    sys.exit(main("C01", build, sidecars=()))
