"""Lemma programs over the hook / context contracts (never executed: the verifier runs them symbolically, every call is replaced
by the callee's contract).  `api_ops` stands for an arbitrary sequence of API operations; its frame is the union of their frames."""
SOURCE = '''
import pickle
import _pickle
import fickling.hook as hook
import fickling.context as context
import fickling.loader as loader


def api_ops():
    pass


def L1_arm_global(f):
    hook.run_hook()
    return pickle.load(f)


def L1_arm_global_alias(f):
    hook.always_check_safety()
    return pickle.load(f)


def L1_arm_context(f):
    with context.check_safety():
        r = pickle.load(f)
    return r


def L1_arm_ml(f, d, a):
    hook.activate_safe_ml_environment(a)
    r1 = pickle.load(f)
    r2 = pickle.loads(d)
    r3 = _pickle.load(f)
    r4 = _pickle.loads(d)
    return r4


def L1_keep_run_hook():
    hook.run_hook()


def L1_keep_activate(a):
    hook.activate_safe_ml_environment(a)


def L1_keep_enter():
    cm = context.check_safety()
    cm.__enter__()
    return cm


def L1_keep_exit(cm):
    cm.__exit__(None, None, None)


def L2_context_restores():
    try:
        with context.check_safety():
            api_ops()
    except Exception:
        pass


def L2_nested_contexts():
    with context.check_safety():
        with context.check_safety():
            with context.check_safety():
                api_ops()
            api_ops()
        api_ops()


def L2_enter_exit_touch_only_load():
    with context.check_safety():
        pass


def L3_remove():
    hook.remove_hook()
'''
