"""C07 — the safe ML environment mediates every global, including in nested unpicklings."""
import os
import re
import sys
import z3
sys.path.insert(0, os.path.dirname(os.path.dirname(os.path.abspath(__file__))))
from props.common import main, Run, run_child, load_known, ALL_SIDECARS  # noqa: E402
from props.c11 import creation_events  # noqa: E402
from props import c12  # noqa: E402
from pyvc.state import Obligation  # noqa: E402

SIDE = ALL_SIDECARS


def make_replayer(run):
    cache = {}

    def replay(o):
        if "d" not in cache:
            cache["d"] = run_child(run.repo.root, "nested_diff.py", [str(run.seed)])
        d = cache["d"]
        known = [k for k in load_known().get("known", []) if k.get("property") == "C07"]
        fl = [f for f in d.get("failures", []) if not any(re.search(k["obligation"], name_of(f)) for k in known)]
        if fl:
            f = fl[0]
            return {"reproduced": True, "failing_case": f, "how": "nested payloads through the four hooked entry points (replay/nested_diff.py)"}
        return {"reproduced": False, "searched": {k: v for k, v in d.items() if k != "failures"}}
    return replay


def name_of(f):
    return f"nested_diff:{f['through']}:{f['payload']}"


def resolve_guard(eng, c, f, entry, j, raised):
    """find_class reaches the stock resolution (import + getattr) only on paths whose condition entails 'module.name is permitted by this
    unpickler's allowlist'; on a refusing path nothing was resolved"""
    ev = [e for e in f.log[len(entry.log):] if e[0] == "resolve"]
    if raised is not None:
        eng.obligations.append(Obligation(f"{c.qual}:exc-post:nothing-resolved-before-refusal#path{j}", "post", f.hyps(), z3.BoolVal(not ev), where=c.qual,
                                          meta={"clause": "the unsafe-file error is raised before the global is resolved", "trail": f.trail}))
        return
    eng.obligations.append(Obligation(f"{c.qual}:post:resolves-once#path{j}", "post", f.hyps(), z3.BoolVal(len(ev) == 1), where=c.qual,
                                      meta={"clause": "a normal return resolved exactly the requested global", "trail": f.trail}))
    for e in ev:
        m, n = e[1], e[2]
        goal = eng.spec_eval("allow_has(self.allowlist, m, n) and m == module and n == name", f, {"m": m, "n": n}, goal=True)
        eng.obligations.append(Obligation(f"{c.qual}:post:resolved-global-is-permitted#path{j}", "post", f.hyps(), goal, where=c.qual,
                                          meta={"clause": "what is resolved is the requested global and it is in the allowlist of this unpickler", "trail": f.trail}))


def build(run: Run):
    eng = run.eng
    run.replayers.append(make_replayer(run))
    run.verify("ml.FicklingMLUnpickler.find_class", extra_post=resolve_guard)
    run.verify("ml.FicklingMLUnpickler.__init__")
    run.verify("hook.activate_safe_ml_environment")
    for q in ("hook.activate_safe_ml_environment.<locals>.new_load", "hook.activate_safe_ml_environment.<locals>.new_loads"):
        run.verify(q, extra_post=creation_events)
    c12.install_lemmas(run)
    run.verify("lemmas_hooks.L1_arm_ml", extra_post=c12.dispatch_ml)
    # no other unpickling primitive in the environment's own code: the closures and the unpickler never call the stock loaders
    for q in ("ml.FicklingMLUnpickler.find_class", "ml.FicklingMLUnpickler.__init__", "hook.activate_safe_ml_environment.<locals>.new_load",
              "hook.activate_safe_ml_environment.<locals>.new_loads"):
        r = next((x for x in run.fn_results if x.qual == q), None)
        if r is not None:
            raw = [e for e in r.effects if e[0] == "unpickle" or (e[0] == "effect" and e[1] == "unpickle")]
            run.syntactic(f"{q}:no-raw-unpickle", "post", not raw, str(raw)[:120], where=q,
                          meta={"clause": "the environment's own code never reaches pickle's stock load / loads"})
    run.assumptions += [
        "pickle.Unpickler.load (C code) resolves every global of the stream it runs through self.find_class, and REDUCE/INST/OBJ/NEWOBJ call "
        "only what find_class returned (assumed of CPython)",
        "nested unpicklings: an unpickling started by an allow-listed or user-added callable is mediated iff that callable unpickles through "
        "pickle.load / pickle.loads / _pickle.load / _pickle.loads looked up at call time (these four names are what the environment rebinds, "
        "C12); callables that instantiate pickle.Unpickler or a subclass themselves are outside what any contract on /repo can establish — "
        "covered only by the bounded companion replay/nested_diff.py (torch containers through torch.storage._load_from_bytes)",
        "which additions are in force when: C11",
    ]
    d = run_child(run.repo.root, "nested_diff.py", [str(run.seed)])
    if "error" in d:
        raise RuntimeError(f"replay/nested_diff.py failed: {d}")
    known = [k for k in load_known().get("known", []) if k.get("property") == "C07"]
    viol, hits = [], []
    for f in d.get("failures", []):
        f = dict(f)
        f["name"] = name_of(f)
        k = next((k for k in known if re.search(k["obligation"], f["name"])), None)
        if k is not None:
            if k["what"] not in hits:
                hits.append(k["what"])
        elif not any(v["name"] == f["name"] for v in viol):
            viol.append(f)
    run.bounded_parts.append({"name": "nested_diff", "label": "bounded",
                              "what": "replay/nested_diff.py: a sentinel global outside every allowlist, nested 0..3 levels deep in byte-string payloads "
                                      "handed to pickle.loads / _pickle.loads (user-added) and torch.storage._load_from_bytes (allow-listed), innermost "
                                      "payload bare / legacy PyTorch / zip PyTorch, through the four hooked entry points, three addition sets",
                              "bound": {k: v for k, v in d.items() if k != "failures"}, "known_findings": hits, "violations": viol})


if __name__ == "__main__":
    sys.exit(main("C07", build, sidecars=SIDE))
