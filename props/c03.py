"""C03 — no hidden execution: everything the VM would import or call is in the decompile."""
import os
import sys
sys.path.insert(0, os.path.dirname(os.path.dirname(os.path.abspath(__file__))))
from props.common import main, Run, run_child, ALL_SIDECARS, bounded_companion  # noqa: E402
from props.opcodes import opcode_contracts  # noqa: E402
from props.c09 import STATE_FNS  # noqa: E402

SIDE = ALL_SIDECARS
OLD = "old(interpreter.module_body._list)"
I = "interpreter"

# S3: the events (imports, calls, builds, persistent loads) of one VM step, per opcode, as required anchoring clauses over the operands
# named by the shape precondition (t0.. = operands from the bottom; seg = everything above the topmost mark)
EVENTS = {
    "GLOBAL": [f"anchored_import({I}, {OLD}, SPLIT_SP(self.arg, 0), SPLIT_SP(self.arg, 1))"],
    "STACK_GLOBAL": [f"anchored_import({I}, {OLD}, const_str(ghost_val('t0')), const_str(ghost_val('t1')))"],
    "INST": [f"anchored_import_then_call_named({I}, {OLD}, SPLIT_SP(self.arg, 0), SPLIT_SP(self.arg, 1), ghost_seq('seg'))"],
    "REDUCE": [f"anchored_call_star({I}, {OLD}, ghost_val('t0'), ghost_val('t1'))"],
    "NEWOBJ": [f"anchored_call_star({I}, {OLD}, ghost_val('t0'), ghost_val('t1'))"],
    "NEWOBJ_EX": [f"anchored_call_star_kw({I}, {OLD}, ghost_val('t0'), ghost_val('t1'), ghost_val('t2'))"],
    "OBJ": [f"anchored_call_seq({I}, {OLD}, seq_head(ghost_seq('seg')), seq_tail(ghost_seq('seg')))"],
    "BUILD": [f"anchored_build({I}, {OLD}, ghost_val('t0'), ghost_val('t1'))"],
    "BINPERSID": [f"anchored_persistent_load({I}, {OLD}, ghost_val('t0'))"],
}
EXTRA_REQ = {"STACK_GLOBAL": ["is_const_str(ghost_val('t0'))", "is_const_str(ghost_val('t1'))"]}
# opcodes the VM executes with an effect that fickling must either model (above) or refuse; a run that does nothing is allowed only for
# opcodes whose VM effect is nil
VM_NOOP = {"PROTO", "FRAME"}


def extra_ensures(name, cls, info):
    return [f"body_append_only({I}, {OLD})"] + EVENTS.get(name, [])


def make_replayer(run):
    cache = {}

    def replay(o):
        if "run" not in o.name and ":refusal:" not in o.name:
            return None
        if "d" not in cache:
            cache["d"] = run_child(run.repo.root, "event_diff.py", [])
        d = cache["d"]
        if d.get("n_failures"):
            parts = o.name.split(".")
            cls = "fickle." + parts[1] if len(parts) > 1 else ""
            names = [n for n, c in run.repo.live["OPCODES_BY_NAME"].items() if c == cls] or [n for n in REGISTRY_OPCODES if f":{n}-is-refused" in o.name]
            mine = [f for f in d["failures"] if names and names[0] in f.get("opcodes", [])] or d["failures"]
            f = mine[0]
            return {"reproduced": True, "failing_input_hex": f["bytes"], "program": f["program"], "missing": f["missing"], "decompiled": f["decompiled"],
                    "how": "pickle._Unpickler (inert find_class) event log vs top-level statements of the decompiled module"}
        return {"reproduced": False, "searched": {k: v for k, v in d.items() if k != "failures"}}
    return replay


REGISTRY_OPCODES = ("EXT1", "EXT2", "EXT4")


def build(run: Run):
    run.replayers.append(make_replayer(run))
    bounded_companion(run, "C03", "event_diff.py", [], what="replay/event_diff.py: corpus programs under pickle._Unpickler with inert find_class: every import and every call "
                      "(by callee) of the VM's event log is a top-level statement of the decompiled module")
    run.verify(*STATE_FNS)
    run.verify("fickle.Interpreter.step", "fickle.Interpreter.run", "fickle.Interpreter.to_ast", "fickle.Interpreter.interpret")
    keys = opcode_contracts(run, extra_ensures=extra_ensures)
    for name, reqs in EXTRA_REQ.items():
        cls = run.repo.live["OPCODES_BY_NAME"][name]
        run.eng.contracts[f"{cls}.run"].requires += reqs
    only = os.environ.get("VERIF_ONLY")
    refusing, silent = [], []
    for r in run.verify_batch([key for cls, key in keys if not (only and only not in key)]):
        if r.normal_paths == 0:
            refusing.append(r.qual)
    # refusal clause: an opcode class that resolves to a do-nothing run must have a nil VM effect (PROTO, FRAME); anything pickletools knows
    # and fickling does not implement is refused at parse (Opcode.__new__) — both are checked from the live tables / source
    import ast as _ast
    live = run.repo.live
    for name, cls in sorted(live["OPCODES_BY_NAME"].items()):
        a = run.repo.attr(cls, "run")
        mod, fn = run.repo.fn_from_info(a[0] if a[0]["name"] != "run_wrapper" else a[0]["closure"]["orig_run"])
        body = [s for s in fn.body if not (isinstance(s, _ast.Expr) and isinstance(s.value, _ast.Constant))]
        does_nothing = all(isinstance(s, _ast.Pass) for s in body)
        info = live["pickletools"][name]
        nil_effect = name in VM_NOOP and info["before"] == info["after"] == []
        if does_nothing:
            silent.append(name)
            run.syntactic(f"{cls}.run:refusal:no-silent-no-op", "post", nil_effect, f"{name}: run() does nothing; VM effect {info['before']} -> {info['after']}",
                          where=cls, meta={"clause": "an opcode whose run() is a no-op has no VM effect (otherwise it must be refused)"})
    # opcodes whose VM effect resolves a global the pickle does not name (the extension registry): fickling cannot anchor an import it does
    # not know, so the only behaviour the statement allows is refusal — at parse (no class) or by a run() without a normal exit
    for name in REGISTRY_OPCODES:
        cls = live["OPCODES_BY_NAME"].get(name)
        ok = cls is None or f"{cls}.run" in refusing
        run.syntactic(f"fickle:refusal:{name}-is-refused", "exc", ok,
                      "no class: refused at parse by Opcode.__new__" if cls is None else f"class {cls}: run() {'has no normal exit' if ok else 'returns normally'}",
                      where=cls or "fickle.Opcode.__new__",
                      meta={"clause": f"{name} makes the VM resolve (and possibly call) a global taken from copyreg's extension registry; it is refused rather "
                                      f"than decompiled with that resolution left out"})
    unsupported = sorted(set(live["pickletools"]) - set(live["OPCODES_BY_NAME"]))
    # Opcode.__new__ (the parse-time dispatcher): the only way it returns for `cls is Opcode` is through OPCODES_BY_NAME[info.name];
    # otherwise it raises — checked structurally on its AST (its **kwargs plumbing is outside the symbolic subset)
    mod, fn = run.repo.function("fickle.Opcode.__new__")
    src = _ast.unparse(fn)
    ok = ("if info.name in OPCODES_BY_NAME" in src and "return OPCODES_BY_NAME[info.name](*args, **kwargs)" in src
          and "raise NotImplementedError" in src)
    returns = [n for n in _ast.walk(fn) if isinstance(n, _ast.Return)]
    ok = ok and sorted(_ast.unparse(r.value) for r in returns) == ["OPCODES_BY_NAME[info.name](*args, **kwargs)", "super().__new__(cls)"]
    run.syntactic("fickle.Opcode.__new__:refusal:unknown-opcode-raises", "exc", ok, src[:200], where="fickle.Opcode.__new__",
                  meta={"clause": "for cls is Opcode: returns only OPCODES_BY_NAME[info.name](...) and raises NotImplementedError for any other name"})
    run.notes["refusing_runs (no normal exit)"] = refusing
    run.notes["silent_runs"] = silent
    run.notes["opcodes_refused_at_parse"] = unsupported
    run.assumptions += [
        "S3 (events per opcode) is written from pickletools' opcode documentation and the property statement: GLOBAL/STACK_GLOBAL import; INST import+call; "
        "REDUCE/OBJ/NEWOBJ/NEWOBJ_EX call; BUILD applies state; BINPERSID persistent_load; everything else makes no event",
        "the symbolic value of a callee/argument *is* the AST node on the symbolic stack: 'same callee and arguments' is node identity; "
        "that the node denotes the VM's value is C05's relation",
        "GLOBAL/INST arguments: pickletools joins module and name with one space and fickling splits on spaces (names containing spaces are outside the model)",
        "builtins / __builtin__ / __builtins__ globals owe no import statement: the decompiled program resolves them in the ambient builtins",
        "name capture (a later binding of the same identifier shadowing an earlier global or variable) is outside the per-opcode obligation; see DESIGN C03/C05",
    ]


if __name__ == "__main__":
    sys.exit(main("C03", build, sidecars=SIDE))
