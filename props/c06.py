"""C06 — parse / re-serialise is byte-exact; stacked pickles partition the input."""
import os
import sys
import z3
sys.path.insert(0, os.path.dirname(os.path.dirname(os.path.abspath(__file__))))
from props.common import witnesses_for, failure_name, main, Run, run_child, ALL_SIDECARS, bounded_companion  # noqa: E402
from props import faces  # noqa: E402

SIDE = ALL_SIDECARS


def make_stream_path(eng, c, f, entry, j, raised):
    """the caller's stream is consumed no further than the parse needs: make_stream itself must not read it"""
    reads = [e for e in f.log if e[0] == "read"]
    faces.syn(eng, c, f, j, "caller-stream-not-consumed", not reads,
              "make_stream does not read the caller's stream (a non-seekable stream is drained into a buffer: everything after the first pickle is lost)")


def make_replayer(run):
    cache = {}

    def replay(o):
        if "d" not in cache:
            cache["d"] = run_child(run.repo.root, "parse_diff.py", [str(run.seed)])
        d = cache["d"]
        want = "non-seekable" if "caller-stream-not-consumed" in o.name else None
        fl = witnesses_for("C06", o, d.get("failures", []), lambda f: failure_name("parse_diff", f))
        fl = [f for f in fl if (want is None) == ("non-seekable" not in f["how"])] or ([] if want else fl)
        if fl:
            f = fl[0]
            return {"reproduced": True, "failing_input_hex": f["bytes"], "delivered_as": f["how"], "what": f["what"],
                    "how": "parse + dumps vs the bytes of the first pickle (pickletools.genops as oracle), trailing bytes and stream position compared"}
        return {"reproduced": False, "searched": {k: v for k, v in d.items() if k != "failures"}}
    return replay


def build(run: Run):
    eng = run.eng
    run.replayers.append(make_replayer(run))
    bounded_companion(run, "C06", "parse_diff.py", [str(run.seed)], what="replay/parse_diff.py: corpus + natural pickles x {bytes, seekable stream after a consumed "
                      "prefix, non-seekable stream, short reads}, misaligned frames, surrogate text, text opcodes at offset 0, stacks: dumps() == the first pickle, "
                      "stream position, what follows; pickles pickletools accepts must not be refused")
    run.verify("fickle.Pickled.make_stream#bytes")
    run.verify("fickle.Pickled.make_stream#stream", extra_post=make_stream_path)
    run.verify("fickle.Opcode.has_data", "fickle.Opcode.data", "fickle.Opcode.data.setter", "fickle.Pickled.__init__", "fickle.Pickled.__len__",
               "fickle.Pickled.load", "fickle.Pickled.dumps", "fickle.Pickled.dump", "fickle.StackedPickle.__init__", "fickle.StackedPickle.load",
               "fickle.StackedPickle.__len__", "fickle.StackedPickle.__getitem__", "fickle.Opcode.encode_body")
    # opcodes without an argument are re-serialised through the base Opcode.encode (their bytes are not stored at parse time):
    # the live tables must resolve encode / encode_opcode / encode_body of every such class to the base implementation
    live = run.repo.live
    for name, cls in sorted(live["OPCODES_BY_NAME"].items()):
        if live["pickletools"][name]["arg"] is None:
            owners = {m: run.repo.attr(cls, m)[0]["owner"] for m in ("encode", "encode_opcode", "encode_body")}
            ok = all(v == "fickle.Opcode" for v in owners.values())
            run.syntactic(f"{cls}:encode:argless-opcode-uses-base-encoder", "post", ok, str(owners), where=cls,
                          meta={"clause": "an opcode without argument encodes to its one code byte (base Opcode.encode)"})
    run.verify("fickle.Opcode.encode#argless")
    run.assumptions += [
        "assumed contract of pickletools.genops (read from its source; sampled by replay/parse_diff.py): opcode k occupies content[GP(k):GP(k+1)], positions "
        "strictly increase, after yielding opcode k the stream stands at GP(k+1), a fixed-size argument of n bytes gives GP(k+1) = GP(k)+1+n, the last "
        "opcode yielded without error is STOP, malformed/truncated input raises ValueError; it resumes correctly only if the stream is where it left it "
        "(this is an *obligation* on Pickled.load at every loop back edge)",
        "stream protocol (read/seek/tell on BytesIO and seekable files) as modelled in contracts/externals.py",
        "dumps(result) == bytes of the first pickle is composed from: per-opcode data == its slice (proved), dumps == concatenation of data (proved, C14), "
        "telescoping of adjacent slices (lemmas/SeqRules.lean)",
        "opcode codes are ASCII (str.encode('latin-1') and 'utf-8' agree on them)",
    ]
    run.trusted_base += ["pickletools.genops", "io.BytesIO / stream protocol", "Opcode(info=...) constructor contract (dispatcher outside the subset)"]


if __name__ == "__main__":
    sys.exit(main("C06", build, sidecars=SIDE))
