"""C12 — hook lifecycle: protection holds while armed and is restored exactly on exit."""
import os
import sys
import z3
sys.path.insert(0, os.path.dirname(os.path.dirname(os.path.abspath(__file__))))
from props.common import main, Run, ALL_SIDECARS, companion_replayer, bounded_companion  # noqa: E402
from props import faces  # noqa: E402
from props.lemmas_hooks import SOURCE  # noqa: E402
from pyvc.calls import Contract  # noqa: E402
from pyvc.sorts import vbool, Val, Int  # noqa: E402
from pyvc.state import static_ref  # noqa: E402

SIDE = ALL_SIDECARS
HOOK_FNS = ["hook.run_hook", "hook.always_check_safety", "hook.activate_safe_ml_environment", "hook.remove_hook",
            "context.FicklingContextManager.__init__", "context.FicklingContextManager.__enter__",
            "context.FicklingContextManager.__exit__", "context.check_safety"]
BINDINGS = ["pickle.load", "_pickle.load", "pickle.loads", "_pickle.loads"]
PK = ["@list.items:nodeowned", "@ast.lineno", "@ast.col_offset", "@iterator.pos"]     # what a dispatched checked load may touch (fresh parse)


def install_lemmas(run):
    eng, K = run.eng, run.kit
    run.repo.add_virtual_module("lemmas_hooks", SOURCE)

    @K.spec("protected")
    def protected(e, st, x):
        """the binding is the checked loader or a safe-ML closure"""
        chk = e.spec_funcs["is_checked_load"](e, st, x).t
        r = e.as_ref(x, st)
        isref = Val.is_R(x.t) if x.k == "val" else z3.BoolVal(True)
        ml = z3.And(isref, st.read("function.code", r, Int) == static_ref("code:hook.activate_safe_ml_environment.<locals>.new_load"))
        return vbool(z3.Or(chk, ml))
    eng.spec_funcs["protected"] = protected
    C = eng.contracts

    def add(name, **kw):
        C[f"lemmas_hooks.{name}"] = Contract(f"lemmas_hooks.{name}", **kw)
    add("api_ops", params="", modifies=BINDINGS, may_raise=["Exception"], ensures=[], trusted="abstraction of any sequence of API operations")
    add("L1_arm_global", props=["no-frame"], params="f: stream", returns="val", requires=["pickle.loads is stock_loads()"], may_raise=["Exception"], modifies=BINDINGS, ensures=[])
    add("L1_arm_global_alias", props=["no-frame"], params="f: stream", returns="val", requires=["pickle.loads is stock_loads()"], may_raise=["Exception"], modifies=BINDINGS, ensures=[])
    add("L1_arm_context", props=["no-frame"], params="f: stream", returns="val", requires=["pickle.loads is stock_loads()"], may_raise=["Exception"], modifies=BINDINGS, ensures=[])
    add("L1_arm_ml", props=["no-frame"], params="f: stream, d: bytes, a: val", returns="val", may_raise=["Exception"], modifies=BINDINGS, ensures=[])
    add("L1_keep_run_hook", params="", modifies=BINDINGS, ensures=["protected(pickle.load)"])
    add("L1_keep_activate", params="a: val", modifies=BINDINGS, ensures=["protected(pickle.load)"])
    add("L1_keep_enter", params="", returns="context.FicklingContextManager", modifies=BINDINGS, ensures=["protected(pickle.load)"])
    add("L1_keep_exit", params="cm: context.FicklingContextManager", requires=["protected(cm.original_pickle_load)"], modifies=BINDINGS,
        ensures=["protected(pickle.load)"])
    add("L2_context_restores", params="", modifies=BINDINGS, ensures=["pickle.load is old(pickle.load)"])
    add("L2_nested_contexts", params="", modifies=BINDINGS, may_raise=["Exception"], ensures=["pickle.load is old(pickle.load)"],
        ensures_raise={"Exception": ["pickle.load is old(pickle.load)"]})
    add("L2_enter_exit_touch_only_load", params="", modifies=["pickle.load"], ensures=["pickle.load is old(pickle.load)"])
    add("L3_remove", params="", modifies=BINDINGS,
        ensures=["pickle.load is _original_pickle_load_of_hook()", "_pickle.load is _original_pickle_load_of_hook()",
                 "pickle.loads is _original_pickle_loads_of_hook()", "_pickle.loads is _original_pickle_loads_of_hook()"])

    @K.spec("_original_pickle_load_of_hook")
    def _o1(e, st):
        return e.module_attr("hook", "_original_pickle_load", st, None)

    @K.spec("_original_pickle_loads_of_hook")
    def _o2(e, st):
        return e.module_attr("hook", "_original_pickle_loads", st, None)
    eng.spec_funcs["_original_pickle_load_of_hook"] = _o1
    eng.spec_funcs["_original_pickle_loads_of_hook"] = _o2


def dispatch_checked(eng, c, f, entry, j, raised):
    """the probe load was dispatched to loader.load with the default (strictest) threshold and to nothing else"""
    d = [e for e in f.log if e[0] == "dispatch"]
    calls = [e for e in f.log if e[0] == "call-begin" and e[1] == "loader.load"]
    faces.syn(eng, c, f, j, "probe-dispatches-to-checked-loader", len(d) == 1 and d[0][1] == "loader.load" and len(calls) == 1,
              "pickle.load(f) under the armed check is loader.load(f)")
    if calls:
        thr = calls[0][2]["max_acceptable_severity"]
        faces.ob(eng, c, f, j, "probe-threshold-is-likely-safe", eng.spec_eval("doc_rank(t) == 0", f, {"t": thr}, goal=True),
                 "the threshold in force is the default LIKELY_SAFE")
    faces.syn(eng, c, f, j, "no-raw-unpickle", not faces.events(f, "unpickle"), "the lemma program itself never reaches the stock unpickler")


def dispatch_ml(eng, c, f, entry, j, raised):
    d = [e for e in f.log if e[0] == "dispatch"]
    names = [e[1].split(".")[-1] for e in d]
    if raised is None:
        faces.syn(eng, c, f, j, "four-probes-dispatch-to-ml-closures", names == ["new_load", "new_loads", "new_load", "new_loads"],
                  "pickle.load/loads and _pickle.load/loads are the safe-ML closures")
    a = entry.env["a"]
    from pyvc.sorts import V
    for k, e in enumerate(d):
        # the dispatched closure is the safe-ML closure of *this* activation: its environment (directly, or through the nested helper it
        # calls — whichever the working tree's code does) holds exactly the additions passed to the activation
        which = "is_ml_loads" if names[k] == "new_loads" else "is_ml_load"
        holds = eng.spec_funcs[which](eng, f, V("ref", e[3], cls="function"), a).t
        faces.ob(eng, c, f, j, f"closure-{k}-carries-this-activation's-additions", holds,
                 "the closure constructs unpicklers with exactly the additions of the current activation")
    faces.syn(eng, c, f, j, "no-raw-unpickle", not faces.events(f, "unpickle"), "no probe reaches the stock unpickler")


HOOK_DIFF = ("replay/hook_diff.py: every operation sequence up to length 4 and 3000 seeded random ones up to length 9 over {arm, activate ML env "
             "(without / with additions), remove, enter, leave, leave by exception, probe load, probe loads}, contexts nested up to depth 3: the four "
             "bindings classified after every operation against the statement's state machine, identity of the restored pickle.load, flagged / "
             "plain / addition probes")


def build(run: Run):
    install_lemmas(run)
    eng = run.eng
    run.replayers.append(companion_replayer(run, "C12", "hook_diff.py", how=HOOK_DIFF))
    run.verify(*HOOK_FNS)
    run.verify("lemmas_hooks.L1_arm_global", "lemmas_hooks.L1_arm_global_alias", "lemmas_hooks.L1_arm_context", extra_post=dispatch_checked)
    run.verify("lemmas_hooks.L1_arm_ml", extra_post=dispatch_ml)
    # a protection stays in force across the loads it mediates: the checked loader itself leaves the four bindings alone (its frame),
    # on its normal and on its raising paths
    run.verify("loader.load", extra_post=faces.loader_load_path)
    # preservation of `protected` by each non-removing operation, from an arbitrary protected state
    for n in ("L1_keep_run_hook", "L1_keep_activate", "L1_keep_enter"):
        eng.contracts[f"lemmas_hooks.{n}"].requires = ["protected(pickle.load)"]
    run.verify("lemmas_hooks.L1_keep_run_hook", "lemmas_hooks.L1_keep_activate", "lemmas_hooks.L1_keep_enter", "lemmas_hooks.L1_keep_exit")
    run.verify("lemmas_hooks.L2_context_restores", "lemmas_hooks.L2_nested_contexts", "lemmas_hooks.L2_enter_exit_touch_only_load",
               "lemmas_hooks.L3_remove")
    # the abstraction `api_ops` is sound: every API operation's frame is within its frame (+ fields of the manager it is called on)
    for q in HOOK_FNS:
        c = eng.contracts[q]
        extra = [m for m in c.modifies if m not in BINDINGS and not m.startswith("self.")]
        run.syntactic(f"{q}:frame-within-api-frame", "lemma", not extra, f"modifies {c.modifies}", where=q,
                      meta={"clause": "modifies is within the four bindings plus the manager's own fields"})
    # import-time facts L3 relies on (read from the live import of the working tree)
    hk = run.repo.live["hook"]
    run.syntactic("hook:import-time:_original_pickle_load-is-pickle.load-is-_pickle.load", "lemma",
                  hk["orig_load_is_pickle_load"] and hk["pickle_load_is__pickle_load"], str(hk), where="hook",
                  meta={"clause": "at import, _original_pickle_load is pickle.load is _pickle.load (so writing it into _pickle.load restores the original)"})
    run.syntactic("hook:import-time:_original_pickle_loads-is-pickle.loads-is-_pickle.loads", "lemma",
                  hk["orig_loads_is_pickle_loads"] and hk["pickle_loads_is__pickle_loads"], str(hk), where="hook",
                  meta={"clause": "at import, _original_pickle_loads is pickle.loads is _pickle.loads"})
    bounded_companion(run, "C12", "hook_diff.py", what=HOOK_DIFF)
    run.informational.append("trace `enter context; activate ML env; leave context` ends with pickle.load restored to its value on entry while "
                             "pickle.loads/_pickle.load(s) stay ML: conforming under the reading 'the context owns pickle.load' (DESIGN C12)")
    run.informational.append("a manager constructed before an arming operation and entered after it restores the binding seen at construction; "
                             "the statement's operation 'enter context' is construct+enter as one step (with fickling.check_safety():)")
    run.assumptions.append("protection 'in force' is read as: established by an arming operation and preserved by every operation except remove_hook "
                           "and a context exit whose saved binding was unprotected; pickle.loads is mediated only by the ML environment")
    run.assumptions.append("what loader.load and the ML closures do once dispatched to is C02 / C07")


if __name__ == "__main__":
    sys.exit(main("C12", build, sidecars=SIDE))
