"""C09 — stepping and tracing mirror the real pickle VM opcode by opcode."""
import os
import sys
sys.path.insert(0, os.path.dirname(os.path.dirname(os.path.abspath(__file__))))
from props.common import main, Run, run_child, ALL_SIDECARS, bounded_companion  # noqa: E402
from props.opcodes import opcode_contracts, frame_contracts  # noqa: E402

import z3  # noqa: E402
from props import faces  # noqa: E402
from pyvc.state import Obligation  # noqa: E402

SIDE = ALL_SIDECARS
RUNTIME_FNS = ["fickle.Pickled.__iter__", "fickle.Pickled.__len__", "fickle.Pickled.__getitem__", "fickle.Interpreter.__init__",
               "fickle.Interpreter.next_variable_id", "fickle.Interpreter.step", "fickle.Interpreter.run", "fickle.Interpreter.to_ast",
               "fickle.Interpreter.interpret", "tracing.Trace.__init__", "tracing.Trace.on_pop", "tracing.Trace.on_push",
               "tracing.Trace.on_memoize", "tracing.Trace.on_update_memo", "tracing.Trace.on_statement", "tracing.Trace.on_opcode"]
MUTATORS = ("fickle.Interpreter.step", "fickle.Interpreter.run", "fickle.Interpreter.to_ast", "fickle.Opcode.run", "fickle.Interpreter.stop",
            "fickle.Interpreter.new_variable", "fickle.Stack.pop", "fickle.Stack.push", "fickle.ModuleBody.append")


def direct_writes_fresh(eng, f, entry, tag, since=0):
    """tracing is passive: every write Trace.run makes *itself* (not on behalf of interpreter.step / to_ast) hits an object it allocated"""
    seen = set()
    for comp, ref, origin, _c in f.writes[since:]:
        if origin is not None or comp in ("cls", "list.nodeowned") or ref is None:
            continue
        key = (comp, ref.get_id())
        if key in seen:
            continue
        seen.add(key)
        eng.obligations.append(Obligation(f"tracing.Trace.run:frame:direct-write-{comp}#{tag}", "frame", f.hyps(), ref >= entry.alloc_ptr(),
                                          where="tracing.Trace.run", meta={"clause": "Trace.run itself writes only objects it allocated",
                                                                           "trail": f.trail}))


def trace_back_edge(eng, r, ordn, n):
    if eng.cur_fn != "tracing.Trace.run" or ordn != 0:
        return
    start = r.ghost.get("loop0_log", 0)
    body = r.log[start:]
    muts = [e for e in body if e[0] == "call-begin" and e[1] in MUTATORS]
    steps = [e for e in body if e[0] == "step"]
    ons = [e for e in body if e[0] == "on_opcode"]
    ok = len(muts) == 1 and muts[0][1] == "fickle.Interpreter.step" and len(steps) == 1 and len(ons) == 1
    eng.obligations.append(Obligation(f"tracing.Trace.run:inv-keep:one-step-one-report#{n}", "inv-keep", r.hyps(), z3.BoolVal(ok),
                                      where="tracing.Trace.run",
                                      meta={"clause": "each iteration performs exactly one interpreter.step() and reports its opcode exactly once",
                                            "seen": f"state-changing calls {[e[1] for e in muts]}, steps {len(steps)}, on_opcode reports {len(ons)}"}))
    if ok:
        eng.obligations.append(Obligation(f"tracing.Trace.run:inv-keep:reports-the-stepped-opcode#{n}", "inv-keep", r.hyps(),
                                          ons[0][1].t == steps[0][2].t, where="tracing.Trace.run",
                                          meta={"clause": "on_opcode receives the opcode step() just ran"}))
        eng.obligations.append(Obligation(f"tracing.Trace.run:inv-keep:steps-its-own-interpreter#{n}", "inv-keep", r.hyps(),
                                          steps[0][1].t == eng.spec_value("self.interpreter", r).t, where="tracing.Trace.run",
                                          meta={"clause": "the interpreter stepped is self.interpreter"}))
    direct_writes_fresh(eng, r, eng.cur_entry, f"loop0.{n}", since=len(eng.cur_entry.writes))


def trace_exit(eng, c, f, entry, j, raised):
    direct_writes_fresh(eng, f, entry, f"path{j}", since=len(entry.writes))
    if raised is None:
        tail = [e for e in f.log if e[0] == "call-begin" and e[1] in MUTATORS]
        # after the loop the only further call is to_ast(), which returns the module the last step built
        faces.syn(eng, c, f, j, "ends-with-to_ast", bool(tail) and tail[-1][1] == "fickle.Interpreter.to_ast",
                  "the traced run returns interpreter.to_ast(), the same program untraced decompilation returns")
STATE_FNS = ["fickle.Stack.__init__", "fickle.Stack.__len__", "fickle.Stack.__getitem__", "fickle.Stack.pop", "fickle.Stack.push",
             "fickle.ModuleBody.__init__", "fickle.ModuleBody.append", "fickle.ModuleBody.__len__", "fickle.ModuleBody.__getitem__",
             "fickle.ModuleBody.__iter__", "fickle.Interpreter.new_variable", "fickle.Interpreter.stop", "fickle.Get.memo_id",
             "fickle.Global.module", "fickle.Global.attr", "fickle.Inst.module", "fickle.Inst.cls"]


def make_replayer(run):
    cache = {}

    def replay(o):
        """a refuted opcode obligation is replayed by stepping the real Interpreter and the reference VM side by side over the corpus,
        restricted to programs that contain that opcode"""
        parts = o.name.split(".")
        if len(parts) < 3 or parts[0] != "fickle":
            return None
        cls = "fickle." + parts[1]
        names = [n for n, c in run.repo.live["OPCODES_BY_NAME"].items() if c == cls]
        flt = names[0] if names else ""
        if flt not in cache:
            cache[flt] = run_child(run.repo.root, "shape_diff.py", [flt] if flt else [])
        d = cache[flt]
        if d.get("n_failures"):
            f = d["failures"][0]
            return {"reproduced": True, "failing_input_hex": f["bytes"], "program": f["program"], "divergence": f,
                    "how": "fickling.Interpreter.step vs pickle._Unpickler (inert find_class) after each opcode"}
        return {"reproduced": False, "searched": {k: v for k, v in d.items() if k != "failures"}}
    return replay


def encapsulation(run):
    """syntactic obligations behind the ownership assumption `private(...)`: the backing lists of Stack and ModuleBody are only ever
    touched as `self.<field>` inside their own class, and never escape (not returned, not stored elsewhere, not passed on)"""
    import ast as _ast
    OWN = {"_stack": "Stack", "_list": "ModuleBody"}
    SAFE_CALLS = {"len", "str", "repr", "iter", "bool", "list", "tuple", "reversed"}
    for m, tree in run.repo.trees.items():
        if m in getattr(run.repo, "virtual", set()):
            continue
        parents = {}
        for n in _ast.walk(tree):
            for ch in _ast.iter_child_nodes(n):
                parents[id(ch)] = n
        for n in _ast.walk(tree):
            if isinstance(n, _ast.Attribute) and n.attr in OWN:
                cls = None
                p = n
                while id(p) in parents:
                    p = parents[id(p)]
                    if isinstance(p, _ast.ClassDef):
                        cls = p.name
                        break
                par = parents.get(id(n))
                ok_recv = isinstance(n.value, _ast.Name) and n.value.id == "self" and cls == OWN[n.attr]
                ctx_ok = (
                    (isinstance(par, _ast.Attribute)) or                                    # self._stack.pop / .append
                    (isinstance(par, _ast.Subscript) and par.value is n) or                 # self._stack[i]
                    (isinstance(par, _ast.Call) and isinstance(par.func, _ast.Name) and par.func.id in SAFE_CALLS) or
                    (isinstance(par, (_ast.Assign, _ast.AnnAssign)) and isinstance(n.ctx, _ast.Store)) or
                    isinstance(par, (_ast.UnaryOp, _ast.FormattedValue, _ast.If, _ast.BoolOp)))
                run.syntactic(f"{m}:{n.lineno}:encapsulation:{n.attr}", "frame", ok_recv and ctx_ok, _ast.unparse(par)[:100] if par else "",
                              where=f"{m}.py:{n.lineno}", meta={"clause": f"{OWN[n.attr]}.{n.attr} is private to its class and never escapes"})


def build(run: Run):
    encapsulation(run)
    run.replayers.append(make_replayer(run))
    bounded_companion(run, "C09", "shape_diff.py", [], what="replay/shape_diff.py: Interpreter.step against pickle._Unpickler opcode by opcode over the corpus: depth, mark "
                      "positions, memo keys")
    run.verify(*STATE_FNS)
    # the interpreter loop and tracing are verified against the *frame* contract of Opcode.run (before the per-class contracts exist)
    run.verify(*RUNTIME_FNS)
    run.eng.back_edge_hook = trace_back_edge
    run.verify("tracing.Trace.run", extra_post=trace_exit)
    run.eng.back_edge_hook = None
    for key in frame_contracts(run):
        if not os.environ.get("VERIF_ONLY") or os.environ["VERIF_ONLY"] in key:
            run.verify(key)
    keys = opcode_contracts(run)
    only = os.environ.get("VERIF_ONLY")
    zero_normal = []
    for r in run.verify_batch([key for cls, key in keys if not (only and only not in key)]):
        if r.normal_paths == 0:
            zero_normal.append(r.qual)
    run.notes["opcode_classes"] = len(run.repo.live["OPCODES_BY_NAME"])
    run.notes["runs_with_no_normal_exit (refuse)"] = zero_normal
    run.assumptions += [
        "S1 (stack effect) is generated from pickletools.opcodes[*].stack_before/after of the baseline interpreter; the VM stack is taken flat "
        "(marks are slots), the metastack being its split at marks",
        "S2 (memo effect): PUT/BINPUT/LONG_BINPUT add key arg, MEMOIZE adds key len(memo), GET-family require the key; all else identity",
        "per-opcode obligations are the inductive step of 'for every prefix of every program': Interpreter.step runs exactly one opcode.run",
    ]
    run.trusted_base += ["collections.abc.Sequence mix-ins of Stack (iteration = indices 0..len-1)", "ast node constructors (field stores only)",
                         "last-mark-uniqueness rule instances (proved in lemmas/SeqRules.lean)"]


if __name__ == "__main__":
    sys.exit(main("C09", build, sidecars=SIDE))
