"""Per-opcode contracts instantiated from the specification tables (S1: pickletools stack effect, S2: memo effect).
Shared by C09 (shape), C03 (anchoring), C13 (types)."""
import ast
from pyvc.calls import Contract

MEMO_PUT = {"PUT", "BINPUT", "LONG_BINPUT"}
MEMO_GET = {"GET", "BINGET", "LONG_BINGET"}
STK = "interpreter.stack._stack"
MAY_RAISE = ["ValueError", "IndexError", "KeyError", "NotImplementedError", "TypeError", "AttributeError", "OverflowError"]


def shape_spec(name, info):
    """S1 for one opcode -> dict(requires, pre_text, expected clauses, has_mark)"""
    before, after = info["before"], info["after"]
    req, ens = ["wf_interp(interpreter)", "is_data(self.arg)"], []
    if "mark" in before:
        i = before.index("mark")
        objs_below = [f"ghost_val('b{j}')" for j in range(i)]
        minlen = sum(1 for a in before[i + 1:] if a != "stackslice")
        exact = "stackslice" not in before[i + 1:]
        pre = "ghost_seq('base')" + (" + [" + ", ".join(objs_below) + "]" if objs_below else "")
        req.append(f"{STK} == {pre} + [ghost_val('m')] + ghost_seq('seg')")
        req.append("is_mark(ghost_val('m'))")
        req.append("NM(ghost_seq('seg'))")
        req.append(f"len(ghost_seq('seg')) {'==' if exact else '>='} {minlen}")
        for o in objs_below:
            req.append(f"not is_mark({o})")
        has_mark = True
    else:
        tops = [f"ghost_val('t{j}')" for j in range(len(before))]
        pre = None
        req.append(f"{STK} == ghost_seq('base')" + (" + [" + ", ".join(tops) + "]" if tops else ""))
        for t in tops:
            if name != "POP":
                req.append(f"not is_mark({t})")
        has_mark = False
    n = len(after)
    ens.append("wf_interp(interpreter)")
    ens.append(f"len({STK}) == len(ghost_seq('base')) + {n}")
    ens.append(f"{STK}[:len(ghost_seq('base'))] == ghost_seq('base')")
    for j, a in enumerate(after):
        pos = f"{STK}[len(ghost_seq('base')) + {j}]"
        ens.append(f"is_mark({pos})" if a == "mark" else f"not is_mark({pos})")
    return dict(requires=req, ensures=ens, pre=pre, has_mark=has_mark)


def memo_spec(name):
    """S2: effect on the key set of the memo"""
    top = [f"len({STK}) > 0", f"not is_mark({STK}[-1])"]      # the VM memoises the top of stack, which must exist and not be a mark
    if name in MEMO_PUT:
        return (["isinstance(self.arg, int)"] + top, ["memo_keys_are(interpreter.memory, old(interpreter.memory), self.arg)"])
    if name == "MEMOIZE":
        return (top, ["memo_keys_are(interpreter.memory, old(interpreter.memory), len(old(interpreter.memory)))"])
    if name in MEMO_GET:
        return (["memo_has(interpreter.memory, self.arg)"], ["memo_keys_same(interpreter.memory, old(interpreter.memory))"])
    return ([], ["memo_keys_same(interpreter.memory, old(interpreter.memory))"])


def scanning_loops(fn, pre_text):
    """loop specs for 'pop until MARK' loops of an opcode run: found structurally (a while loop whose body pops the interpreter stack)"""
    specs = {}
    ordn = -1

    def walk(n):
        nonlocal ordn
        for k in ast.iter_child_nodes(n):
            if isinstance(k, (ast.FunctionDef, ast.Lambda, ast.ClassDef)):
                continue
            if isinstance(k, (ast.For, ast.While)):
                ordn += 1
                if isinstance(k, ast.For):
                    lists = []
                    for s in ast.walk(k):
                        if isinstance(s, ast.Call) and isinstance(s.func, ast.Attribute) and s.func.attr in ("append", "insert", "extend") \
                                and isinstance(s.func.value, ast.Name) and s.func.value.id not in lists:
                            lists.append(s.func.value.id)
                    specs[ordn] = dict(invariant=[], modifies=[f"{l}[]" for l in lists], allocates=False)
                if isinstance(k, ast.While):
                    var = None
                    lists = []
                    content = []
                    for s in ast.walk(k):
                        if isinstance(s, ast.Call) and isinstance(s.func, ast.Attribute) and isinstance(s.func.value, ast.Name):
                            if s.func.attr == "append" and len(s.args) == 1 and isinstance(s.args[0], ast.Name):
                                content.append((s.func.value.id, s.args[0].id, "rev"))
                            if s.func.attr == "insert" and len(s.args) == 2 and ast.unparse(s.args[0]) == "0" and isinstance(s.args[1], ast.Name):
                                content.append((s.func.value.id, s.args[1].id, "same"))
                    for s in ast.walk(k):
                        if isinstance(s, ast.Assign) and isinstance(s.value, ast.Call) and ast.unparse(s.value) == "interpreter.stack.pop()" \
                                and isinstance(s.targets[0], ast.Name):
                            var = s.targets[0].id
                        if isinstance(s, ast.Call) and isinstance(s.func, ast.Attribute) and s.func.attr in ("append", "insert", "extend") \
                                and isinstance(s.func.value, ast.Name) and s.func.value.id not in lists:
                            lists.append(s.func.value.id)
                    if var is not None:
                        spec = dict(ghost_init={"tail": "empty_seq()"},
                                    invariant=[f"old({STK}) == {STK} + tail", "NM(tail)"],
                                    ghost_step={"tail": f"seq1({var}) + tail"},
                                    modifies=[f"{STK}[]"] + [f"{l}[]" for l in lists],
                                    decreases=f"len({STK})", allocates=False)
                        mine = [c for c in content if c[1] == var]
                        if len(mine) == 1 and len(lists) == 1:      # one list collects exactly the popped values
                            spec["invariant"].append(f"tail == rev({mine[0][0]})" if mine[0][2] == "rev" else f"tail == seq_of({mine[0][0]})")
                        if pre_text:
                            spec["at_break"] = [f"last_mark_unique({pre_text}, ghost_val('m'), ghost_seq('seg'), {STK}, {var}, tail)"]
                            # the same exit written as `if isinstance(x, MarkObject): return ...` inside the loop
                            rets = [r_ for i_ in ast.walk(k) if isinstance(i_, ast.If) and "MarkObject" in ast.unparse(i_.test) and var in ast.unparse(i_.test)
                                    for r_ in i_.body if isinstance(r_, ast.Return)]
                            if rets:
                                spec["at_return"] = list(spec["at_break"])
                        specs[ordn] = spec
            walk(k)
    walk(fn)
    return specs


def install_memo_specs(K_or_eng):
    import z3
    from pyvc.sorts import vbool, box, Val
    funcs = K_or_eng.spec_funcs

    def has_of(eng, st, d):
        if d.k == "snap":
            return d.xs["dict.has"]
        return st.read("dict.has", eng.as_ref(d, st))

    def memo_keys_same(eng, st, a, b):
        return vbool(has_of(eng, st, a) == has_of(eng, st, b))

    def memo_keys_are(eng, st, a, b, key):
        return vbool(has_of(eng, st, a) == z3.Store(has_of(eng, st, b), box(key), z3.BoolVal(True)))

    def memo_has(eng, st, d, key):
        k = box(key)
        return vbool(z3.Select(has_of(eng, st, d), z3.If(Val.is_I(k), k, Val.I(eng.int_of_val(k)))))
    funcs["memo_keys_same"] = memo_keys_same
    funcs["memo_keys_are"] = memo_keys_are
    funcs["memo_has"] = memo_has


def install_auto_loop_specs(eng):
    def auto_loop_specs(key, fn):
        """a helper without a contract that pops the interpreter's stack down to a mark (the loop several opcodes share when it is factored
        out) gets the same invariant the opcodes' own scanning loops get"""
        import ast as _ast
        has_scan = any(isinstance(n, _ast.While) and any(isinstance(s_, _ast.Call) and _ast.unparse(s_) == "interpreter.stack.pop()" for s_ in _ast.walk(n))
                       for n in _ast.walk(fn))
        params = [a.arg for a in fn.args.posonlyargs + fn.args.args]
        if not has_scan or "interpreter" not in params:
            return None
        # inside the verification of an opcode's run: the stack shape that opcode's contract assumes (so the break point exports the same facts)
        vc = getattr(eng, "verify_contract", None)
        return scanning_loops(fn, getattr(vc, "scan_pre", None))
    eng.auto_loop_specs = auto_loop_specs


def frame_contracts(run):
    """every concrete opcode run against the generic frame contract fickle.Opcode.run (what Interpreter.step assumes of it)"""
    import copy
    eng, repo = run.eng, run.repo
    install_auto_loop_specs(eng)
    base = eng.contracts["fickle.Opcode.run"]
    out = []
    for name, cls in sorted(repo.live["OPCODES_BY_NAME"].items()):
        a = repo.attr(cls, "run")
        rinfo = a[0]
        wrapped = rinfo["name"] == "run_wrapper"

        def mk(key, fn, params, closure_env=None, loops=None):
            c = copy.copy(base)
            c.qual, c.fn_override, c.closure_env = key, fn, closure_env
            c.params = params
            c.loops = loops or {}
            c.logs = []
            c.requires = ["is_data(self.arg)"]
            eng.contracts[key] = c
            out.append(key)
            return c
        from pyvc.calls import parse_params
        if wrapped:
            omod, ofn = repo.fn_from_info(rinfo["closure"]["orig_run"])
            oc = mk(f"{cls}.run@orig#frame", (omod, ofn), parse_params(f"self: {cls}, interpreter: fickle.Interpreter, stack_slice: list[val]"),
                    loops=frame_loops(ofn))
            wmod, wfn = repo.fn_from_info(rinfo)

            def closure_env(e, st, oc=oc):
                from pyvc.sorts import V
                return {"orig_run": V("param_func", xs=oc)}
            mk(f"{cls}.run#frame", (wmod, wfn), parse_params(f"self: {cls}, interpreter: fickle.Interpreter"), closure_env, frame_loops(wfn))
        else:
            mod, fn = repo.fn_from_info(rinfo)
            mk(f"{cls}.run#frame", (mod, fn), parse_params(f"self: {cls}, interpreter: fickle.Interpreter"), loops=frame_loops(fn))
    return out


def frame_loops(fn):
    specs = scanning_loops(fn, None)
    for k, sp in specs.items():
        sp["invariant"] = []
        sp.pop("ghost_init", None)
        sp.pop("ghost_step", None)
        sp.pop("at_break", None)
    return specs


def opcode_contracts(run, extra_ensures=None, props=()):
    """build and register the R09 contract of every opcode class; returns [(class, contract key, verify kwargs)]"""
    eng, repo = run.eng, run.repo
    live = repo.live
    install_memo_specs(eng)

    install_auto_loop_specs(eng)
    out = []
    for name, cls in sorted(live["OPCODES_BY_NAME"].items()):
        info = live["pickletools"][name]
        sh = shape_spec(name, info)
        mreq, mens = memo_spec(name)
        a = repo.attr(cls, "run")
        rinfo = a[0]
        wrapped = rinfo["name"] == "run_wrapper"
        frame = ["interpreter.stack._stack[]", "interpreter.memory[]", "interpreter.module_body._list[]", "interpreter._var_counter",
                 "interpreter._opcodes", "@list.items:nodeowned", "@ast.lineno", "@iterator.pos"]
        common = dict(params=f"self: {cls}, interpreter: fickle.Interpreter", may_raise=MAY_RAISE, exact_raises=False,
                      props=["no-frame"] + list(props), modifies=frame)
        extra = (extra_ensures(name, cls, info) if extra_ensures else [])
        if wrapped:
            orig = rinfo["closure"]["orig_run"]
            omod, ofn = repo.fn_from_info(orig)
            okey = f"{cls}.run@orig"
            # the wrapped run sees the stack cut at the mark and the slice as a list
            oc = Contract(okey, params=f"self: {cls}, interpreter: fickle.Interpreter, stack_slice: list[val]",
                          requires=["wf_interp(interpreter)", "is_data(self.arg)", f"{STK} == {sh['pre']}", "stack_slice == ghost_seq('seg')", "NM(ghost_seq('seg'))",
                                    "fresh_list(stack_slice, interpreter)"] +
                          [r for r in sh["requires"] if r.startswith("not is_mark(ghost_val('b")] + mreq,
                          ensures=sh["ensures"] + mens + extra, may_raise=MAY_RAISE, exact_raises=False, props=["no-frame"] + list(props),
                          loops=scanning_loops(ofn, None), fn_override=(omod, ofn), modifies=frame)
            eng.contracts[okey] = oc
            wmod, wfn = repo.fn_from_info(rinfo)
            wkey = f"{cls}.run"

            def closure_env(e, st, oc=oc):
                from pyvc.sorts import V
                return {"orig_run": V("param_func", xs=oc)}
            wc = Contract(wkey, requires=sh["requires"] + mreq, ensures=sh["ensures"] + mens + extra, loops=scanning_loops(wfn, sh["pre"]),
                          fn_override=(wmod, wfn), closure_env=closure_env, **common)
            wc.scan_pre = sh["pre"]
            eng.contracts[wkey] = wc
            out.append((cls, okey))
            out.append((cls, wkey))
        else:
            mod, fn = repo.fn_from_info(rinfo)
            key = f"{cls}.run"
            c = Contract(key, requires=sh["requires"] + mreq, ensures=sh["ensures"] + mens + extra,
                         loops=scanning_loops(fn, sh["pre"]), fn_override=(mod, fn), **common)
            c.scan_pre = sh["pre"]
            eng.contracts[key] = c
            out.append((cls, key))
    return out
