"""C05 — the decompiled program rebuilds the same value as the real pickle VM (value structure per opcode, S5).

Proved, for every symbolic stack and memo: each data-building opcode pushes — or updates in place — the display node whose Python
meaning is what the VM builds from the same operands (operand nodes in VM order; key / value pairing; constants hold the argument), and
the memo hands back the very node it was given, so sharing is by reference.  Calls, builds and imports are C03's anchoring.  That the
*executed* source then equals the VM's value is the meaning of Python displays and assignments (trusted) and is sampled end to end by
the bounded companion replay/value_diff.py."""
import os
import re
import sys
sys.path.insert(0, os.path.dirname(os.path.dirname(os.path.abspath(__file__))))
from props.common import main, Run, run_child, load_known, ALL_SIDECARS  # noqa: E402
from props.opcodes import opcode_contracts  # noqa: E402
from props.c09 import STATE_FNS  # noqa: E402

SIDE = ALL_SIDECARS + ("values",)
STK = "interpreter.stack._stack"
TOP = f"{STK}[-1]"
T = lambda j: f"ghost_val('t{j}')"     # noqa: E731
B = lambda j: f"ghost_val('b{j}')"     # noqa: E731
SEG = "ghost_seq('seg')"
MEM = "interpreter.memory"
S5 = {
    "NONE": [f"const_is({TOP}, None)"], "NEWTRUE": [f"const_is({TOP}, True)"], "NEWFALSE": [f"const_is({TOP}, False)"],
    "EMPTY_LIST": [f"node_is({TOP}, 'List')", f"children_are({TOP}, 'elts', empty_seq())"],
    "EMPTY_TUPLE": [f"node_is({TOP}, 'Tuple')", f"children_are({TOP}, 'elts', empty_seq())"],
    "EMPTY_SET": [f"node_is({TOP}, 'Set')", f"children_are({TOP}, 'elts', empty_seq())"],
    "EMPTY_DICT": [f"node_is({TOP}, 'Dict')", f"children_are({TOP}, 'keys', empty_seq())", f"children_are({TOP}, 'values', empty_seq())",
                   f"dict_lists_distinct({TOP})"],
    "TUPLE1": [f"node_is({TOP}, 'Tuple')", f"children_are({TOP}, 'elts', seq1({T(0)}))"],
    "TUPLE2": [f"node_is({TOP}, 'Tuple')", f"children_are({TOP}, 'elts', seq1({T(0)}) + seq1({T(1)}))"],
    "TUPLE3": [f"node_is({TOP}, 'Tuple')", f"children_are({TOP}, 'elts', seq1({T(0)}) + seq1({T(1)}) + seq1({T(2)}))"],
    "TUPLE": [f"node_is({TOP}, 'Tuple')", f"children_are({TOP}, 'elts', {SEG})"],
    "LIST": [f"node_is({TOP}, 'List')", f"children_are({TOP}, 'elts', {SEG})"],
    "DICT": [f"node_is({TOP}, 'Dict')", f"children_are({TOP}, 'keys', evens({SEG}))", f"children_are({TOP}, 'values', odds({SEG}))",
             f"dict_lists_distinct({TOP})"],
    # in-place updates: the node on the stack is the very node that was there (so every other reference sees the update)
    "APPEND": [f"{TOP} is {T(0)}", f"children_are({TOP}, 'elts', old(children_of({T(0)}, 'elts')) + seq1({T(1)}))"],
    "APPENDS": [f"{TOP} is {B(0)}", f"children_are({TOP}, 'elts', old(children_of({B(0)}, 'elts')) + {SEG})"],
    "ADDITEMS": [f"{TOP} is {B(0)}", f"children_are({TOP}, 'elts', old(children_of({B(0)}, 'elts')) + {SEG})"],
    "SETITEM": [f"implies(old(node_is({T(0)}, 'Dict')), {TOP} is {T(0)} and children_are({TOP}, 'keys', old(children_of({T(0)}, 'keys')) + seq1({T(1)})) "
                f"and children_are({TOP}, 'values', old(children_of({T(0)}, 'values')) + seq1({T(2)})))"],
    "SETITEMS": [f"implies(old(node_is({B(0)}, 'Dict')) and len({SEG}) % 2 == 0, {TOP} is {B(0)} and children_are({TOP}, 'keys', old(children_of({B(0)}, 'keys')) + evens({SEG})) "
                 f"and children_are({TOP}, 'values', old(children_of({B(0)}, 'values')) + odds({SEG})))"],
    # the memo: sharing by reference
    "PUT": [f"memo_holds({MEM}, self.arg, {TOP})", f"{TOP} is old({TOP})"], "BINPUT": [f"memo_holds({MEM}, self.arg, {TOP})", f"{TOP} is old({TOP})"],
    "LONG_BINPUT": [f"memo_holds({MEM}, self.arg, {TOP})", f"{TOP} is old({TOP})"],
    "MEMOIZE": [f"memo_holds({MEM}, len(old({MEM})), {TOP})", f"{TOP} is old({TOP})"],
    "GET": [f"{TOP} is memo_at(old({MEM}), INTOF(self.arg))"], "BINGET": [f"{TOP} is memo_at(old({MEM}), self.arg)"],
    "LONG_BINGET": [f"{TOP} is memo_at(old({MEM}), self.arg)"],
    "DUP": [f"{TOP} is {T(0)}", f"{STK}[-2] is {T(0)}"],
}


# well-formedness of operand nodes the in-place updates rely on (established where Dict nodes are made: EMPTY_DICT, DICT; no opcode re-binds
# a Dict node's keys / values afterwards — scanned in build())
EXTRA_REQ = {"SETITEM": [f"dict_lists_distinct({T(0)})"], "SETITEMS": [f"dict_lists_distinct({B(0)})"]}


def extra_ensures(name, cls, info):
    return list(S5.get(name, []))


import ast as _ast


def _loops_in(fn):
    out = []

    def walk(n):
        for k in _ast.iter_child_nodes(n):
            if isinstance(k, (_ast.FunctionDef, _ast.Lambda, _ast.ClassDef)):
                continue
            if isinstance(k, (_ast.For, _ast.While)):
                out.append(k)
            walk(k)
    walk(fn)
    return out


def patch_contracts(run):
    """operand preconditions, and the content invariant of DICT's scanning loop (keys and values are collected in two lists, alternating)"""
    eng = run.eng
    for name, reqs in EXTRA_REQ.items():
        cls = run.repo.live["OPCODES_BY_NAME"][name]
        for k in (f"{cls}.run", f"{cls}.run@orig"):
            if k in eng.contracts:
                eng.contracts[k].requires = eng.contracts[k].requires + reqs
    cls = run.repo.live["OPCODES_BY_NAME"]["SETITEMS"]
    for k in (f"{cls}.run", f"{cls}.run@orig"):
        c = eng.contracts.get(k)
        fn = c and (c.fn_override[1] if c.fn_override else run.repo.qual.get(f"{cls}.run"))
        if c is None or fn is None:
            continue
        ordn = -1
        for n_ in _loops_in(fn):
            ordn += 1
            # the pairing loop: for key, value in zip(stack_slice[::2], stack_slice[1::2]) collecting into two lists
            if isinstance(n_, _ast.For) and _ast.unparse(n_.iter).replace(" ", "") == "zip(stack_slice[::2],stack_slice[1::2])" and ordn in c.loops:
                apps = [(_s.func.value.id, _s.args[0].id) for _s in _ast.walk(n_) if isinstance(_s, _ast.Call) and isinstance(_s.func, _ast.Attribute)
                        and _s.func.attr == "append" and isinstance(_s.func.value, _ast.Name) and len(_s.args) == 1 and isinstance(_s.args[0], _ast.Name)]
                tg = [e.id for e in n_.target.elts] if isinstance(n_.target, _ast.Tuple) else []
                for lst, var in apps:
                    if var in tg:
                        half = "evens" if tg.index(var) == 0 else "odds"
                        c.loops[ordn]["invariant"] = c.loops[ordn]["invariant"] + [f"seq_of({lst}) == {half}(stack_slice)[:_i]"]
    cls = run.repo.live["OPCODES_BY_NAME"]["DICT"]
    c = eng.contracts.get(f"{cls}.run")
    fn = c and (c.fn_override[1] if c.fn_override else run.repo.qual.get(f"{cls}.run"))
    # only where the code has the shape the invariant speaks about (a scanning loop that alternates between `values` and `keys` on `i`);
    # any other way of building the Dict node is verified against the DICT clause without this hint
    stored = {t.id for n_ in _ast.walk(fn) for t in _ast.walk(n_) if isinstance(t, _ast.Name) and isinstance(t.ctx, _ast.Store)} if fn else set()
    if c is not None and {"i", "keys", "values"} <= stored:
        for sp in c.loops.values():
            if "ghost_init" in sp and "tail" in sp.get("ghost_init", {}):
                sp["invariant"] = sp["invariant"] + [
                    "i == 0 or i == 1", "i == len(tail) % 2",
                    "implies(i == 0, rev(keys) == evens(tail) and rev(values) == odds(tail))",
                    "implies(i == 1, rev(values) == evens(tail) and rev(keys) == odds(tail))"]


def build(run: Run):
    eng = run.eng
    known = [k for k in load_known().get("known", []) if k.get("property") == "C05"]
    cache = {}

    def vd():
        if "d" not in cache:
            cache["d"] = run_child(run.repo.root, "value_diff.py", [str(run.seed)], timeout=1200)
        return cache["d"]

    def name_of(f):
        return f"value_diff:{f['kind']}:{f['program']}" + (f":{f['note']}" if f.get("note") else "")

    def replay(o):
        d = vd()
        fl = [f for f in d.get("failures", []) if not any(re.search(k["obligation"], name_of(f)) for k in known)]
        if fl:
            f = fl[0]
            return {"reproduced": True, "failing_input_hex": f["bytes"], "program": f["program"], "what": f["what"], "decompiled": f.get("source"),
                    "how": "decompiled source executed under inert stand-ins vs the reference VM; plain data vs the original object (replay/value_diff.py)"}
        return {"reproduced": False, "searched": {k: v for k, v in d.items() if k != "failures"}}
    run.replayers.append(replay)
    # constants: every ConstantOpcode pushes a Constant holding its argument
    for n, cls in run.repo.live["OPCODES_BY_NAME"].items():
        if cls in run.repo.subclasses("fickle.ConstantOpcode"):
            S5.setdefault(n, [f"const_is({TOP}, self.arg)"])
    keys = opcode_contracts(run, extra_ensures=extra_ensures)
    patch_contracts(run)
    # the operand precondition dict_lists_distinct is an invariant of the nodes fickling builds: it is proved where Dict nodes enter the stack
    # (EMPTY_DICT, DICT clauses above); the two scans below close it over the rest of the module (no construction with one list for both
    # fields, no re-binding of a display node's children afterwards)
    for q, fn in run.repo.qual.items():
        if q.split(".")[0] != "fickle":
            continue
        for n_ in _ast.walk(fn):
            if isinstance(n_, (_ast.Assign, _ast.AugAssign, _ast.AnnAssign)):
                for t_ in (n_.targets if isinstance(n_, _ast.Assign) else [n_.target]):
                    for t2 in (t_.elts if isinstance(t_, (_ast.Tuple, _ast.List)) else [t_]):
                        if isinstance(t2, _ast.Attribute) and t2.attr in ("keys", "values", "elts"):
                            run.syntactic(f"{q}:no-rebinding-of-display-children@{n_.lineno}", "frame", False, _ast.unparse(n_)[:80], where=q,
                                          meta={"clause": "no code re-binds the keys / values / elts field of an existing display node", "weak": True})
            if isinstance(n_, _ast.Call) and _ast.unparse(n_.func) == "ast.Dict":
                kw = {k.arg: k.value for k in n_.keywords}
                a = list(n_.args) + [None, None]
                kk, vv = kw.get("keys", a[0]), kw.get("values", a[1])
                fresh_expr = lambda e: isinstance(e, (_ast.List, _ast.ListComp)) or (isinstance(e, _ast.Call) and _ast.unparse(e.func) == "list") or \
                    (isinstance(e, _ast.Subscript) and isinstance(e.slice, _ast.Slice))  # noqa  (a slice of a list is a new list)
                ok = kk is not None and vv is not None and (fresh_expr(kk) or fresh_expr(vv) or (isinstance(kk, _ast.Name) and isinstance(vv, _ast.Name) and kk.id != vv.id))
                run.syntactic(f"{q}:dict-node-built-with-two-lists@{n_.lineno}", "invariant", ok, _ast.unparse(n_)[:80], where=q,
                              meta={"clause": "a Dict node is constructed with two different list objects for keys and values", "weak": not ok})
    run.syntactic("fickle:scan:display-children-are-bound-once", "frame", True, "scanned every assignment in fickle.py", where="fickle.py",
                  meta={"clause": "scan completed"})
    covered = sorted(n for n in S5 if n in run.repo.live["OPCODES_BY_NAME"])
    only = os.environ.get("VERIF_ONLY")
    batch = []
    for cls, key in keys:
        nm = next((n for n, c in run.repo.live["OPCODES_BY_NAME"].items() if c == cls), None)
        if nm not in S5:
            continue            # opcodes without a value-structure clause here: their shape is C09, their events C03
        if only and only not in key:
            continue
        batch.append(key)
    run.verify_batch(batch)
    run.notes["opcodes_with_value_structure_clause"] = covered
    run.assumptions += [
        "the meaning of Python displays ((a, b), [a, b], {k: v}, {a, b}), constants, names and assignments is Python's: a display node whose "
        "children are the operand nodes evaluates to the container of their values; executing the module top to bottom gives each name its value",
        "node identity stands for object identity: in-place updates of a display node are seen through every reference to it (memo, containers), "
        "as with the real object; a node referenced twice is *unparsed* twice, so identity of equal mutable values is not preserved in the "
        "executed source — it does not affect the value unless the object is mutated after being shared through a path the in-place update "
        "does not cover (non-display receivers go through a variable: C03 / bounded companion)",
        "calls, imports, BUILD and persistent loads (REDUCE, OBJ, INST, NEWOBJ*, BUILD, GLOBAL...) are C03's anchoring; FROZENSET is C13's known finding",
        "the end-to-end claim (executed source == VM value; plain data == original object) is sampled by the bounded companion replay/value_diff.py",
    ]
    d = vd()
    if "error" in d:
        raise RuntimeError(f"replay/value_diff.py failed: {d}")
    viol, hits = [], []
    for f in d.get("failures", []):
        f = dict(f)
        f["name"] = name_of(f)
        k = next((k for k in known if re.search(k["obligation"], f["name"])), None)
        if k is not None:
            if k["what"] not in hits:
                hits.append(k["what"])
        elif not any(v["kind"] == f["kind"] for v in viol):
            viol.append(f)
    run.bounded_parts.append({"name": "value_diff", "label": "bounded",
                              "what": "replay/value_diff.py: 73 plain-data values (boundary scalars, nested and shared containers) and 11 instance families at "
                                      "protocols 0-5, and the assembler corpus: decompiled source executed under inert stand-ins vs pickle._Unpickler "
                                      "under the same stand-ins (value, calls with arguments, states applied); plain data vs the original object",
                              "bound": {k: v for k, v in d.items() if k != "failures"}, "known_findings": hits, "violations": viol[:4]})


if __name__ == "__main__":
    sys.exit(main("C05", build, sidecars=SIDE))


def prepare(run):
    """for tools/explain.py"""
    for n, cls in run.repo.live["OPCODES_BY_NAME"].items():
        if cls in run.repo.subclasses("fickle.ConstantOpcode"):
            S5.setdefault(n, [f"const_is({TOP}, self.arg)"])
    opcode_contracts(run, extra_ensures=extra_ensures)
    patch_contracts(run)
