"""C15 — injected constants and constructed opcodes mean what was asked, or are refused."""
import os
import re
import sys
import z3
sys.path.insert(0, os.path.dirname(os.path.dirname(os.path.abspath(__file__))))
from props.common import witnesses_for, main, Run, run_child, ALL_SIDECARS  # noqa: E402
from pyvc.calls import Contract  # noqa: E402

SIDE = ALL_SIDECARS
REFUSALS = ["ValueError", "TypeError", "NotImplementedError", "struct.error", "OverflowError", "UnicodeError"]
LEMMAS = '''
import fickling.fickle as fickle
from fickling.fickle import ConstantOpcode


def roundtrip(obj):
    op = ConstantOpcode.new(obj)
    return (op, op.encode())


def create_unicode(text):
    op = fickle.Unicode(text.encode("utf-8"))
    return (op, op.encode())
'''


def make_replayer(run):
    cache = {}

    def relevant(o, f):
        m = re.match(r"lemmas_opcodes\.enc_(\w+)#", o.name)
        if m:
            return f["kind"] == "opcode" and f["value"].startswith(m.group(1) + "(")
        m = re.match(r"lemmas_const\.roundtrip#(\w+)", o.name)
        if m:
            return f["kind"] == m.group(1) and f["through"].startswith(("ConstantOpcode.new", "insert_python"))
        if o.name.startswith("lemmas_const.create_unicode"):
            return f["kind"] == "unicode"
        return f["kind"] != "opcode"        # helpers shared by all faces (ConstantOpcode.new, encoders): any value-level failure

    def replay(o):
        if "d" not in cache:
            cache["d"] = run_child(run.repo.root, "const_diff.py", [str(run.seed)])
        d = cache["d"]
        fl = witnesses_for("C15", o, [f for f in d.get("failures", []) if relevant(o, f)], lambda f: f"const_diff:{f['kind']}:{f.get('note') or f['through']}")
        if fl:
            f = fl[0]
            return {"reproduced": True, "value": f["value"], "kind": f["kind"], "arrived_as": f["arrived"], "through": f["through"],
                    "how": "boundary-biased values through ConstantOpcode.new / insert_python / cli --create (stock unpickler) and every opcode "
                           "class through encode() + pickletools.genops; replay/const_diff.py"}
        return {"reproduced": False, "searched": {k: v for k, v in d.items() if k != "failures"}}
    return replay


def build(run: Run):
    eng = run.eng
    run.replayers.append(make_replayer(run))
    run.repo.add_virtual_module("lemmas_const", LEMMAS)
    # here the encoders themselves are the subject: the abstract contracts other properties use for them (ENCODED uninterpreted) are dropped,
    # so that encode / encode_opcode / encode_body / encode_length / validate are executed in place
    for k in list(eng.contracts):
        if k.startswith("fickle.Opcode.encode") or k in ("fickle.Proto.version",):
            del eng.contracts[k]
    run.verify("fickle.Opcode.__init__")
    for kind in ("int", "bool", "float", "str", "bytes"):
        key = f"lemmas_const.roundtrip#{kind}"
        c = Contract(key, params=f"obj: {kind}", returns="val", may_raise=REFUSALS, exact_raises=False, props=["no-frame"],
                     ensures=["wire_ok(result[0], result[1], obj)"])
        c.variant_of = "lemmas_const.roundtrip"
        c.fn_override = ("lemmas_const", None)
        eng.contracts[key] = c
        run.verify(key)
    key = "lemmas_const.create_unicode#unicode"
    c = Contract(key, params="text: str", returns="val", may_raise=REFUSALS, exact_raises=False, props=["no-frame"],
                 ensures=["wire_ok(result[0], result[1], text)"])
    c.variant_of = "lemmas_const.create_unicode"
    c.fn_override = ("lemmas_const", None)
    eng.contracts[key] = c
    run.verify(key)
    opcode_face(run)
    run.notes["inlined_functions"] = sorted({b for a, b in eng.inlined})
    run.assumptions += [
        "S7 (what the disassembler / unpickler reads from the bytes of one opcode) is written from pickletools' ArgumentDescriptor documentation "
        "(contracts/encoders.py: dec); struct.pack '<b/B/h/H/i/I/q/Q' is the little-endian codec LE_SIGNED / LE_UNSIGNED whose readers are "
        "LE_*_VALUE (uninterpreted, inverse laws as ground instances); str.encode / bytes.decode per codec, int -> decimal text, pickle's "
        "protocol-0 escaping followed by raw-unicode-escape are uninterpreted with the inverse laws L1-L5 of contracts/encoders.py "
        "(assumed of CPython, sampled by replay/const_diff.py)",
        "validate / encode / encode_opcode / encode_body / encode_length / raw_unicode_escape / ConstantOpcode.new are executed in place "
        "(inlined) under the lemma programs `roundtrip` (= ConstantOpcode.new(obj) followed by encode()) per kind of obj, `create_unicode` "
        "(what cli --create builds) and `enc_<Class>` (construct the opcode with a well-typed argument, encode); notes.inlined_functions",
        "lists and dicts (_encode_python_obj), insert_python's framing opcodes, cli argument handling, GLOBAL / INST / PERSID / FLOAT and "
        "ill-typed constructor arguments are covered only by the bounded companion replay/const_diff.py (bounded, not counted as proved)",
    ]
    bounded_companion(run)


INT_ARGS = {"decimalnl_short", "decimalnl_long", "int4", "uint1", "uint2", "uint4", "uint8", "long1", "long4"}
STR_ARGS = {"stringnl", "string1", "string4", "unicodestringnl", "unicodestring1", "unicodestring4", "unicodestring8"}
BYTES_ARGS = {"bytes1", "bytes4", "bytes8", "bytearray8"}
FLOAT_ARGS = {"float8"}
BOUNDED_ONLY = {"GLOBAL", "INST", "PERSID", "FLOAT"}


def opcode_face(run):
    """every constructible opcode class, constructed with an argument of the type its pickletools descriptor reads, either refuses to
    encode or encodes to bytes the disassembler reads back as that opcode with that argument"""
    eng, live = run.eng, run.repo.live
    src = ["import fickling.fickle as fickle", "", ""]
    todo = []
    for name, cls in sorted(live["OPCODES_BY_NAME"].items()):
        if name in BOUNDED_ONLY:
            continue
        arg = live["pickletools"][name]["arg"]
        short = cls.split(".")[-1]
        if arg is None:
            src += [f"def enc_{short}():", f"    op = fickle.{short}()", "    return (op, op.encode())", "", ""]
            todo.append((short, name, None, None))
            continue
        an = arg["name"]
        kinds = (["int"] if an in INT_ARGS else ["str"] if an in STR_ARGS else ["bytes"] if an in BYTES_ARGS else ["float"] if an in FLOAT_ARGS else [])
        if an.startswith("unicodestring"):
            kinds.append("utf8bytes")           # fickling's own validators store the UTF-8 of the text
        if not kinds:
            continue
        src += [f"def enc_{short}(arg):", f"    op = fickle.{short}(arg)", "    return (op, op.encode())", "", ""]
        for k in kinds:
            todo.append((short, name, an, k))
    run.repo.add_virtual_module("lemmas_opcodes", "\n".join(src))
    refusals = REFUSALS + ["AttributeError"]        # Inst.encode refers to an attribute the class does not have: a refusal
    batch = []
    for short, name, an, kind in todo:
        key = f"lemmas_opcodes.enc_{short}#{kind or 'noarg'}"
        if kind is None:
            c = Contract(key, params="", returns="val", may_raise=refusals, exact_raises=False, props=["no-frame"],
                         ensures=["wire_ok(result[0], result[1], None)"])
        elif kind == "utf8bytes":
            c = Contract(key, params="arg: bytes", returns="val", may_raise=refusals, exact_raises=False, props=["no-frame"],
                         requires=["utf8_valid(arg)"], ensures=["wire_ok(result[0], result[1], text_arg(arg))"])
        else:
            c = Contract(key, params=f"arg: {kind}", returns="val", may_raise=refusals, exact_raises=False, props=["no-frame"],
                         ensures=["wire_ok(result[0], result[1], arg)"])
        c.variant_of = f"lemmas_opcodes.enc_{short}"
        c.fn_override = ("lemmas_opcodes", None)
        eng.contracts[key] = c
        batch.append(key)
    run.verify_batch(batch)


def bounded_companion(run):
    """the parts of the statement no contract here reaches (nested lists / dicts, insert_python framing, cli, GLOBAL / INST): bounded replay"""
    import re
    from props.common import load_known
    d = run_child(run.repo.root, "const_diff.py", [str(run.seed)])
    if "error" in d:
        raise RuntimeError(f"replay/const_diff.py failed: {d}")
    known = [k for k in load_known().get("known", []) if k.get("property") == "C15"]
    viol, hits = [], []
    for f in d.get("failures", []):
        f = dict(f)
        f["name"] = f"const_diff:{f['kind']}:{f.get('note') or f['through']}"
        k = next((k for k in known if re.search(k["obligation"], f["name"])), None)
        if k is not None:
            if k["what"] not in hits:
                hits.append(k["what"])
        elif not any(v["name"] == f["name"] for v in viol):        # one report per face / opcode
            viol.append(f)
    run.bounded_parts.append({"name": "const_diff", "label": "bounded",
                              "what": "replay/const_diff.py: boundary-biased values through ConstantOpcode.new / insert_python (incl. nested "
                                      "lists and dicts) / cli --create, loaded by the stock unpickler; every opcode class with well-typed "
                                      "representative arguments through encode() + pickletools.genops",
                              "bound": d.get("counts"), "failures": d.get("n_failures"), "known_findings": hits, "violations": viol})


if __name__ == "__main__":
    sys.exit(main("C15", build, sidecars=SIDE))
