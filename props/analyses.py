"""Per-analysis contracts (instances of the base contract analysis.Analysis.analyze with loop invariants), shared by C04 / C13 / C19."""
import ast
import copy

RANK_INV = "forall('j', len(yielded()), 'doc_rank(yielded()[j].severity) >= 1')"
CTX_FRAME = ["context.reported_shortened_code[]", "context.pickled._ast", "context.pickled._properties", "@list.items:nodeowned",
             "@ast.lineno", "@ast.col_offset", "@iterator.pos"]
BASE_INV = [RANK_INV, "inv(context.pickled)", "context.pickled._opcodes == old(context.pickled._opcodes)",
            "implies(old(context.pickled._ast) is not None, context.pickled._ast is old(context.pickled._ast))"]


def analysis_contracts(run, total=False, extra_inv=None, extra_ensures=None):
    """-> list of contract keys, one per analysis class of the live Analysis.ALL"""
    eng, repo = run.eng, run.repo
    base = eng.contracts["analysis.Analysis.analyze"]
    keys = []
    for cls in repo.live["analysis_all"]:
        mod, fn = repo.function(cls + ".analyze")
        c = copy.copy(base)
        c.qual = cls + ".analyze" + ("#total" if total else "")
        c.fn_override = (mod, fn)
        c.params = [(n, cls if n == "self" else t, d) for n, t, d in base.params]
        loops = {}
        for i, l in enumerate(repo.loops(fn)):
            inv = list(BASE_INV) + list((extra_inv or {}).get((cls, i), []))
            # local collections the loop body mutates (a de-duplication set of its own, an accumulator list) are part of what the cut havocs
            own = []
            for n_ in ast.walk(l):
                if isinstance(n_, ast.Call) and isinstance(n_.func, ast.Attribute) and isinstance(n_.func.value, ast.Name) and \
                        n_.func.attr in ("add", "append", "extend", "update", "insert", "pop", "remove", "discard", "clear", "setdefault") and \
                        n_.func.value.id not in ("self", "context") and f"{n_.func.value.id}[]" not in own:
                    assigned_before = any(isinstance(a_, (ast.Assign, ast.AnnAssign)) and getattr(a_, "lineno", 0) < l.lineno and
                                          any(isinstance(t_, ast.Name) and t_.id == n_.func.value.id for t_ in ([a_.target] if isinstance(a_, ast.AnnAssign) else a_.targets))
                                          for a_ in ast.walk(fn))
                    if assigned_before:
                        own.append(f"{n_.func.value.id}[]")
            loops[i] = dict(invariant=inv, modifies=list(CTX_FRAME) + own, yields=True)
        c.loops = loops
        c.ensures = list(base.ensures) + list((extra_ensures or {}).get(cls, []))
        if total:
            # C19: on a pickle that decompiles (its AST has been built: _ast is not None, and is well-typed) no exception escapes an analysis
            c.requires = list(c.requires) + ["context.pickled._ast is not None"]
            c.may_raise = []
            c.may_raise_if = None
            c.raises = {}
        eng.contracts[c.qual] = c
        keys.append(c.qual)
    return keys
