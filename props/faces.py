"""Obligations about the library faces (loader.load, is_likely_safe) read off the ghost call log of each path.
Shared by C02 and C10."""
import z3
from pyvc.state import Obligation
from pyvc.sorts import V, Val, vbool


def calls(f, qual):
    return [e for e in f.log if e[0] == "call" and e[1] == qual]


def events(f, kind):
    return [e for e in f.log if e[0] == kind]


def ob(eng, c, f, j, tag, goal, clause, kind="post"):
    eng.obligations.append(Obligation(f"{c.qual}:{kind}:{tag}#path{j}", kind, f.hyps(), goal, where=c.qual,
                                      meta={"clause": clause, "trail": f.trail}))


def syn(eng, c, f, j, tag, ok, clause, kind="post"):
    ob(eng, c, f, j, tag, z3.BoolVal(bool(ok)), clause, kind)


def loader_load_path(eng, c, f, entry, j, raised):
    """C02/C10 obligations of one path of loader.load.  `raised` = exception class name or None."""
    loads = calls(f, "fickle.Pickled.load")
    checks = calls(f, "analysis.check_safety")
    unp = events(f, "unpickle")
    thr = entry.env["max_acceptable_severity"]
    file = entry.env["file"]
    # at most one parse, of the caller's stream; at most one analysis, of the object the parse returned; at most one execution
    syn(eng, c, f, j, "one-parse", len(loads) <= 1 and all(e[2]["pickled"].t.eq(file.t) for e in loads), "the stream is parsed at most once")
    syn(eng, c, f, j, "one-analysis", len(checks) <= 1, "the pickle is analysed at most once")
    syn(eng, c, f, j, "one-execution", len(unp) <= 1, "the bytes are executed at most once")
    if unp:
        syn(eng, c, f, j, "execution-needs-verdict", len(loads) == 1 and len(checks) == 1 and f.log.index(checks[0]) < f.log.index(unp[0]),
            "nothing is executed before the verdict exists")
    if unp and loads and checks:
        p = loads[0][3]
        res = checks[0][3]
        ob(eng, c, f, j, "analysed-object-is-parsed-object", checks[0][2]["pickled"].t == p.t, "check_safety is given the parsed object itself")
        sev_ok = eng.spec_eval("doc_rank(res.severity) <= doc_rank(thr)", f, {"res": res, "thr": thr}, goal=True)
        ob(eng, c, f, j, "executes-only-at-or-below-threshold", sev_ok,
           "pickle.loads is reached only when rank(severity) <= rank(max_acceptable_severity)")
        same = eng.spec_eval("b == FIRST_PICKLE_AT_CALL(file)", f, {"b": unp[0][1], "file": file}, goal=True)
        ob(eng, c, f, j, "executed-bytes-are-analysed-bytes", same,
           "the byte string handed to pickle.loads is dumps() of the analysed object = the first pickle of the stream as parsed")
    if raised is None:
        syn(eng, c, f, j, "returns-only-after-execution", len(unp) == 1, "a normal return comes from pickle.loads")
        if unp:
            ret = f.ret
            eq = eng.spec_eval("r is UNPICKLE(b)", f, {"r": ret, "b": unp[0][1]}, goal=True)
            ob(eng, c, f, j, "returns-what-the-stock-unpickler-returns", eq, "result == pickle.loads(analysed bytes)")
    else:
        if checks and not unp:
            res = checks[0][3]
            if raised == "exception.UnsafeFileError":
                above = eng.spec_eval("doc_rank(res.severity) > doc_rank(thr)", f, {"res": res, "thr": thr}, goal=True)
                ob(eng, c, f, j, "unsafe-error-only-above-threshold", above, "UnsafeFileError is raised only when rank(severity) > rank(threshold)",
                   kind="exc")
                exc = f.exc[1]
                tds = [e for e in calls(f, "analysis.AnalysisResults.to_dict") if e[2]["self"].t.eq(res.t)]
                syn(eng, c, f, j, "unsafe-error-carries-verdict", exc is not None and len(tds) >= 1, "the error carries to_dict() of the same results",
                    kind="exc")
                if exc is not None and tds:
                    ob(eng, c, f, j, "unsafe-error-info-is-report", eng.spec_eval("e.info is d", f, {"e": exc, "d": tds[-1][3]}, goal=True),
                       "exc.info is the report of the verdict that refused the load", kind="exc")
            else:
                # any other exception after a verdict exists and before execution: only allowed when the verdict would have allowed the load
                pass
        if checks and raised != "exception.UnsafeFileError" and not unp:
            # the verdict exists, nothing was executed, and the error is not UnsafeFileError: must not happen above the threshold
            res = checks[0][3]
            ok = eng.spec_eval("doc_rank(res.severity) <= doc_rank(thr)", f, {"res": res, "thr": thr}, goal=True)
            ob(eng, c, f, j, "above-threshold-raises-unsafe-error", ok,
               "when rank(severity) > rank(threshold) the exception is UnsafeFileError (not something else)", kind="exc")


def is_likely_safe_path(eng, c, f, entry, j, raised):
    loads = calls(f, "fickle.Pickled.load")
    checks = calls(f, "analysis.check_safety")
    opens = events(f, "open")
    if raised is None:
        syn(eng, c, f, j, "one-parse-one-analysis", len(loads) == 1 and len(checks) == 1 and len(opens) == 1, "one open, one parse, one analysis")
        if loads and checks and opens:
            ob(eng, c, f, j, "opens-for-reading", opens[0][2].t == z3.StringVal("rb"), "the file is opened read-only")
            ob(eng, c, f, j, "parses-the-opened-file", loads[0][2]["pickled"].t == Val.R(opens[0][3].t) if loads[0][2]["pickled"].k == "val"
               else loads[0][2]["pickled"].t == opens[0][3].t, "Pickled.load is given the opened file")
            ob(eng, c, f, j, "analyses-the-parsed-object", checks[0][2]["pickled"].t == loads[0][3].t, "check_safety is given the parsed object")
            goal = eng.spec_eval("r == (doc_rank(res.severity) == 0)", f, {"r": f.ret, "res": checks[0][3]}, goal=True)
            ob(eng, c, f, j, "true-iff-likely-safe", goal, "result == (severity is LIKELY_SAFE)")
    syn(eng, c, f, j, "never-executes", not events(f, "unpickle"), "is_likely_safe never unpickles")
