"""Shared driver for the per-property checks: discharge, verdict policy, known findings, replay files, evidence."""
import ast
import json
import os
import re
import sys
import time
import traceback

import z3

ROOT = os.path.dirname(os.path.dirname(os.path.abspath(__file__)))
sys.path.insert(0, ROOT)
from pyvc.source import Repo, SourceError  # noqa: E402
from pyvc.sidecar import Kit  # noqa: E402
from pyvc.solve import discharge  # noqa: E402
from pyvc.state import Obligation  # noqa: E402

# one consistent set of contracts for every property (order matters: later sidecars refine earlier ones)
ALL_SIDECARS = ("severity", "results", "externals", "interp", "interp_run", "pickled_inv", "pickled_api", "analysis", "analyses", "loader",
                "hooks", "ml", "anchoring", "parse", "encoders")

EXIT_OK, EXIT_VIOLATION, EXIT_UNDECIDED, EXIT_ERROR = 0, 1, 2, 3

PYTHON_ASSUMPTIONS = [
    "Python semantics assumed by the encoder: integers are mathematical; evaluation order is left-to-right; attribute lookup follows the "
    "MRO the live import of the working tree shows and nothing monkey-patches repo classes afterwards; isinstance/issubclass agree with it",
    "MemoryError / RecursionError / KeyboardInterrupt are not modelled (raises clauses are modulo resource exhaustion)",
    "the sys.version_info arms are resolved for the baseline interpreter (/venv/bin/python 3.12)",
    "text of f-string messages built for exceptions / print is opaque; formatting a value is assumed total and effect-free",
    "external functions behave as their models in pyvc/models.py and contracts/externals*.py state (listed in trusted_base)",
]


class Run:
    """one run of one property's check"""

    def __init__(self, pid, tier="quick", seed=0, with_torch=False, sidecars=()):
        self.pid, self.tier, self.seed = pid, tier, seed
        self.t0 = time.time()
        self.repo = Repo(with_torch=with_torch)
        self.kit = Kit().load(*sidecars)
        self.eng = self.kit.engine(self.repo)
        self.fn_results = []
        self.extra = []            # lemma / syntactic obligations
        self.bounded_parts = []
        self.informational = []
        self.trusted_base = []
        self.assumptions = list(PYTHON_ASSUMPTIONS)
        self.samples = []
        self.replayers = []        # callables(ob) -> dict or None
        self.unsupported = []      # (function, reason) whose obligations could not be generated
        self.notes = {}
        self.extra_functions = []  # records of functions under contract produced by other means than Engine.verify (effect clauses)

    # ---- building ---------------------------------------------------------------------------------------------------
    def verify(self, *quals, extra_post=None):
        from pyvc.eval import Unsupported
        last = None
        for q in quals:
            try:
                r = self.eng.verify(q, extra_post=extra_post)
            except Unsupported as e:
                # the function (as it now stands) uses a construct outside the verified subset: its obligations cannot be generated.
                # Recorded; the property's bounded replay decides whether this run reports a violation, otherwise it is a checker error
                self.unsupported.append((q, str(e)))
                self.eng.obligations = []
                continue
            self.fn_results.append(r)
            last = r
        return last

    def verify_batch(self, quals, extra_post=None, procs=None):
        """verify independent functions in parallel: each forked child generates the obligations of its share of the functions and decides
        them (with its share of the solver processes); the parent receives names, clauses, verdicts and models — not the z3 terms.
        VERIF_SERIAL=1 / VERIF_DEBUG: one by one in this process (terms stay available for explain / dumps)."""
        quals = list(quals)
        if not quals:
            return []
        if os.environ.get("VERIF_SERIAL") or os.environ.get("VERIF_DEBUG") or os.environ.get("VERIF_DUMP_DIR") or len(quals) < 3:
            return [self.verify(q, extra_post=extra_post) for q in quals]
        import multiprocessing as mp
        from multiprocessing.connection import wait
        from pyvc.eval import Unsupported
        from pyvc.solve import discharge
        cores = min(16, os.cpu_count() or 1)
        procs = procs or min(len(quals), max(2, cores // 2))
        sub_jobs = cores            # every child may start solver processes; the shared semaphore bounds their total number
        eng = self.eng
        ctx = mp.get_context("fork")
        counter = ctx.Value("i", 0)
        import pyvc.solve as _solve
        _solve._SEM[0] = ctx.BoundedSemaphore(cores)

        def plain(x):
            if isinstance(x, (str, int, float, bool)) or x is None:
                return x
            if isinstance(x, (list, tuple)):
                return [plain(y) for y in x]
            if isinstance(x, dict):
                return {str(k): plain(v) for k, v in x.items()}
            return str(x)[:200]

        def child(conn):
            out = []
            try:
                while True:
                    with counter.get_lock():
                        k = counter.value
                        counter.value += 1
                    if k >= len(quals):
                        break
                    q = quals[k]
                    marks = {n: len(getattr(eng, n, []) or []) for n in ("stale_loops", "unannotated_loops", "adapted_signatures", "calls_seen")}
                    inl0 = set(getattr(eng, "inlined", set()) or set())
                    try:
                        r = eng.verify(q, extra_post=extra_post)
                    except Unsupported as e:
                        eng.obligations = []
                        out.append({"k": k, "status": "unsupported", "qual": q, "why": str(e)})
                        continue
                    except SourceError as e:
                        out.append({"k": k, "status": "source-error", "qual": q, "why": str(e)})
                        continue
                    discharge(r.obligations, eng.rules, seed=self.seed, jobs=sub_jobs, extra_axioms=getattr(eng, "background", None))
                    out.append({"k": k, "status": "ok", "qual": r.qual, "paths": r.paths, "normal": r.normal_paths, "raise": r.raise_paths,
                                "body_hash": r.body_hash, "covers": plain(r.covers), "effects": [plain(e) for e in r.effects][:400],
                                "obligations": [{"name": o.name, "kind": o.kind, "where": o.where, "meta": plain(o.meta),
                                                 "syntactic": plain(o.syntactic), "result": plain(o.result),
                                                 "goal_head": str(o.goal)[:300] if o.syntactic is None else ""} for o in r.obligations],
                                "side": {n: plain((getattr(eng, n, []) or [])[marks[n]:]) for n in marks},
                                "inlined": plain(sorted(set(getattr(eng, "inlined", set()) or set()) - inl0))})
                conn.send(out)
            except BaseException:  # noqa
                conn.send(out + [{"k": -1, "status": "crash", "qual": "?", "why": traceback.format_exc()[-1500:]}])
            finally:
                conn.close()
                os._exit(0)

        conns, ps = [], []
        for _ in range(procs):
            pr, pw = ctx.Pipe(duplex=False)
            p = ctx.Process(target=child, args=(pw,), daemon=False)
            p.start()
            pw.close()
            conns.append(pr)
            ps.append(p)
        got = []
        pending = list(conns)
        while pending:
            for c in wait(pending):
                try:
                    got += c.recv()
                except (EOFError, OSError):
                    got.append({"k": -1, "status": "crash", "qual": "?", "why": "verification child died"})
                pending.remove(c)
        for p in ps:
            p.join(timeout=10)
        _solve._SEM[0] = None
        results = []
        for rec in sorted(got, key=lambda r: r["k"]):
            if rec["status"] == "unsupported":
                self.unsupported.append((rec["qual"], rec["why"]))
                continue
            if rec["status"] == "source-error":
                raise SourceError(rec["why"])
            if rec["status"] == "crash":
                raise RuntimeError("verification child crashed:\n" + rec["why"])
            from pyvc.engine import FnResult
            r = FnResult(rec["qual"])
            r.paths, r.normal_paths, r.raise_paths, r.body_hash = rec["paths"], rec["normal"], rec["raise"], rec["body_hash"]
            r.covers = [tuple(c) for c in rec["covers"]]
            r.effects = [tuple(e) for e in rec["effects"]]
            r.contract = eng.contracts.get(rec["qual"])
            for od in rec["obligations"]:
                syn = tuple(od["syntactic"]) if od["syntactic"] is not None else None
                o = Obligation(od["name"], od["kind"], [], z3.BoolVal(True), where=od["where"], meta=dict(od["meta"], goal_head=od["goal_head"]), syntactic=syn)
                if isinstance(o.meta.get("trail"), list):
                    o.meta["trail"] = [tuple(t) for t in o.meta["trail"]]
                o.result = od["result"]
                r.obligations.append(o)
            for n, items in rec["side"].items():
                cur = getattr(eng, n, None)
                if cur is None:
                    cur = []
                    setattr(eng, n, cur)
                cur += [tuple(x) for x in items]
            if rec["inlined"]:
                eng.inlined = set(getattr(eng, "inlined", set()) or set()) | {tuple(x) for x in rec["inlined"]}
            self.fn_results.append(r)
            results.append(r)
        return results

    def lemma(self, name, hyps, goal, meta=None):
        ob = Obligation(f"lemma:{name}", "lemma", hyps, goal, where="lemma", meta=meta or {})
        self.extra.append(ob)
        return ob

    def syntactic(self, name, kind, ok, why, where="", meta=None):
        ob = Obligation(name, kind, [], z3.BoolVal(True), where=where, meta=meta or {}, syntactic=(bool(ok), why))
        self.extra.append(ob)
        return ob

    def all_obligations(self):
        out = []
        for r in self.fn_results:
            out += r.obligations
        return out + self.extra

    # ---- deciding ---------------------------------------------------------------------------------------------------
    def static_closure(self, q0):
        """functions of /repo reachable from q0 through calls that resolve without type information: self.m(...) / cls.m(...) on the function's
        own class (and its bases), Name(...) of a module-level function or class (its __init__ / __new__), Class.m(...)"""
        import ast as _ast
        repo = self.repo
        seen, todo = [], [q0]
        while todo:
            q = todo.pop()
            if q in seen or q not in repo.qual:
                continue
            seen.append(q)
            mod = q.split(".")[0]
            cls = ".".join(q.split(".")[:2]) if repo.has_class(".".join(q.split(".")[:2])) else None
            for n in _ast.walk(repo.qual[q]):
                if not isinstance(n, _ast.Call):
                    continue
                f = n.func
                cands = []
                if isinstance(f, _ast.Attribute) and isinstance(f.value, _ast.Name):
                    if f.value.id in ("self", "cls") and cls:
                        for k in repo.cls(cls)["mro"]:
                            cands.append(f"{k}.{f.attr}")
                            cands.append(f"{k}.{f.attr}.setter")
                    elif repo.has_class(f"{mod}.{f.value.id}"):
                        for k in repo.cls(f"{mod}.{f.value.id}")["mro"]:
                            cands.append(f"{k}.{f.attr}")
                elif isinstance(f, _ast.Name):
                    cands.append(f"{mod}.{f.id}")
                    if repo.has_class(f"{mod}.{f.id}"):
                        for k in repo.cls(f"{mod}.{f.id}")["mro"]:
                            cands += [f"{k}.__init__", f"{k}.__new__"]
                for c in cands:
                    if c in repo.qual and c not in seen:
                        todo.append(c)
                        break
        return sorted(seen)

    def pin_trusted(self):
        """A contract marked `trusted` on a function of /repo was accepted for the body that was read when the sidecar was written
        (trusted_bodies.json pins its hash).  When that body changes the trust no longer covers it: the contract is still used at call
        sites, but the check says so with a weak obligation — a violation only if the property's replay shows a failing input, else undecided."""
        p = os.path.join(ROOT, "trusted_bodies.json")
        pins = json.load(open(p)) if os.path.exists(p) else {}
        self.trusted_pins = {}
        used = {r.qual for r in self.fn_results}
        for q, c in sorted(self.eng.contracts.items()):
            q0 = q.split("#")[0].split("@")[0]
            if not getattr(c, "trusted", None) or q0 not in self.repo.qual or q in used or getattr(c, "fn_override", None) or q0.startswith("lemmas"):
                continue
            import hashlib
            clo = self.static_closure(q0)
            h = hashlib.sha256("".join(f"{x}:{self.repo.body_hash(self.repo.qual[x])};" for x in clo).encode()).hexdigest()[:16]
            self.trusted_pins[q0] = h
            self.notes.setdefault("trusted_repo_functions", {})[q0] = {"closure_sha": h, "pinned": pins.get(q0), "closure": clo[:40], "why": str(c.trusted)[:200]}
            if os.environ.get("VERIF_PIN_TRUSTED"):
                pins[q0] = h            # maintenance mode (tools/pin_trusted.sh, after auditing a changed body): never set by a registered command
                continue
            if pins.get(q0) != h:
                self.syntactic(f"{q0}:trusted-body-unchanged", "trust", False,
                               f"hash {h} of the function and the helpers it calls ({len(clo)} bodies), pinned {pins.get(q0, 'none')}: the trusted contract was accepted for other text", where=q0,
                               meta={"clause": f"trusted: {str(c.trusted)[:160]}", "weak": True})

    def audit_callee_contracts(self):
        """Modular checking uses a callee's contract, not its body: every contract applied at a call site must itself be an obligation
        somewhere.  For each callee contract this run applied on a function of /repo: verified in this run, or verified by another
        property's check (verified_by.json, regenerated from the evidence files by tools/gen_manifest.py; recorded as a dependency), or marked
        trusted (pinned, pin_trusted).  A contract that is none of these is reported as a weak obligation: nothing checks that clause."""
        p = os.path.join(ROOT, "verified_by.json")
        elsewhere = json.load(open(p)) if os.path.exists(p) else {}
        here = {r.qual.split("#")[0].split("@")[0] for r in self.fn_results}
        deps, orphans = {}, []
        for caller, callee in sorted(set(tuple(x) for x in getattr(self.eng, "calls_seen", []))):
            q0 = callee.split("#")[0].split("@")[0]
            c = self.eng.contracts.get(callee) or self.eng.contracts.get(q0)
            if q0 not in self.repo.qual or q0.startswith("lemmas") or q0 in here or c is None or getattr(c, "trusted", None):
                continue
            body = [x for x in self.repo.qual[q0].body if not (isinstance(x, ast.Expr) and isinstance(x.value, ast.Constant))]
            if all(isinstance(x, ast.Pass) or (isinstance(x, ast.Raise) and "NotImplementedError" in ast.unparse(x)) for x in body):
                continue        # an abstract method: its contract is the dispatch interface, verified on every override (contract_key), not on this body
            others = [x for x in elsewhere.get(q0, []) if x != self.pid]
            if others:
                deps.setdefault(q0, others)
            elif q0 not in orphans:
                orphans.append(q0)
        self.notes["callee_contracts_verified_by_other_checks"] = deps
        self.notes["callee_contracts_verified_nowhere"] = orphans
        for q0 in (orphans if os.environ.get("VERIF_AUDIT_CALLEES", "1") == "1" and not os.environ.get("VERIF_ONLY") else []):
            self.syntactic(f"{q0}:callee-contract-is-verified-somewhere", "trust", False,
                           "the contract is applied at call sites of this check but no check verifies the function against it, and it is not marked trusted", where=q0,
                           meta={"clause": "every contract used at a call site is verified (here or under another property) or listed as trusted", "weak": True})

    def finish(self):
        self.pin_trusted()
        self.audit_callee_contracts()
        if os.environ.get("VERIF_PIN_TRUSTED"):
            p = os.path.join(ROOT, "trusted_bodies.json")
            pins = json.load(open(p)) if os.path.exists(p) else {}
            pins.update(self.trusted_pins)
            json.dump(dict(sorted(pins.items())), open(p, "w"), indent=1)
        obs = self.all_obligations()
        self.t_build = time.time() - self.t0
        discharge(obs, self.eng.rules, seed=self.seed, extra_axioms=getattr(self.eng, "background", None))
        if getattr(self, "rediscover_seed", None) is not None:
            # thorough tier: decide everything once more with another solver seed; a flip between the two runs is an unstable proof
            first = [dict(o.result) for o in obs]
            discharge(obs, self.eng.rules, seed=self.rediscover_seed, extra_axioms=getattr(self.eng, "background", None))
            flips = []
            for o, r1 in zip(obs, first):
                if r1["verdict"] != o.result["verdict"]:
                    flips.append({"obligation": o.name, "first": r1["verdict"], "second": o.result["verdict"]})
                    if r1["verdict"] == "unsat" or o.result["verdict"] == "unknown":
                        o.result = r1 if r1["verdict"] != "unknown" else o.result      # keep a definite answer over `unknown`
            self.notes["unstable_obligations"] = flips[:50]
        self.t_solve = time.time() - self.t0 - self.t_build
        covers = [c for r in self.fn_results for c in r.covers]
        bad_cover = [n for n, ok in covers if not ok]
        if bad_cover:
            raise SourceError(f"vacuous contract: precondition unsatisfiable for {bad_cover}")
        if not obs and not self.unsupported and not self.bounded_parts:
            raise SourceError("zero obligations generated")
        if os.environ.get("VERIF_DEBUG"):
            for o in obs:
                if o.result["verdict"] != "unsat":
                    print("DEBUG", o.name, o.result["verdict"], "clause:", o.meta.get("clause"))
                    print("   trail:", [f"{l}={b}" for l, b in o.meta.get("trail", [])])
                    if os.environ.get("VERIF_DEBUG") == "2":
                        for h in o.hyps:
                            print("   H:", str(h)[:300].replace("\n", " "))
                        print("   G:", str(o.goal)[:600])
                    if os.environ.get("VERIF_DEBUG") == "3":
                        explain(o, self.eng.rules)
                    if os.environ.get("VERIF_DUMP_DIR"):
                        from pyvc.solve import to_smt2
                        fn = os.path.join(os.environ["VERIF_DUMP_DIR"], re.sub(r"[^A-Za-z0-9_.#-]", "_", o.name) + ".smt2")
                        with open(fn, "w") as f:
                            f.write(to_smt2(list(o.hyps) + list(getattr(self.eng, "background", None) or []), o.goal, self.eng.rules))
                    print("   model:", (o.result["model"] or "")[:int(os.environ.get("VERIF_DEBUG_N", "1200"))].replace("\n", "\n      "))
        refuted = [o for o in obs if o.result["verdict"] == "sat"]
        undecided = [o for o in obs if o.result["verdict"] not in ("sat", "unsat")]
        known = load_known().get("known", [])
        violations, known_hits = [], []
        for o in refuted:
            k = match_known(self.pid, o, known)
            if k is not None:
                known_hits.append((o, k))
            else:
                violations.append(o)
        seen_known = set()
        for o, k in known_hits:
            key = (k.get("obligation"), k.get("what"))
            if key not in seen_known:
                seen_known.add(key)
                print(f"KNOWN-FINDING: property={self.pid} {k['what']}")
        printed = {k["what"] for _, k in known_hits}
        for bp in self.bounded_parts:
            for kf in bp.get("known_findings", []):
                if kf not in printed:
                    printed.add(kf)
                    print(f"KNOWN-FINDING: property={self.pid} {kf}")
        replay_paths = []
        weak = []
        for o in list(violations):
            rp, reproduced = self.write_replay(o, quiet=bool(o.meta.get("unannotated_loop") or o.meta.get("weak")))
            replay_paths.append(rp)
            if (o.meta.get("unannotated_loop") or o.meta.get("weak")) and not reproduced:
                # the path crossed a loop the sidecar has no invariant for: the failed proof is not a refutation unless it replays
                violations.remove(o)
                weak.append(o)
        undecided += weak
        # an obligation the solvers leave open is undecided — unless the property's concrete replay shows a failing input on this very tree
        if undecided and self.replayers:
            probe = undecided[0]
            rp, reproduced = self.write_replay(probe, quiet=True)
            if reproduced:
                for o in list(undecided):
                    if o is not probe:
                        self.write_replay(o, quiet=True)
                violations.append(probe)
                undecided.remove(probe)
        for q, nl, stale in getattr(self.eng, "stale_loops", []):
            print(f"NOTE: {q} now has {nl} loop(s); the sidecar's invariant(s) for loop {stale} are unused")
        for fn, ordn, line in getattr(self.eng, "unannotated_loops", []):
            print(f"NOTE: {fn} loop #{ordn} (line {line}) has no invariant in the sidecar; proved with the trivial invariant and an inferred frame")
        for bp in self.bounded_parts:
            for v in bp.get("violations", []):
                rp = self.write_bounded_replay(bp, v)
                replay_paths.append(rp)
                violations.append(v)
        unsupported_unresolved = []
        for q, why in self.unsupported:
            ob = Obligation(f"{q}:unsupported", "exc", [], z3.BoolVal(False), where=q, meta={"clause": f"outside the verified subset: {why}"})
            ob.result = {"verdict": "unknown", "time": 0.0, "model": why, "backend": "none"}
            rp, reproduced = self.write_replay(ob, quiet=True)
            if reproduced:
                violations.append(ob)
                replay_paths.append(rp)
            else:
                unsupported_unresolved.append((q, why))
        for i in self.informational:
            print(f"INFO: property={self.pid} {i}")
        self.write_evidence(obs, refuted, undecided, violations, known_hits, covers)
        nfn = len(self.fn_results)
        print(f"{self.pid}: {len(obs)} obligations over {nfn} functions under contract; discharged "
              f"{sum(1 for o in obs if o.result['verdict'] == 'unsat')}; refuted {len(refuted)} ({len(known_hits)} known); "
              f"undecided {len(undecided)}; {time.time() - self.t0:.1f}s (generate {self.t_build:.1f}s, solve {self.t_solve:.1f}s)")
        if violations:
            return EXIT_VIOLATION
        if unsupported_unresolved:
            for q, why in unsupported_unresolved:
                print(f"CHECKER-ERROR: {self.pid}: {q}: {why}")
            return EXIT_ERROR
        if undecided:
            for o in undecided[:10]:
                print(f"UNDECIDED: {o.name} ({o.result['verdict']}; {o.result['backend']}; {o.result['time']:.1f}s)")
            return EXIT_UNDECIDED
        return EXIT_OK

    def write_replay(self, o, quiet=False):
        d = os.environ.get("VERIF_REPLAY_DIR") or os.path.join(ROOT, "replays")
        os.makedirs(d, exist_ok=True)
        safe = re.sub(r"[^A-Za-z0-9_.#-]+", "_", o.name)[:120]
        path = os.path.join(d, f"{self.pid}-{safe}.json")
        rec = {"property": self.pid, "failed_obligation": o.name, "kind": o.kind, "where": o.where, "clause": o.meta.get("clause"),
               "path": [f"{l}={b}" for l, b in o.meta.get("trail", [])][-30:],
               "verifier": o.result["backend"], "verifier_output": o.result["model"], "replay": None}
        outcome = None
        for rp in self.replayers:            # the first companion that shows a failing input decides; otherwise the last answer is recorded
            try:
                got = rp(o)
            except Exception as e:  # noqa
                got = {"reproduced": False, "error": repr(e), "trace": traceback.format_exc()[-1500:]}
            if got is not None:
                outcome = got
                if got.get("reproduced"):
                    break
        rec["replay"] = outcome
        reproduced = bool(outcome and outcome.get("reproduced"))
        with open(path, "w") as f:
            json.dump(rec, f, indent=1, default=str)
        tail = "" if reproduced else " no-failing-input-found"
        if not quiet or reproduced:
            print(f"VIOLATION property={self.pid} replay={path} obligation={o.name}{tail}")
        return path, reproduced

    def write_bounded_replay(self, bp, v):
        d = os.environ.get("VERIF_REPLAY_DIR") or os.path.join(ROOT, "replays")
        os.makedirs(d, exist_ok=True)
        safe = re.sub(r"[^A-Za-z0-9_.#-]+", "_", v.get("name", "bounded"))[:120]
        path = os.path.join(d, f"{self.pid}-bounded-{safe}.json")
        with open(path, "w") as f:
            json.dump({"property": self.pid, "bounded_part": bp.get("name"), "failing_input": v}, f, indent=1, default=str)
        print(f"VIOLATION property={self.pid} replay={path} bounded-part={bp.get('name')}")
        return path

    def write_evidence(self, obs, refuted, undecided, violations, known_hits, covers):
        by_backend = {}
        for o in obs:
            b = o.result["backend"]
            e = by_backend.setdefault(b, {"count": 0, "total_s": 0.0, "max_s": 0.0})
            e["count"] += 1
            e["total_s"] = round(e["total_s"] + o.result["time"], 3)
            e["max_s"] = round(max(e["max_s"], o.result["time"]), 3)
        fuc = []
        for r in self.fn_results:
            c = r.contract
            fuc.append({"function": r.qual, "body_sha": r.body_hash, "paths": r.paths, "normal_exit_paths": r.normal_paths,
                        "raising_paths": r.raise_paths, "obligations": len(r.obligations),
                        "requires": c.requires, "ensures": c.ensures, "raises": c.raises, "modifies": c.modifies})
        fuc += self.extra_functions
        kinds = {}
        for o in obs:
            kinds[o.kind] = kinds.get(o.kind, 0) + 1
        samples = list(self.samples)
        for o in obs[:3] + [o for o in obs if o.kind == "lemma"][:2]:
            samples.append({"obligation": o.name, "kind": o.kind, "clause": o.meta.get("clause"), "verdict": o.result["verdict"],
                            "backend": o.result["backend"], "smt_goal_head": o.meta.get("goal_head") or str(o.goal)[:300]})
        discharged = sum(1 for o in obs if o.result["verdict"] == "unsat")
        trusted = sorted(set(self.trusted_base + [f"{n}: {why}" for n, why in self.kit.trusted]))
        used_ext = sorted({e[2] for r in self.fn_results for e in r.effects if e[0] == "effect"})
        ev = {
            "property_id": self.pid, "tier": self.tier, "seed": self.seed, "level": "proof",
            "coverage": {
                "obligations": len(obs) - len(known_hits), "discharged": discharged,
                "obligations_including_known_findings": len(obs),
                "refuted": len(refuted), "refuted_known_findings": len(known_hits), "undecided": len(undecided),
                "checker_cmd": f"./check {self.pid} --tier {self.tier}",
                "trusted_base": trusted,
                "functions_under_contract": fuc,
                "obligation_kinds": kinds,
                "by_backend": by_backend,
                "slowest": [{"obligation": o.name, "s": round(o.result.get("time", 0.0), 2), "backend": o.result.get("backend")}
                            for o in sorted(obs, key=lambda o: -o.result.get("time", 0.0))[:5]],
                "covers": {"count": len(covers), "all_satisfiable": all(ok for _, ok in covers)},
                "external_calls_modelled": used_ext,
                "source_sha256": self.repo.sha,
                "samples": samples,
                "known_findings_printed": sorted({k["what"] for _, k in known_hits}),
                "informational": self.informational,
                "bounded_parts": [{k: v for k, v in bp.items() if k not in ("violations",)} for bp in self.bounded_parts],
                "notes": self.notes,
                "time_generate_s": round(getattr(self, "t_build", 0.0), 2), "time_solve_wall_s": round(getattr(self, "t_solve", 0.0), 2),
                "python_live_import": self.repo.live.get("python"),
            },
            "assumptions": self.assumptions,
            "wall_s": round(time.time() - self.t0, 2),
            "violations": len(violations),
        }
        evd = os.environ.get("VERIF_EVIDENCE_DIR") or os.path.join(ROOT, "evidence")
        os.makedirs(evd, exist_ok=True)
        with open(os.path.join(evd, f"{self.pid}.json"), "w") as f:
            json.dump(ev, f, indent=1, default=str)


def run_child(repo_root, script, args=(), timeout=600):
    """run a replay script on the *same tree the VCs came from*, under the repository's interpreter, in a scratch directory
    outside /repo and /verif; returns the parsed JSON it prints (or an error record)"""
    import subprocess
    import tempfile
    import shutil
    d = tempfile.mkdtemp(prefix="vreplay", dir=os.environ.get("TMPDIR", "/tmp"))
    try:
        env = dict(os.environ, PYTHONPATH=repo_root, PYTHONDONTWRITEBYTECODE="1", PYTHONHASHSEED=os.environ.get("PYTHONHASHSEED", "0"))
        r = subprocess.run([os.environ.get("VERIF_REPO_PYTHON", "/venv/bin/python"), os.path.join(ROOT, "replay", script)] + list(args),
                           capture_output=True, text=True, env=env, cwd=d, timeout=timeout)
        try:
            return json.loads(r.stdout.strip().splitlines()[-1])
        except Exception:  # noqa
            return {"error": "replay script produced no JSON", "stdout": r.stdout[-800:], "stderr": r.stderr[-1500:], "returncode": r.returncode}
    except Exception as e:  # noqa
        return {"error": repr(e)}
    finally:
        shutil.rmtree(d, ignore_errors=True)


def explain(o, rules):
    """debug aid: for each disjunct of the goal, which conjuncts are not entailed"""
    g = o.goal
    if z3.is_app(g) and g.decl().kind() == z3.Z3_OP_IMPLIES:
        g = g.arg(1)
    disj = g.children() if z3.is_app(g) and g.decl().kind() == z3.Z3_OP_OR else [g]
    base = list(o.hyps) + rules.instances(list(o.hyps) + [o.goal])
    for di, d in enumerate(disj):
        conj = d.children() if z3.is_app(d) and d.decl().kind() == z3.Z3_OP_AND else [d]
        flat = []

        def fl(c):
            if z3.is_app(c) and c.decl().kind() == z3.Z3_OP_AND:
                for ch in c.children():
                    fl(ch)
            else:
                flat.append(c)
        for c in conj:
            fl(c)
        for ci, c in enumerate(flat):
            s = z3.Solver()
            s.set("timeout", 5000)
            s.add(base)
            s.add(z3.Not(c))
            r = s.check()
            if r != z3.unsat:
                txt = " ".join(str(c).split())
                print(f"      disjunct {di} conjunct {ci}/{len(flat)}: NOT entailed ({r}): {txt[:160]} ... {txt[-160:]}")


def load_known():
    p = os.path.join(ROOT, "known_findings.json")
    if not os.path.exists(p):
        return {"known": [], "fixed": []}
    return json.load(open(p))


def match_known(pid, o, known):
    for k in known:
        if k.get("property") != pid:
            continue
        if not re.search(k["obligation"], o.name):
            continue
        w = k.get("witness_regex")
        if w and not re.search(w, (o.result.get("model") or "") + " " + json.dumps(o.meta.get("trail", []), default=str)):
            continue
        return k
    return None


# bounded companions run by the thorough tier with further seeds: property -> [(script, [argument lists])]
THOROUGH_COMPANIONS = {
    "C01": [("inert_diff.py", [["1"], ["2"], ["3"]])],
    "C03": [("event_diff.py", [[]])],
    "C04": [("floor_diff.py", [["1"]]), ("total_diff.py", [[]])],
    "C05": [("value_diff.py", [["1"], ["2"], ["3"]])],
    "C06": [("parse_diff.py", [["1"], ["2"], ["3"]])],
    "C02": [("total_diff.py", [[]]), ("load_diff.py", [["1"]]), ("hook_diff.py", [["1"], ["2"]])],
    "C07": [("nested_diff.py", [["1"]])],
    "C08": [("inject_diff.py", [["1"]])],
    "C09": [("shape_diff.py", [[]])],
    "C11": [("allow_diff.py", [["1"], ["2"], ["3"], ["4"]])],
    "C12": [("hook_diff.py", [["1"], ["2"], ["3"]])],
    "C13": [("determinism_diff.py", [["--two-process"]])],
    "C14": [("edits_diff.py", [["1", "400"], ["2", "400"], ["3", "400"]])],
    "C15": [("const_diff.py", [["1"], ["2"], ["3"]])],
    "C16": [("pt_diff.py", [["1"], ["2"]])],
    "C17": [("poly_diff.py", [["1"]])],
    "C18": [("cli_diff.py", [["1"], ["2"]])],
    "C19": [("total_diff.py", [[]])],
}


def witnesses_for(pid, o, failures, name_fn):
    """the companion failures that may serve as a witness for obligation `o`: failures matched by a recorded known finding are witnesses only
    for the obligations of that finding; every other obligation (in particular one that is merely undecided or outside the subset) must be
    reproduced by a failure no known finding explains — otherwise a recorded defect would be re-reported under another obligation's name"""
    known = [k for k in load_known().get("known", []) if k.get("property") == pid]

    def hit(k, name):
        return bool(re.search(k["obligation"], name) or (k.get("companion") and re.search(k["companion"], name)))
    mine = [k for k in known if re.search(k["obligation"], o.name)]
    out = []
    for f in failures:
        n = name_fn(f)
        ks = [k for k in known if hit(k, n)]
        if (mine and any(k in mine for k in ks)) or (not mine and not ks):
            out.append(f)
    return out


def companion_replayer(run, pid, script, args=None, name_fn=None, only=None, how=None, timeout=1800):
    """a replayer backed by a bounded companion: the first failure (that no known finding explains, see witnesses_for) is the failing input.
    `only(o)` restricts it to the obligations the companion can speak about."""
    cache = {}
    stem = script[:-3]
    name_fn = name_fn or (lambda f: failure_name(stem, f))

    def replay(o):
        if only is not None and not only(o):
            return None
        if "d" not in cache:
            cache["d"] = run_child(run.repo.root, script, args if args is not None else [str(run.seed)], timeout=timeout)
        d = cache["d"]
        if "error" in d:
            return {"reproduced": False, "companion_error": str(d)[:300]}
        fl = witnesses_for(pid, o, d.get("failures", []) or [], name_fn)
        if fl:
            return {"reproduced": True, "failing_case": fl[0], "how": how or f"replay/{script}"}
        return {"reproduced": False, "searched": {k: v for k, v in d.items() if k != "failures"}}
    return replay


def bounded_companion(run, pid, script, args=None, name_fn=None, what="", per_name=True, timeout=1800):
    """run a companion as a bounded part of the check: failures matched by a known finding are listed as such, the others are violations"""
    stem = script[:-3]
    name_fn = name_fn or (lambda f: failure_name(stem, f))
    d = run_child(run.repo.root, script, args if args is not None else [str(run.seed)], timeout=timeout)
    if "error" in d:
        raise RuntimeError(f"replay/{script} failed: {d}")
    known = [k for k in load_known().get("known", []) if k.get("property") == pid]
    viol, hits = [], []
    for f in d.get("failures", []) or []:
        f = dict(f)
        f["name"] = name_fn(f)
        k = next((k for k in known if re.search(k["obligation"], f["name"]) or (k.get("companion") and re.search(k["companion"], f["name"]))), None)
        if k is not None:
            if k["what"] not in hits:
                hits.append(k["what"])
        elif not (per_name and any(v["name"] == f["name"] for v in viol)):
            viol.append(f)
    run.bounded_parts.append({"name": stem, "label": "bounded", "what": what or f"replay/{script}", "bound": {k: v for k, v in d.items() if k != "failures"},
                              "known_findings": hits, "violations": viol[:4]})
    return d


# how each property module names the failures of its companion (the names the known findings are written against); used by the thorough tier
COMPANION_NAMES = {
    "poly_diff": lambda f: f"poly_diff:{f['face']}:{f.get('format') or f.get('kind') or ''}",
    "inject_diff": lambda f: f"inject_diff:{f['mode'].split('(')[0]}:{f.get('loader', '')}",
    "nested_diff": lambda f: f"nested_diff:{f['through']}:{f['payload']}",
    "value_diff": lambda f: f"value_diff:{f['kind']}:{f['program']}" + (f":{f['note']}" if f.get("note") else ""),
    "const_diff": lambda f: f"const_diff:{f['kind']}:{f.get('note') or f['through']}",
    "floor_diff": lambda f: "floor_diff:" + f["label"] + (":" + f["program"].split("/")[0].rsplit(".", 1)[0] if "py2" in f["label"] else ""),
    "load_diff": lambda f: f"load_diff:{f['kind']}:{f['way'].split('(')[0]}:{f['delivery']}",
}


def failure_name(stem, f):
    if stem in COMPANION_NAMES:
        try:
            return COMPANION_NAMES[stem](f)
        except Exception:  # noqa
            pass
    for k in ("how", "label", "what", "through", "entry_point", "kind", "program"):
        if f.get(k):
            extra = f":{f.get('note') or f.get('payload')}" if (f.get("note") or f.get("payload")) else ""
            return f"{stem}:{f[k]}{extra}"
    return stem


def thorough_extras(run):
    """the thorough tier's extra depth: (1) the rule library is re-proved in Lean, (2) every obligation is decided a second time with
    another solver seed (a proof that flips is reported as unstable in the evidence), (3) the bounded companions run with further seeds"""
    import subprocess
    import shutil
    t0 = time.time()
    lean = shutil.which("lean")
    lemma = os.path.join(ROOT, "lemmas", "SeqRules.lean")
    if lean and os.path.exists(lemma):
        r = subprocess.run([lean, lemma], capture_output=True, text=True, cwd=os.path.join(ROOT, "lemmas"), timeout=1800)
        ok = r.returncode == 0 and "error" not in r.stdout
        run.syntactic("lemmas/SeqRules.lean:checked-by-lean", "lemma", ok, (r.stdout + r.stderr)[-400:] or "lean accepted the rule library",
                      where="lemmas/SeqRules.lean", meta={"clause": "the ground rule library instantiated by pyvc/rules.py is proved (Lean 4 + Mathlib)"})
        run.notes["lean_check_s"] = round(time.time() - t0, 1)
    known = [k for k in load_known().get("known", []) if k.get("property") == run.pid]
    for script, argsets in THOROUGH_COMPANIONS.get(run.pid, []):
        stem = script[:-3]
        for args in argsets:
            d = run_child(run.repo.root, script, args, timeout=1800)
            if "error" in d:
                run.notes.setdefault("thorough_companion_errors", []).append({"script": script, "args": args, "error": str(d)[:300]})
                continue
            viol, hits = [], []
            for f in d.get("failures", []) or []:
                f = dict(f)
                f["name"] = failure_name(stem, f)
                k = next((k for k in known if re.search(k["obligation"], f["name"]) or (k.get("companion") and (re.search(k["companion"], f["name"]) or (f.get("source") and re.search(k["companion"], str(f["source"])))))), None)
                if k is not None:
                    if k["what"] not in hits:
                        hits.append(k["what"])
                elif not any(v["name"] == f["name"] for v in viol):
                    viol.append(f)
            run.bounded_parts.append({"name": f"{stem}{' ' + ' '.join(args) if args else ''}", "label": "bounded (thorough tier)",
                                      "what": f"replay/{script} {' '.join(args)}", "bound": {k: v for k, v in d.items() if k != "failures"},
                                      "known_findings": hits, "violations": viol[:5]})
    run.rediscover_seed = 7


def main(pid, build, sidecars=(), with_torch=False):
    import argparse
    ap = argparse.ArgumentParser()
    ap.add_argument("--tier", default=os.environ.get("VERIF_TIER", "quick"))
    ap.add_argument("--replay", default=None)
    a = ap.parse_args(sys.argv[2:] if len(sys.argv) > 1 and sys.argv[1] == pid else sys.argv[1:])
    seed = int(os.environ.get("VERIF_SEED", "0") or 0)
    try:
        if a.tier == "thorough":
            # deeper exploration: three times the solver budgets (set before any obligation is discharged)
            import pyvc.solve as _solve
            _solve.Z3_TIMEOUT_MS *= 3
            _solve.CVC5_TIMEOUT_S *= 3
        run = Run(pid, a.tier, seed, with_torch=with_torch, sidecars=sidecars)
        build(run)
        if a.tier == "thorough":
            thorough_extras(run)
        code = run.finish()
    except SourceError as e:
        print(f"CHECKER-ERROR: {pid}: {e}")
        code = EXIT_ERROR
    except Exception:  # noqa
        traceback.print_exc()
        print(f"CHECKER-ERROR: {pid}: internal error")
        code = EXIT_ERROR
    return code
