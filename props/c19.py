"""C19 — safety analysis is total on every pickle that decompiles."""
import os
import sys
import z3
sys.path.insert(0, os.path.dirname(os.path.dirname(os.path.abspath(__file__))))
from props.common import main, Run, run_child, ALL_SIDECARS, bounded_companion  # noqa: E402
from props.analyses import analysis_contracts  # noqa: E402
from pyvc.state import Obligation  # noqa: E402

SIDE = ALL_SIDECARS


def install_type_hooks(run):
    eng = run.eng

    def on_yield(st, v, node):
        ok = v.k == "ref" and v.cls == "analysis.AnalysisResult"
        eng.obligations.append(Obligation(f"{eng.cur_fn}:type:yield-is-AnalysisResult@{node.lineno}", "type", st.hyps(), z3.BoolVal(ok), where=eng.where(node),
                                          meta={"clause": "every value an analysis yields is an AnalysisResult", "got": repr(v)[:80]}))
    eng.on_yield = on_yield

    def after_call(c, env, st, node):
        """to_dict() must be JSON-serialisable: every finding's trigger is a str, an int, None, or a pair of str"""
        if c.qual != "analysis.AnalysisResult.__init__" or ".analyze" not in eng.cur_fn:
            return
        t = env.get("trigger")

        def jsonable(v):
            if v.k in ("str", "int", "bool", "none"):
                return True
            if v.k == "tuple":
                return all(jsonable(x) for x in v.xs)
            return False
        eng.obligations.append(Obligation(f"{eng.cur_fn}:type:trigger-is-JSON@{getattr(node, 'lineno', 0)}", "type", st.hyps(), z3.BoolVal(jsonable(t)),
                                          where=eng.where(node), meta={"clause": "trigger is JSON-serialisable (str / int / None / tuple of those)",
                                                                       "got": repr(t)[:80]}))
    eng.after_call = after_call


def make_replayer(run):
    cache = {}

    def replay(o):
        if "d" not in cache:
            cache["d"] = run_child(run.repo.root, "total_diff.py", [])
        d = cache["d"]
        if d.get("n_failures"):
            f = d["failures"][0]
            return {"reproduced": True, "failing_input_hex": f["bytes"], "program": f["program"], "error": f["error"],
                    "how": "labelled vocabulary (module category x attribute name) x {import, call, STACK_GLOBAL}: check_safety / to_dict / loader.load"}
        return {"reproduced": False, "searched": {k: v for k, v in d.items() if k != "failures"}}
    return replay


def build(run: Run):
    eng = run.eng
    run.replayers.append(make_replayer(run))
    bounded_companion(run, "C19", "total_diff.py", [], what="replay/total_diff.py: (module category x attribute name) imported / called / via STACK_GLOBAL, a PROTO "
                      "inserted before every opcode of a 35-opcode pickle, findings of mixed kinds at one severity, the corpus: check_safety returns, findings are "
                      "AnalysisResults, to_dict() is JSON, UnsafeFileError.info equals it")
    install_type_hooks(run)
    keys = analysis_contracts(run, total=True)
    only = os.environ.get("VERIF_ONLY")
    run.verify_batch([k for k in keys if not (only and only not in k)])
    if not only:
        run.verify("analysis.AnalysisContext.shorten_code", "analysis.AnalysisContext.analyze", "analysis.Analyzer.analyze",
                   "analysis.AnalysisResults.severity", "analysis.AnalysisResults.to_dict", "analysis.AnalysisResults.detailed_results",
                   "analysis.AnalysisResult.__init__", "analysis.check_safety",
                   # helpers whose contracts (no exception, no write, a value of the stated type) the analyses rely on at their call sites
                   "analysis.DuplicateProtoAnalysis._get_suffix", "analysis.AnalysisResults.to_string")
    run.assumptions += [
        "'decompiles' is made precise as: the class invariant of Pickled holds and the AST is well-typed (ImportFrom.module and alias.name are str, "
        "names/imports/calls are lists) — the typed view in contracts/analyses.py",
        "totality is modulo resource exhaustion (recursion depth of ast.unparse, memory)",
    ]


if __name__ == "__main__":
    sys.exit(main("C19", build, sidecars=SIDE))
