"""C14 — edits through the sequence interface keep every derived view coherent."""
import ast as _ast
import os
import re
import sys
sys.path.insert(0, os.path.dirname(os.path.dirname(os.path.abspath(__file__))))
from props.common import main, Run, run_child, ALL_SIDECARS, bounded_companion  # noqa: E402
from pyvc.calls import Contract  # noqa: E402

SIDE = ALL_SIDECARS
OWN = ["fickle.Pickled.__init__", "fickle.Pickled.__len__", "fickle.Pickled.__iter__", "fickle.Pickled.__getitem__", "fickle.Pickled.insert",
       "fickle.Pickled.__setitem__", "fickle.Pickled.__delitem__", "fickle.Pickled.nb_opcodes", "fickle.Pickled.opcodes",
       "fickle.Opcode.has_data", "fickle.Opcode.data", "fickle.Pickled.dumps", "fickle.Pickled.dump", "fickle.Pickled.ast",
       "fickle.Pickled.properties", "fickle.Pickled.has_import", "fickle.Pickled.has_call", "fickle.Pickled.has_non_setstate_call",
       "fickle.ASTProperties.__init__", "fickle.Interpreter.interpret", "fickle.Interpreter.to_ast", "fickle.Interpreter.__init__"]
ABC = "/root/.pyenv/versions/3.12.1/lib/python3.12/_collections_abc.py"
P = "self: fickle.Pickled"
MUT = ["self._opcodes[]", "self._ast", "self._properties"]


def mixin_source():
    """the pure-Python mix-in methods Pickled inherits from collections.abc.MutableSequence / Sequence, read from the interpreter's own
    _collections_abc.py (they are code that runs on a Pickled)"""
    path = os.path.join(os.path.dirname(os.__file__), "_collections_abc.py") if not os.path.exists(ABC) else ABC
    src = open(path).read()
    tree = _ast.parse(src)
    want = {"MutableSequence": ["append", "clear", "reverse", "extend", "pop", "remove", "__iadd__"], "Sequence": ["index"]}
    out = []
    for n in tree.body:
        if isinstance(n, _ast.ClassDef) and n.name in want:
            for f in n.body:
                if isinstance(f, _ast.FunctionDef) and f.name in want[n.name]:
                    f.decorator_list = []
                    out.append(_ast.unparse(f))
    return "\n\n".join(out) + "\n", path


def make_replayer(run):
    cache = {}

    def replay(o):
        if "d" not in cache:
            cache["d"] = run_child(run.repo.root, "edits_diff.py", [str(run.seed), "200"])
        d = cache["d"]
        if d.get("n_failures"):
            f = d["failures"][0]
            return {"reproduced": True, "base_pickle_hex": f["bytes"], "edit_history": f["history"], "stale_views": f["stale_views"],
                    "got": f["got"], "fresh_pickle_gives": f["fresh"],
                    "how": "random edit sequences through the sequence interface; views compared with Pickled(list(p))"}
        return {"reproduced": False, "searched": {k: v for k, v in d.items() if k != "failures"}}
    return replay


def build(run: Run):
    eng = run.eng
    run.replayers.append(make_replayer(run))
    bounded_companion(run, "C14", "edits_diff.py", [str(run.seed), "300"], what="replay/edits_diff.py: 300 random edit sequences (insert, del, set, append, extend, pop, inject, "
                      "reads in between) over corpus pickles: every view equals a fresh Pickled over the same opcodes; dumps() == concatenation of the opcodes' data "
                      "after every step")
    run.verify(*OWN)
    src, path = mixin_source()
    run.repo.add_virtual_module("abc_seq", src)
    C = eng.contracts

    def add(name, **kw):
        C[f"abc_seq.{name}"] = Contract(f"abc_seq.{name}", **kw)
    # the mix-ins reach the opcode list only through insert / __setitem__ / __delitem__ / __getitem__ / __len__ (callee contracts),
    # so they inherit the invariant; each is verified against "invariant kept, and the list is what the list operation gives"
    add("append", params=f"{P}, value: fickle.Opcode", requires=["inv(self)"], modifies=MUT,
        ensures=["inv(self)", "caches_clear(self)", "self._opcodes == old(self._opcodes) + [value]"])
    add("pop", params=f"{P}, index: int = -1", returns="val", requires=["inv(self)"], modifies=MUT,
        raises={"IndexError": "index_out_of_range(index, len(self._opcodes))"},
        ensures=["inv(self)", "caches_clear(self)", "self._opcodes == list_del(old(self._opcodes), index)"])
    add("index", params=f"{P}, value: val, start: int = 0, stop: val = None", returns="int", pure=True, may_raise=["ValueError"],
        requires=["start == 0", "stop is None"],
        ensures=["0 <= result", "result < len(self._opcodes)"],
        loops={0: dict(invariant=["0 <= i"], modifies=[], allocates=False)})
    add("remove", params=f"{P}, value: val", requires=["inv(self)"], modifies=MUT, may_raise=["ValueError"],
        ensures=["inv(self)", "caches_clear(self)", "len(self._opcodes) == len(old(self._opcodes)) - 1"])
    add("extend", params=f"{P}, values: list[fickle.Opcode]", requires=["inv(self)", "values is not self._opcodes"], modifies=MUT,
        ensures=["inv(self)", "implies(len(values) > 0, caches_clear(self))", "self._opcodes == old(self._opcodes) + values"],
        loops={0: dict(invariant=["inv(self)", "implies(_i > 0, caches_clear(self))", "self._opcodes == old(self._opcodes) + _seq[:_i]"],
                       modifies=MUT)})
    add("__iadd__", params=f"{P}, values: list[fickle.Opcode]", returns="fickle.Pickled", requires=["inv(self)", "values is not self._opcodes"],
        modifies=MUT, ensures=["inv(self)", "result is self", "self._opcodes == old(self._opcodes) + values"])
    add("reverse", params=P, requires=["inv(self)"], modifies=MUT, ensures=["inv(self)", "len(self._opcodes) == len(old(self._opcodes))"],
        loops={0: dict(invariant=["inv(self)", "len(self._opcodes) == len(old(self._opcodes))", "n == len(self._opcodes)"], modifies=MUT)})
    add("clear", params=P, requires=["inv(self)"], modifies=MUT, ensures=["inv(self)"],
        loops={0: dict(invariant=["inv(self)"], modifies=MUT)})
    # method lookups on a Pickled that fall through to the mix-ins resolve to these contracts
    for name in ("append", "pop", "index", "remove", "extend", "__iadd__", "reverse", "clear"):
        eng.ext_methods[("fickle.Pickled", name)] = (lambda nm: (lambda e, st, recv, args, kw, node:
                                                                 e.apply_contract(C[f"abc_seq.{nm}"], [recv] + list(args), kw, st, node)))(name)
    run.verify(*[f"abc_seq.{n}" for n in ("append", "pop", "index", "remove", "extend", "__iadd__", "reverse", "clear")])
    run.notes["mixins_read_from"] = path

    # writers outside the class: nothing in /repo/fickling touches a Pickled's _opcodes/_ast/_properties except Pickled's own methods
    fields = {"_opcodes", "_ast", "_properties"}
    for m, tree in run.repo.trees.items():
        if m in getattr(run.repo, "virtual", set()):
            continue
        parents = {}
        for n in _ast.walk(tree):
            for ch in _ast.iter_child_nodes(n):
                parents[id(ch)] = n
        for n in _ast.walk(tree):
            if isinstance(n, _ast.Attribute) and n.attr in fields:
                cls = None
                p = n
                while id(p) in parents:
                    p = parents[id(p)]
                    if isinstance(p, _ast.ClassDef):
                        cls = p.name
                        break
                if cls == "Interpreter" and n.attr == "_opcodes":
                    continue        # Interpreter._opcodes is a different field (an iterator) on a different class
                inside = cls == "Pickled" and isinstance(n.value, _ast.Name) and n.value.id == "self"
                par = parents.get(id(n))
                writes = isinstance(n.ctx, (_ast.Store, _ast.Del)) or (isinstance(par, _ast.Attribute) and par.attr in (
                    "append", "extend", "insert", "pop", "remove", "sort", "reverse", "clear", "__setitem__", "__delitem__")) or \
                    (isinstance(par, _ast.Subscript) and isinstance(par.ctx, (_ast.Store, _ast.Del)))
                run.syntactic(f"{m}:{n.lineno}:class-inv:{n.attr}-touched-only-by-Pickled", "class-inv", inside or not writes,
                              _ast.unparse(par)[:100] if par else "", where=f"{m}.py:{n.lineno}",
                              meta={"clause": "only Pickled's own methods write _opcodes / _ast / _properties"})
    # every Pickled method that writes the opcode list ends with both caches cleared: syntactic cross-check of the contracts' coverage
    cdef = run.repo.classes_src["fickle.Pickled"]
    for fn in [f for f in cdef.body if isinstance(f, _ast.FunctionDef)]:
        touches = any(isinstance(n, _ast.Attribute) and n.attr == "_opcodes" and (
            isinstance(n.ctx, (_ast.Store, _ast.Del))) for n in _ast.walk(fn)) or re.search(
            r"self\._opcodes\.(insert|append|extend|pop|remove|sort|reverse|clear)\(|self\._opcodes\[[^\]]*\]\s*=|del self\._opcodes\[", _ast.unparse(fn))
        if touches and fn.name != "__init__":
            key = f"fickle.Pickled.{fn.name}"
            run.syntactic(f"{key}:class-inv:mutator-has-contract", "class-inv", key in eng.contracts and "caches_clear(self)" in eng.contracts[key].ensures,
                          f"{fn.name} mutates the opcode list", where=key,
                          meta={"clause": "every method that mutates the opcode list is under a contract that clears both caches"})
    run.assumptions += [
        "INTERP (the decompiled module as a function of the opcode sequence) and the ASTProperties visitor are abstract here: the invariant says "
        "each cache is empty or current with respect to them; opcode objects are not mutated once they are in a Pickled (C13 frames)",
        "the lemma 'every view of p equals the view of Pickled(list(p))' follows: both are functions of the opcode sequence by inv and __init__'s post",
        "slice assignment / deletion through __setitem__/__delitem__ (index a slice object) is outside the verified signature (int index)",
    ]
    run.trusted_base += ["ast.NodeVisitor.visit (ASTProperties)", "collections.abc mix-ins are taken from the running interpreter's _collections_abc.py"]


if __name__ == "__main__":
    sys.exit(main("C14", build, sidecars=SIDE))
