"""C10 — all faces of the safety check agree on the same per-pickle severity."""
import os
import sys
import z3
sys.path.insert(0, os.path.dirname(os.path.dirname(os.path.abspath(__file__))))
from props.common import main, Run, ALL_SIDECARS  # noqa: E402
from props import faces  # noqa: E402
from pyvc.state import State  # noqa: E402
from pyvc.sorts import V, vbool, vint  # noqa: E402

SIDE = ALL_SIDECARS
OPS = {"__lt__": lambda a, b: a < b, "__gt__": lambda a, b: a > b, "__eq__": lambda a, b: a == b,
       "__ge__": lambda a, b: a >= b, "__le__": lambda a, b: a <= b}


def build(run: Run):
    eng = run.eng
    # (1) the comparison operators against the documented ranking
    for op in OPS:
        run.verify(f"analysis.Severity.{op}")
    # (2) aggregation
    run.verify("analysis.AnalysisResult.__init__", "analysis.AnalysisResult.__bool__", "analysis.AnalysisResults.__init__",
               "analysis.AnalysisResults.severity", "analysis.AnalysisResults.to_dict", "analysis.AnalysisResults.detailed_results",
               "analysis.AnalysisContext.__init__", "analysis.AnalysisContext.analyze", "analysis.AnalysisContext.results",
               "analysis.Analyzer.analyze", "analysis.check_safety", "exception.UnsafeFileError.__init__")
    # (3) faces
    run.verify("analysis.is_likely_safe", extra_post=faces.is_likely_safe_path)
    run.verify("loader.load", extra_post=faces.loader_load_path)
    # (4) lemma: for Severity operands each operator contract *is* the comparison of documented ranks (all 36 pairs x operators:
    #     symbolic over the closed enum, exhaustive because the domain is finite), and != is the negation of ==
    for op, rel in OPS.items():
        st = State()
        for ax in eng.heap_axioms:
            for fct in ax(eng, st):
                st.assume(fct)
        a = eng.fresh_of("analysis.Severity", st, "a")
        b = eng.fresh_of("analysis.Severity", st, "b")
        eng.cur_fn, eng.cur_mod = "lemma", "analysis"
        eng.obligations = []
        res = eng.apply_contract(eng.contracts[f"analysis.Severity.{op}"], [a, b], {}, st, None)
        (s2, r), = [x for x in res if x[0].status == "run"]
        ra = eng.spec_funcs["doc_rank"](eng, s2, a).t
        rb = eng.spec_funcs["doc_rank"](eng, s2, b).t
        run.lemma(f"severity-order:{op}", s2.hyps(), z3.And(r.t == rel(ra, rb), ra >= 0, ra <= 5, rb >= 0, rb <= 5),
                  meta={"clause": f"for all Severity a, b: a.{op}(b) == (rank(a) {op} rank(b)), ranks = documented order 0..5"})
    # strict total order on the six members (trichotomy and injectivity of the documented rank)
    st = State()
    for ax in eng.heap_axioms:
        for fct in ax(eng, st):
            st.assume(fct)
    a = eng.fresh_of("analysis.Severity", st, "a")
    b = eng.fresh_of("analysis.Severity", st, "b")
    ra = eng.spec_funcs["doc_rank"](eng, st, a).t
    rb = eng.spec_funcs["doc_rank"](eng, st, b).t
    run.lemma("severity-rank-injective", st.hyps(), (ra == rb) == (a.t == b.t), meta={"clause": "rank(a) == rank(b) iff a is b"})
    # (5) LIKELY_SAFE exactly when there are no findings: no analysis constructs a LIKELY_SAFE finding (syntactic, every yield site)
    import ast as _ast
    for k in run.repo.live["analysis_all"]:
        mod, fn = run.repo.function(k + ".analyze")
        for y in [n for n in _ast.walk(fn) if isinstance(n, _ast.Yield)]:
            src = _ast.unparse(y.value) if y.value is not None else "None"
            ok = not ("LIKELY_SAFE" in src)
            run.syntactic(f"{k}.analyze:type:yield-not-likely-safe@{y.lineno}", "type", ok, src[:120], where=f"{k}.analyze",
                          meta={"clause": "a finding never has severity LIKELY_SAFE"})
    run.assumptions.append("VERDICT link between faces: each face's output is proved to be a function of the severity of the AnalysisResults "
                           "object its own check_safety call returned; that two separate calls on the same bytes return the same severity is C13")
    run.trusted_base += ["pickle.loads: the stock unpickler (UNPICKLE uninterpreted)", "open / json.dump / file methods: effect rows only",
                         "fickle.Pickled.load / dumps: callee contracts, verified under C06/C14"]


if __name__ == "__main__":
    sys.exit(main("C10", build, sidecars=SIDE))
