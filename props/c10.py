"""C10 — all faces of the safety check agree on the same per-pickle severity."""
import os
import sys
import z3
sys.path.insert(0, os.path.dirname(os.path.dirname(os.path.abspath(__file__))))
from props.common import main, Run, run_child, ALL_SIDECARS, companion_replayer, bounded_companion  # noqa: E402
from props.c02 import LOAD_DIFF, name_ld  # noqa: E402
from props import faces, cli_faces  # noqa: E402
from props.c18 import cli_contract  # noqa: E402
from pyvc.state import State  # noqa: E402
from pyvc.sorts import V, vbool, vint  # noqa: E402

SIDE = ALL_SIDECARS + ("cli",)
OPS = {"__lt__": lambda a, b: a < b, "__gt__": lambda a, b: a > b, "__eq__": lambda a, b: a == b,
       "__ge__": lambda a, b: a >= b, "__le__": lambda a, b: a <= b}


def make_cli_replayer(run):
    cache = {}

    def replay(o):
        if "cli.main" not in o.name:
            return None
        if "d" not in cache:
            cache["d"] = run_child(run.repo.root, "cli_diff.py", [str(run.seed)])
        fl = [f for f in cache["d"].get("failures", []) if f.get("face") == "check"]
        if fl:
            return {"reproduced": True, "failing_case": fl[0], "how": "stacks of pickles through `fickling --check-safety` (replay/cli_diff.py)"}
        return {"reproduced": False, "searched": {k: v for k, v in cache["d"].items() if k != "failures"}}
    return replay


def build(run: Run):
    eng = run.eng
    # (1) the comparison operators against the documented ranking
    for op in OPS:
        run.verify(f"analysis.Severity.{op}")
    # (2) aggregation
    run.verify("analysis.AnalysisResult.__init__", "analysis.AnalysisResult.__bool__", "analysis.AnalysisResults.__init__",
               "analysis.AnalysisResults.severity", "analysis.AnalysisResults.to_dict", "analysis.AnalysisResults.detailed_results",
               "analysis.AnalysisContext.__init__", "analysis.AnalysisContext.analyze", "analysis.AnalysisContext.results",
               "analysis.Analyzer.analyze", "analysis.check_safety", "exception.UnsafeFileError.__init__")
    # (3) faces
    run.verify("analysis.is_likely_safe", extra_post=faces.is_likely_safe_path)
    run.verify("loader.load", extra_post=faces.loader_load_path)
    # the command line: every stacked pickle is analysed exactly once (into the report file), was_safe is the conjunction of
    # "this pickle's severity is LIKELY_SAFE", the loop is never left early, and the exit status is 0 iff was_safe
    cli_contract(run)
    eng.back_edge_hook = cli_faces.make_back_edge(run, {"check"})
    run.verify("cli.main", extra_post=cli_faces.check_paths)
    eng.back_edge_hook = None
    run.replayers.append(make_cli_replayer(run))
    # the ordering clause on the real enum: every ordered pair under every operator (finite domain: exhaustive)
    SEV = "replay/severity_diff.py: all 36 ordered pairs of severities x the six comparison operators (exhaustive), sorted / max / min"
    run.replayers.append(companion_replayer(run, "C10", "severity_diff.py", how=SEV, name_fn=lambda f: f"severity_diff:{f['kind']}",
                                            only=lambda o: "Severity" in o.name))
    bounded_companion(run, "C10", "severity_diff.py", what=SEV, name_fn=lambda f: f"severity_diff:{f['kind']}")
    # the loader face and the boolean query against the library verdict on concrete files (the same companion as C02's)
    run.replayers.append(companion_replayer(run, "C10", "load_diff.py", name_fn=name_ld, how=LOAD_DIFF,
                                            only=lambda o: o.name.split(":")[0].split(".")[0] in ("loader", "analysis")))
    bounded_companion(run, "C10", "load_diff.py", name_fn=name_ld, what=LOAD_DIFF)
    d = run_child(run.repo.root, "cli_diff.py", [str(run.seed)])
    if "error" in d:
        raise RuntimeError(f"replay/cli_diff.py failed: {d}")
    viol = []
    for f in d.get("failures", []):
        if f.get("face") == "check":
            f = dict(f)
            f["name"] = "cli_diff:check:" + f.get("what", "")[:40]
            if not viol:
                viol.append(f)
    run.bounded_parts.append({"name": "cli_diff", "label": "bounded",
                              "what": "replay/cli_diff.py (check face): stacks of 1..4 pickles from benign and flagged families through --check-safety "
                                      "with / without --print-results: exit status and the JSON report's per-pickle severities against the library's",
                              "bound": {k: v for k, v in d.items() if k != "failures"}, "violations": viol})
    # (4) lemma: for Severity operands each operator contract *is* the comparison of documented ranks (all 36 pairs x operators:
    #     symbolic over the closed enum, exhaustive because the domain is finite), and != is the negation of ==
    for op, rel in OPS.items():
        st = State()
        for ax in eng.heap_axioms:
            for fct in ax(eng, st):
                st.assume(fct)
        a = eng.fresh_of("analysis.Severity", st, "a")
        b = eng.fresh_of("analysis.Severity", st, "b")
        eng.cur_fn, eng.cur_mod = "lemma", "analysis"
        eng.obligations = []
        res = eng.apply_contract(eng.contracts[f"analysis.Severity.{op}"], [a, b], {}, st, None)
        (s2, r), = [x for x in res if x[0].status == "run"]
        ra = eng.spec_funcs["doc_rank"](eng, s2, a).t
        rb = eng.spec_funcs["doc_rank"](eng, s2, b).t
        run.lemma(f"severity-order:{op}", s2.hyps(), z3.And(r.t == rel(ra, rb), ra >= 0, ra <= 5, rb >= 0, rb <= 5),
                  meta={"clause": f"for all Severity a, b: a.{op}(b) == (rank(a) {op} rank(b)), ranks = documented order 0..5"})
    # strict total order on the six members (trichotomy and injectivity of the documented rank)
    st = State()
    for ax in eng.heap_axioms:
        for fct in ax(eng, st):
            st.assume(fct)
    a = eng.fresh_of("analysis.Severity", st, "a")
    b = eng.fresh_of("analysis.Severity", st, "b")
    ra = eng.spec_funcs["doc_rank"](eng, st, a).t
    rb = eng.spec_funcs["doc_rank"](eng, st, b).t
    run.lemma("severity-rank-injective", st.hyps(), (ra == rb) == (a.t == b.t), meta={"clause": "rank(a) == rank(b) iff a is b"})
    # (5) LIKELY_SAFE exactly when there are no findings: no analysis constructs a LIKELY_SAFE finding (syntactic, every yield site)
    import ast as _ast
    for k in run.repo.live["analysis_all"]:
        mod, fn = run.repo.function(k + ".analyze")
        for y in [n for n in _ast.walk(fn) if isinstance(n, _ast.Yield)]:
            src = _ast.unparse(y.value) if y.value is not None else "None"
            ok = not ("LIKELY_SAFE" in src)
            run.syntactic(f"{k}.analyze:type:yield-not-likely-safe@{y.lineno}", "type", ok, src[:120], where=f"{k}.analyze",
                          meta={"clause": "a finding never has severity LIKELY_SAFE"})
    run.assumptions.append("VERDICT link between faces: each face's output is proved to be a function of the severity of the AnalysisResults "
                           "object its own check_safety call returned; that two separate calls on the same bytes return the same severity is C13")
    run.trusted_base += ["pickle.loads: the stock unpickler (UNPICKLE uninterpreted)", "open / json.dump / file methods: effect rows only",
                         "fickle.Pickled.load / dumps: callee contracts, verified under C06/C14"]


if __name__ == "__main__":
    sys.exit(main("C10", build, sidecars=SIDE))
