"""C08 — injection adds exactly one call and preserves the original pickle's behaviour.

Proved (structure of the rewritten opcode sequence, for every base pickle and every argument tuple): each helper refuses a pickle that
does not end in STOP before touching it; otherwise the original opcodes are all still there, in their original order (kept(new) == old),
every inserted opcode is a new object that is not a STOP, the final opcode is still the original STOP, the caches are cleared and the
class invariant holds.  The behaviour of the rewritten bytes under the stock unpicklers (one call, same effects, empty stack, result) is
a statement about the pickle VM: bounded companion replay/inject_diff.py."""
import os
import re
import sys
sys.path.insert(0, os.path.dirname(os.path.dirname(os.path.abspath(__file__))))
from props.common import main, Run, run_child, load_known, ALL_SIDECARS  # noqa: E402

SIDE = ALL_SIDECARS + ("inject",)
HELPERS = ["fickle.Pickled.insert", "fickle.Pickled._encode_python_obj", "fickle.Pickled.insert_python_obj", "fickle.Pickled.insert_python", "fickle.Pickled.append_python",
           "fickle.Pickled.insert_magic_int", "fickle.Pickled._is_constant_type"]


def name_of(f):
    return f"inject_diff:{f['mode'].split('(')[0]}:{f.get('loader', '')}"


def failures(run, cache):
    if "d" not in cache:
        cache["d"] = run_child(run.repo.root, "inject_diff.py", [str(run.seed)])
    return cache["d"]


def build(run: Run):
    cache = {}
    known = [k for k in load_known().get("known", []) if k.get("property") == "C08"]

    def replay(o):
        d = failures(run, cache)
        fl = [f for f in d.get("failures", []) if not any(re.search(k["obligation"], name_of(f)) for k in known)]
        if fl:
            return {"reproduced": True, "failing_case": fl[0], "how": "base pickles x injection helpers x flags under the stock unpicklers (replay/inject_diff.py)"}
        return {"reproduced": False, "searched": {k: v for k, v in d.items() if k != "failures"}}
    run.replayers.append(replay)
    run.verify_batch(HELPERS)
    d = failures(run, cache)
    if "error" in d:
        raise RuntimeError(f"replay/inject_diff.py failed: {d}")
    viol, hits = [], []
    for f in d.get("failures", []):
        f = dict(f)
        f["name"] = name_of(f)
        k = next((k for k in known if re.search(k["obligation"], f["name"])), None)
        if k is not None:
            if k["what"] not in hits:
                hits.append(k["what"])
        elif not any(v["name"] == f["name"] for v in viol):
            viol.append(f)
    run.bounded_parts.append({"name": "inject_diff", "label": "bounded",
                              "what": "replay/inject_diff.py: 41 base pickles (objects incl. instances, shared references, 300 memo entries, protocols "
                                      "0-5, assembler programs with sparse / colliding memo keys and effects of their own) x 10 helper modes, loaded by "
                                      "the accelerated unpickler and (unframed) the pure-Python one: one injected call with the given arguments, base "
                                      "effects in order, empty stack at STOP, promised result, single final STOP, verdict not LIKELY_SAFE",
                              "bound": {k: v for k, v in d.items() if k != "failures"}, "known_findings": hits, "violations": viol[:4]})
    run.assumptions += [
        "what the rewritten bytes do when unpickled (the injected call runs once with the given arguments, the original effects in order, "
        "stack empty at STOP, result) is a property of the pickle VM applied to the proved structure; it is not derived here — bounded companion",
        "ConstantOpcode.new is under a trusted contract in this check (a new non-STOP opcode or a refusal); its meaning is C15",
        "insert_function_call_on_unpickled_object (regex + compile / marshal) is outside the verified subset: bounded companion only",
    ]


if __name__ == "__main__":
    sys.exit(main("C08", build, sidecars=SIDE))
