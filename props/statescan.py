"""Source scan shared by the checks whose statement says "a function of the input alone" / "does not outlive": sites where code of /repo keeps
state beyond one call or one object — a `global` re-binding, a mutation of a module-level object, a write to a class attribute, a memoising
decorator.  A modular proof over per-object heaps cannot see such state unless the sidecar declares it; the scan makes every such site an
explicit obligation (an allow-list names the sites that are import-time registration)."""
import ast

MUTATORS = ("add", "append", "appendleft", "extend", "update", "insert", "pop", "popitem", "remove", "discard", "setdefault", "clear", "sort", "reverse",
            "__setitem__", "__delitem__")
MEMO_DECORATORS = ("lru_cache", "cache", "functools.lru_cache", "functools.cache", "cached", "memoize", "memoized")


def _own_nodes(fn):
    """nodes of the function body, not descending into nested defs / lambdas / classes"""
    todo = list(fn.body)
    while todo:
        n = todo.pop()
        yield n
        if not isinstance(n, (ast.FunctionDef, ast.AsyncFunctionDef, ast.Lambda, ast.ClassDef)):
            todo += list(ast.iter_child_nodes(n))


def _local_names(fn):
    a = fn.args
    names = {x.arg for x in a.posonlyargs + a.args + a.kwonlyargs}
    if a.vararg:
        names.add(a.vararg.arg)
    if a.kwarg:
        names.add(a.kwarg.arg)
    declared_global = set()
    for n in _own_nodes(fn):
        if isinstance(n, ast.Global):
            declared_global |= set(n.names)
    for n in _own_nodes(fn):
        if isinstance(n, ast.Name) and isinstance(n.ctx, ast.Store) and n.id not in declared_global:
            names.add(n.id)
        if isinstance(n, (ast.Import, ast.ImportFrom)):
            names |= {(x.asname or x.name).split(".")[0] for x in n.names}
    return names, declared_global


def module_level_names(repo, mod):
    """names bound at module level to something that can hold state (not functions / classes / imported modules)"""
    out = set(repo.globals_src.get(mod, {}))
    tree = repo.trees.get(mod)
    if tree is not None:
        for n in tree.body:
            if isinstance(n, ast.AnnAssign) and isinstance(n.target, ast.Name):
                out.add(n.target.id)
            if isinstance(n, ast.Assign):
                for t in n.targets:
                    if isinstance(t, ast.Name):
                        out.add(t.id)
    return out


def sites(repo, quals):
    """-> [(qual, line, kind, text)] for the functions `quals`"""
    out = []
    for q in quals:
        fn = repo.qual.get(q)
        if fn is None:
            continue
        mod = q.split(".")[0]
        cls = ".".join(q.split(".")[:2]) if repo.has_class(".".join(q.split(".")[:2])) else None
        locals_, declared_global = _local_names(fn)
        mlevel = module_level_names(repo, mod) - locals_
        imported = {k for k, v in repo.imports.get(mod, {}).items()} - locals_
        for d in getattr(fn, "decorator_list", []):
            t = ast.unparse(d)
            if t.split("(")[0] in MEMO_DECORATORS:
                out.append((q, d.lineno, "memoising-decorator", "@" + t))
        for n in _own_nodes(fn):
            if isinstance(n, ast.Global):
                out.append((q, n.lineno, "global-rebinding", ast.unparse(n)))
            if isinstance(n, ast.Call) and isinstance(n.func, ast.Attribute) and n.func.attr in MUTATORS:
                root = n.func.value
                while isinstance(root, (ast.Attribute, ast.Subscript)):
                    root = root.value
                if isinstance(root, ast.Name):
                    direct = isinstance(n.func.value, ast.Name)
                    if root.id in mlevel or (root.id in imported and not direct):
                        out.append((q, n.lineno, "module-object-mutation", ast.unparse(n)[:90]))
                    elif cls and (root.id == "cls" or (not direct and root.id in (cls.split(".")[-1],))) and root.id not in ("self",):
                        out.append((q, n.lineno, "class-object-mutation", ast.unparse(n)[:90]))
            targets = []
            if isinstance(n, ast.Assign):
                targets = n.targets
            elif isinstance(n, (ast.AugAssign, ast.AnnAssign)):
                targets = [n.target]
            elif isinstance(n, ast.Delete):
                targets = n.targets
            for t in targets:
                for x in (t.elts if isinstance(t, (ast.Tuple, ast.List)) else [t]):
                    if isinstance(x, (ast.Subscript, ast.Attribute)):
                        root = x.value
                        depth = 0
                        while isinstance(root, (ast.Attribute, ast.Subscript)):
                            root = root.value
                            depth += 1
                        if isinstance(root, ast.Name):
                            if root.id in mlevel or (root.id in imported and isinstance(x, ast.Subscript)):
                                out.append((q, n.lineno, "module-object-mutation", ast.unparse(n)[:90]))
                            elif root.id == "cls" or (cls and root.id == cls.split(".")[-1]) or \
                                    (isinstance(x, ast.Attribute) and isinstance(x.value, ast.Attribute) and x.value.attr == "__class__") or \
                                    (isinstance(x, ast.Attribute) and isinstance(x.value, ast.Call) and ast.unparse(x.value.func) == "type"):
                                out.append((q, n.lineno, "class-attribute-write", ast.unparse(n)[:90]))
    return out
