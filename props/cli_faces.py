"""Obligations about fickling.cli.main read off the ghost call log of each path and of each loop iteration (C18, C10's CLI face)."""
import z3
from pyvc.state import Obligation
from pyvc.sorts import V, Val, box, vint

MUTATORS = ("fickle.Pickled.insert_python", "fickle.Pickled.insert", "fickle.Pickled.__setitem__", "fickle.Pickled.__delitem__",
            "fickle.Pickled.insert_python_exec", "fickle.Pickled.append_python", "fickle.Pickled.insert_magic_int")


def ob(eng, name, st, goal, clause, kind="post", trail=None):
    eng.obligations.append(Obligation(f"cli.main:{kind}:{name}", kind, st.hyps(), goal if not isinstance(goal, bool) else z3.BoolVal(goal),
                                      where="cli.main", meta={"clause": clause, "trail": trail if trail is not None else st.trail}))


def calls(log, qual, kind="call"):
    return [e for e in log if e[0] == kind and e[1] == qual]


def the_namespace(f):
    ev = [e for e in f.log if e[0] == "parse_args"]
    return ev[0][1] if ev else None


def loops_of_main(repo):
    """ordinals of the loops of cli.main by what they iterate: {'before': n, 'after': n, 'check': n, 'decompile': n}"""
    import ast
    mod, fn = repo.function("cli.main")
    out = {}
    for i, l in enumerate(repo.loops(fn)):
        if not isinstance(l, ast.For):
            continue
        it = ast.unparse(l.iter)
        body = ast.unparse(ast.Module(body=l.body, type_ignores=[]))
        if "check_safety(" in body:
            out["check"] = i
        elif "Interpreter(" in body:
            out["decompile"] = i
        elif ".dump(" in body and "[:" in it.replace(" ", ""):
            out["before"] = i
        elif ".dump(" in body:
            out["after"] = i
    return out


def field(eng, st, ns, name):
    return eng.spec_value(f"ns.{name}", st, {"ns": ns})


def make_back_edge(run, want):
    """per-iteration obligations; want ⊆ {'inject', 'check', 'decompile'}"""
    eng = run.eng
    L = loops_of_main(run.repo)

    def hook(eng_, r, ordn, n):
        if eng.cur_fn != "cli.main":
            return
        start = r.ghost.get(f"loop{ordn}_log", 0)
        body = r.log[start:]
        head = r.ghost.get(f"loop{ordn}_head_env", {})
        elem = r.env.get("pickled")
        ns = the_namespace(r)
        if "inject" in want and ordn in (L.get("before"), L.get("after")):
            which = "before" if ordn == L.get("before") else "after"
            dumps = calls(body, "fickle.Pickled.dump", "call-begin")
            muts = [e for e in body if e[0] == "call-begin" and e[1] in MUTATORS]
            ob(eng, f"inject:{which}:one-dump-no-edit#{n}", r, len(dumps) == 1 and not muts,
               "each pickle other than the target is written once and not edited", kind="inv-keep")
            if len(dumps) == 1 and elem is not None:
                ob(eng, f"inject:{which}:dumps-the-loop-element#{n}", r, dumps[0][2]["self"].t == elem.t, "the pickle written is the loop's element", kind="inv-keep")
                buf = r.env.get("buffer")
                if buf is not None:
                    ob(eng, f"inject:{which}:writes-to-the-output-buffer#{n}", r, dumps[0][2]["file"].t == buf.t, "it is written to the output buffer", kind="inv-keep")
        if "check" in want and ordn == L.get("check"):
            cs = calls(body, "analysis.check_safety", "call")
            ob(eng, f"check:one-analysis-per-pickle#{n}", r, len(cs) == 1, "each stacked pickle is analysed exactly once", kind="inv-keep")
            if len(cs) == 1 and elem is not None and ns is not None:
                env, res = cs[0][2], cs[0][3]
                ob(eng, f"check:analyses-the-loop-element#{n}", r, env["pickled"].t == elem.t, "check_safety is given the loop's pickle", kind="inv-keep")
                jp = env.get("json_output_path")
                tr = eng.truth(jp, r) if jp is not None else None
                ob(eng, f"check:report-is-written#{n}", r, tr if tr is not None else False,
                   "check_safety is given a non-empty report path, so every pickle's severity is appended to the JSON report", kind="inv-keep")
                was0 = head.get("was_safe")
                was1 = r.env.get("was_safe")
                if was0 is not None and was1 is not None:
                    sev_safe = eng.spec_eval("doc_rank(res.severity) == 0", r, {"res": res})
                    ob(eng, f"check:was_safe-accumulates#{n}", r, eng.truth(was1, r) == z3.And(eng.truth(was0, r), sev_safe),
                       "was_safe after the iteration == was_safe before and (this pickle's severity is LIKELY_SAFE)", kind="inv-keep")
        if "decompile" in want and ordn == L.get("decompile"):
            ctor = calls(body, "fickle.Interpreter.__init__", "call")
            ob(eng, f"decompile:one-interpreter-per-pickle#{n}", r, len(ctor) == 1, "one Interpreter per stacked pickle", kind="inv-keep")
            if len(ctor) == 1 and elem is not None:
                env = ctor[0][2]
                v0 = head.get("var_id")
                idx = r.ghost.get(f"loop{ordn}_index")
                ob(eng, f"decompile:interprets-the-loop-element#{n}", r, env["pickled"].t == elem.t, "the interpreter is given the loop's pickle", kind="inv-keep")
                if v0 is not None:
                    ob(eng, f"decompile:variables-start-where-the-previous-pickle-stopped#{n}", r, eng.as_int(env["first_variable_id"]) == eng.as_int(v0),
                       "first_variable_id is the previous interpreter's next_variable_id (0 for the first)", kind="inv-keep")
                if idx is not None:
                    want_name = eng.to_str(vint(idx), r)
                    ob(eng, f"decompile:result-name-is-result-i#{n}", r, env["result_variable"].t == z3.Concat(z3.StringVal("result"), want_name),
                       "the pickle's value is bound to result<i>", kind="inv-keep")
                v1 = r.env.get("var_id")
                me = env["self"]
                if v1 is not None:
                    cur = eng.spec_value("i_._var_counter", r, {"i_": me})
                    ob(eng, f"decompile:next-start-is-this-interpreter's-counter#{n}", r, eng.as_int(v1) == eng.as_int(cur),
                       "var_id for the next pickle is this interpreter's next_variable_id after it ran", kind="inv-keep")
                    if v0 is not None:
                        ob(eng, f"decompile:counter-never-decreases#{n}", r, eng.as_int(v1) >= eng.as_int(v0),
                           "variable numbers of successive pickles form disjoint, increasing intervals", kind="inv-keep")
    return hook


def inject_paths(eng, c, f, entry, j, raised):
    """whole-path obligations of the --inject branch"""
    ns = the_namespace(f)
    loads = calls(f.log, "fickle.StackedPickle.load")
    if ns is None or not loads:
        return
    stacked = loads[0][3]
    inject = field(eng, f, ns, "inject")
    target = eng.as_int(field(eng, f, ns, "inject_target"))
    lens = calls(f.log, "fickle.StackedPickle.__len__")
    if not lens:
        return          # the path never asked for the size of the stack: not the inject branch past its range check
    n = eng.as_int(lens[0][3])      # len(stacked_pickled) as the range check saw it (StackedPickle.__len__ == len(self.pickled), verified)
    asked = z3.Not(Val.is_N(inject.t)) if inject.k == "val" else z3.BoolVal(inject.k != "none")
    out_of_range = z3.And(asked, target >= n)
    dumps = calls(f.log, "fickle.Pickled.dump", "call-begin")
    ins = calls(f.log, "fickle.Pickled.insert_python", "call-begin")
    writes = [e for e in f.log if e[0] == "write" and "stdout" in str(e[1:3])]
    if dumps or ins:
        ob(eng, f"inject:out-of-range-emits-nothing#path{j}", f, z3.Not(out_of_range), "an out-of-range target writes no pickle and edits nothing")
    if raised is None and f.ret is not None:
        ob(eng, f"inject:out-of-range-fails#path{j}", f, z3.Implies(out_of_range, eng.as_int(f.ret) != 0), "an out-of-range target exits with non-zero status")
    if ins:
        ob(eng, f"inject:one-injection#path{j}", f, len(ins) == 1, "the injection helper is called exactly once")
        env = ins[0][2]
        gets = [e for e in calls(f.log, "fickle.StackedPickle.__getitem__") if e[2]["index"].k != "slice"]
        ob(eng, f"inject:target-looked-up-once#path{j}", f, len(gets) == 1 and gets[0][2]["self"].t.eq(stacked.t), "the target is looked up in the loaded stack")
        if len(gets) == 1:
            ob(eng, f"inject:into-the-target#path{j}", f, z3.And(eng.as_int(gets[0][2]["index"]) == target,
                                                               box(eng.materialize(env["self"], f)) == box(eng.materialize(gets[0][3], f))),
               "the pickle edited is stacked_pickled[inject_target]")
        args = env.get("args")
        ok_args = args is not None and args.k == "tuple" and len(args.xs) == 1
        ob(eng, f"inject:one-code-argument#path{j}", f, ok_args, "the injected call gets exactly the --inject text")
        if ok_args:
            ob(eng, f"inject:code-is-the-option#path{j}", f, box(eng.materialize(args.xs[0], f)) == box(eng.materialize(inject, f)), "the text injected is args.inject")
        rl = eng.truth(field(eng, f, ns, "run_last"), f)
        rr = eng.truth(field(eng, f, ns, "replace_result"), f)
        ob(eng, f"inject:run-first-iff-not-run-last#path{j}", f, eng.truth(env["run_first"], f) == z3.Not(rl), "run_first = not --run-last")
        ob(eng, f"inject:replace-result-flag#path{j}", f, eng.truth(env["use_output_as_unpickle_result"], f) == rr, "use_output_as_unpickle_result = --replace-result")
        if raised is None:
            # outside the two loops: exactly one dump, of the edited pickle, after the edit, to the same buffer
            L = loops_of_main(eng.repo)
            straight = [e for e in dumps if e[4] not in loop_lines(eng.repo, L)]
            ob(eng, f"inject:target-written-once#path{j}", f, len(straight) == 1, "the edited pickle is written exactly once")
            if len(straight) == 1:
                ob(eng, f"inject:written-pickle-is-the-edited-one#path{j}", f, straight[0][2]["self"].t == env["self"].t if env["self"].k == straight[0][2]["self"].k
                   else box(eng.materialize(straight[0][2]["self"], f)) == box(eng.materialize(env["self"], f)), "what is written in the middle is the edited pickle")
                ob(eng, f"inject:edit-precedes-write#path{j}", f, f.log.index(ins[0]) < f.log.index(straight[0]), "the edit happens before the write")
            sl = calls(f.log, "fickle.StackedPickle.__getitem__", "call-begin")
            slices = [e for e in sl if e[2]["index"].k == "slice"]
            ob(eng, f"inject:two-slices#path{j}", f, len(slices) == 2, "the other pickles come from two slices of the stack")
            if len(slices) == 2:
                a, b = slices[0][2]["index"].xs, slices[1][2]["index"].xs
                ok_a = a[0] is None and a[1] is not None and a[2] is None
                ok_b = b[0] is not None and b[1] is None and b[2] is None
                ob(eng, f"inject:slices-shape#path{j}", f, ok_a and ok_b, "stack[:target] and stack[target+1:]")
                if ok_a and ok_b:
                    ob(eng, f"inject:before-slice-ends-at-target#path{j}", f, eng.as_int(a[1]) == target, "the first slice is stack[:target]")
                    ob(eng, f"inject:after-slice-starts-past-target#path{j}", f, eng.as_int(b[0]) == target + 1, "the second slice is stack[target+1:]")


def loop_lines(repo, L):
    import ast
    mod, fn = repo.function("cli.main")
    out = set()
    for i, l in enumerate(repo.loops(fn)):
        if i in (L.get("before"), L.get("after")):
            for n in ast.walk(l):
                if hasattr(n, "lineno"):
                    out.add(n.lineno)
    return out


def check_paths(eng, c, f, entry, j, raised):
    """C10: the exit status of --check-safety is 0 iff was_safe, and the loop is never left early"""
    ns = the_namespace(f)
    if ns is None or raised is not None or f.ret is None:
        return
    cs = field(eng, f, ns, "check_safety")
    L = loops_of_main(eng.repo)
    if f"loop{L.get('check')}_index" in f.ghost:
        ob(eng, f"check:loop-not-left-early#path{j}", f, False, "no path returns or breaks out of the loop over the stacked pickles")
    ws = f.ghost.get("final_env", {}).get("was_safe")
    if ws is None:
        return
    ob(eng, f"check:exit-status-zero-iff-all-safe#path{j}", f, z3.Implies(eng.truth(cs, f), (eng.as_int(f.ret) == 0) == eng.truth(ws, f)),
       "exit status 0 iff every stacked pickle was LIKELY_SAFE (was_safe is the conjunction over the loop)")
