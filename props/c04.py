"""C04 — detection floor: dangerous imports and calls are never rated LIKELY_SAFE.

Layer B (this file): over the module a pickle decompiles to — abstracted by what ASTProperties collects from it (ghost functions of the
opcode sequence: imports_of / calls_of / non_setstate_calls_of / likely_safe_of) — the real analyses, AnalysisContext.analyze,
Analyzer.analyze, check_safety and AnalysisResults.severity are verified against the four floors of the statement, each with a rigid
ghost witness (an arbitrary index of the offending import / call).
Layer A is C03 (every import / call the VM would perform is anchored in the module body) and the trusted reading of ast.NodeVisitor
and ast.unparse; the composition over opcode choice / framing / memo use / disposal of the value is sampled by replay/floor_diff.py."""
import copy
import re
import os
import sys
import z3
sys.path.insert(0, os.path.dirname(os.path.dirname(os.path.abspath(__file__))))
from props.common import main, Run, run_child, load_known, witnesses_for, ALL_SIDECARS  # noqa: E402
from props.analyses import analysis_contracts, BASE_INV, CTX_FRAME  # noqa: E402
from pyvc.calls import Contract  # noqa: E402
from pyvc.sorts import V, Val, Int, Str, vbool, vint, box  # noqa: E402
from pyvc.state import clsid  # noqa: E402

SIDE = ALL_SIDECARS
DANGEROUS = ["os", "posix", "nt", "subprocess", "sys", "socket", "shutil", "urllib", "torch.hub", "dill", "code"]
BAD = ["eval", "exec", "compile", "open"]
P = "context.pickled"
# the four floors: (name, trigger over a Pickled expression %s, rank)
T_NS = "0 <= ghost_int('w_ns') and ghost_int('w_ns') < len(imports_of({p})) and not IS_STD(imports_of({p})[ghost_int('w_ns')].module)"
T_DG = ("0 <= ghost_int('w_dg') and ghost_int('w_dg') < len(imports_of({p})) and 0 <= ghost_int('w_dot') and "
        "ghost_int('w_dot') <= dot_count(imports_of({p})[ghost_int('w_dg')].module) and "
        "is_dangerous(dotted_prefix(imports_of({p})[ghost_int('w_dg')].module, ghost_int('w_dot')))")
T_BC = "0 <= ghost_int('w_bc') and ghost_int('w_bc') < len(calls_of({p})) and is_bad_call_text(SHORT(calls_of({p})[ghost_int('w_bc')]))"
T_UC = ("0 <= ghost_int('w_uc') and ghost_int('w_uc') < len(non_setstate_calls_of({p})) and "
        "not callee_likely_safe({p}, non_setstate_calls_of({p})[ghost_int('w_uc')])")
FLOORS = {"ns": (T_NS, 3, "analysis.NonStandardImports"), "dg": (T_DG, 4, "analysis.UnsafeImportsML"), "bc": (T_BC, 5, "analysis.BadCalls"),
          "uc": (T_UC, 3, "analysis.OvertlyBadEvals")}
SEVLINK = "forall('j', len({s}), 'doc_rank({s}[j].severity) == sev_of({s}[j])')"


def install_vocabulary(run):
    eng = run.eng
    SEV_OF = z3.Function("SEV_OF", Int, Int)       # rank of the severity an AnalysisResult object was constructed with (defined by its __init__)
    F = eng.spec_funcs

    def sev_of(e, st, r):
        return vint(SEV_OF(e.as_ref(r, st)))
    F["sev_of"] = sev_of
    eng.contracts["analysis.AnalysisResult.__init__"].defines.append("sev_of(self) == doc_rank(severity)")
    nones = {k: eng.rules.forall_pred(f"NONE_AT_LEAST_{k}", lambda x, k=k: SEV_OF(Val.r(x)) < k) for k in (3, 4, 5)}

    wit = {k: z3.Function(f"WITNESS_AT_LEAST_{k}", z3.SeqSort(Val), Int) for k in (3, 4, 5)}

    def has_rank(e, st, seq, k):
        """some element of the sequence of results was constructed with a severity of rank >= k.
        NONE_AT_LEAST_k(s) is defined as  forall j < |s|. SEV_OF(s[j]) < k ; its skolemised contrapositive names a witness index"""
        kk = z3.simplify(e.as_int(k)).as_long()
        s_ = e.as_seq(seq, st)
        w = wit[kk](s_)
        st.assume(z3.Implies(z3.Not(nones[kk](s_)), z3.And(w >= 0, w < z3.Length(s_), SEV_OF(Val.r(s_[w])) >= kk)))
        if all(not w.eq(x) for x in st.idx):
            st.idx.append(w)
        return vbool(z3.Not(nones[kk](s_)))
    F["has_rank"] = has_rank

    def is_bad_call_text(e, st, t):
        return vbool(z3.Or([z3.PrefixOf(z3.StringVal(b + "("), t.t) for b in BAD]))
    F["is_bad_call_text"] = is_bad_call_text

    def is_dangerous(e, st, m):
        return vbool(z3.Or([m.t == z3.StringVal(d) for d in DANGEROUS]))
    F["is_dangerous"] = is_dangerous

    def dot_count(e, st, m):
        if not hasattr(e, "_COUNT"):
            e._COUNT = z3.Function("STR_COUNT", Str, Str, Int)
        return vint(e._COUNT(m.t, z3.StringVal(".")))
    F["dot_count"] = dot_count

    def dotted_prefix(e, st, m, i):
        """m.rsplit('.', i)[0]: m with its last i dotted components removed (the meaning of str.rsplit is assumed)"""
        return V("str", Val.s(e.split_fn("RSPLIT")(m.t, z3.StringVal("."), e.as_int(i))[0]))
    F["dotted_prefix"] = dotted_prefix

    def callee_likely_safe(e, st, p, call):
        """the analysis' own exemption: the callee is a plain name that a standard-library import statement of the module binds"""
        r = e.as_ref(call, st)
        func = st.read("ast.func", r, Val)
        has_id = z3.Function("HASATTR_id", Val, z3.BoolSort())(func)
        ident = st.read("ast.id", Val.r(func), Val)
        ls = eng_props(e)["likely_safe"](eng_props(e)["interp"](st.items(e.spec_value("p._opcodes", st, {"p": p}).t)))
        return vbool(z3.And(has_id, z3.Select(ls, ident)))
    F["callee_likely_safe"] = callee_likely_safe

    def ctx_ok(e, st, ctx):
        """the context's de-duplication set and result list are not the collections of the cached properties (objects made by different constructors)"""
        rep = e.spec_value("c.reported_shortened_code", st, {"c": ctx})
        pr = e.spec_value("c.pickled._properties", st, {"c": ctx})
        ls = st.read("fickle.ASTProperties.likely_safe_imports", Val.r(pr.t), Val)
        prev = e.as_ref(e.spec_value("c.previous_results", st, {"c": ctx}), st)
        lists = [Val.r(st.read(f"fickle.ASTProperties.{f}", Val.r(pr.t), Val)) for f in ("imports", "calls", "non_setstate_calls")]
        return vbool(z3.Or(Val.is_N(pr.t), z3.And(Val.r(ls) != e.as_ref(rep, st), *[l != prev for l in lists])))
    F["ctx_ok"] = ctx_ok

    def likely_safe_set_is_not(e, st, ctx, x):
        pr = e.spec_value("c.pickled._properties", st, {"c": ctx})
        ls = st.read("fickle.ASTProperties.likely_safe_imports", Val.r(pr.t), Val)
        return vbool(z3.Or(Val.is_N(pr.t), Val.r(ls) != e.as_ref(x, st)))
    F["likely_safe_set_is_not"] = likely_safe_set_is_not

    def set_same(e, st, a, b):
        def has(x):
            return x.xs["set.has"] if x.k == "snap" else st.read("set.has", e.as_ref(x, st))
        return vbool(has(a) == has(b))
    F["set_same"] = set_same

    def type_is(e, st, x, name):
        return vbool(st.cls_of(e.as_ref(x, st)) == clsid(z3.simplify(name.t).as_string()))
    F["type_is"] = type_is

    def set_empty(e, st, s_):
        has = s_.xs["set.has"] if s_.k == "snap" else st.read("set.has", e.as_ref(s_, st))
        return vbool(has == z3.K(Val, z3.BoolVal(False)))
    F["set_empty"] = set_empty


def eng_props(e):
    return e.kit_props


def trig(key, p):
    return FLOORS[key][0].format(p=p)


def build(run: Run):
    eng = run.eng
    eng.kit_props = run.kit.props_of
    install_vocabulary(run)
    run.replayers.append(make_replayer(run))
    C = eng.contracts
    INVP = "inv_props({p})"
    # ---- strengthen the contracts on the chain (this run only): the cached properties are those of the cached tree ---------------------
    c = C["fickle.Pickled.properties"]
    c.requires = c.requires + ["inv_props(self)"]
    c.ensures = c.ensures + ["inv_props(self)", "props_ok(result)", "implies(old(self._properties) is not None, result is old(self._properties))",
                             "implies(old(self._properties) is None, fresh_since_entry(result.likely_safe_imports) and fresh_since_entry(result.imports) "
                             "and fresh_since_entry(result.calls) and fresh_since_entry(result.non_setstate_calls))"]
    c.ensures_raise = {"*": list(c.ensures_raise.get("*", [])) + ["inv_props(self)"]}
    for q in ("fickle.Pickled.non_standard_imports", "fickle.Pickled.unsafe_imports"):
        c = C[q]
        c.requires = c.requires + ["inv_props(self)"]
        c.ensures = c.ensures + ["inv_props(self)", "implies(old(self._properties) is not None, self._properties is old(self._properties))",
                                 "implies(old(self._properties) is None, fresh_since_entry(self._properties.likely_safe_imports) and "
                                 "fresh_since_entry(self._properties.imports) and fresh_since_entry(self._properties.calls) and "
                                 "fresh_since_entry(self._properties.non_setstate_calls))"]
        c.ensures_raise = {"*": list(c.ensures_raise.get("*", [])) + ["inv_props(self)"]}
        c.loops = {0: dict(invariant=["inv(self)", "inv_props(self)", "self._opcodes == old(self._opcodes)", "self._properties is not None",
                                       "self._ast is not None"], modifies=[], yields=True, allocates=False)}
    c = C["fickle.Pickled.non_standard_imports"]
    c.ensures = c.ensures + [f"implies({trig('ns', 'self')}, len(result) >= 1)"]
    c.loops[0]["invariant"] = c.loops[0]["invariant"] + ["implies(ghost_int('w_ns') < _i and " + trig("ns", "self") + ", len(yielded()) >= 1)"]
    pending = ["fickle.Pickled.properties", "fickle.Pickled.non_standard_imports"]
    # ---- the analyses --------------------------------------------------------------------------------------------------------------------
    base = C["analysis.Analysis.analyze"]
    base.requires = base.requires + [INVP.format(p=P), "ctx_ok(context)"]
    base.ensures = base.ensures + [INVP.format(p=P), "ctx_ok(context)", SEVLINK.format(s="result")]
    base.ensures_raise = {"*": list(base.ensures_raise.get("*", [])) + [INVP.format(p=P)]}
    common_inv = [INVP.format(p=P), "ctx_ok(context)", SEVLINK.format(s="yielded()")]
    extra_inv, extra_ens = {}, {}
    hit = {k: f"has_rank(yielded(), {FLOORS[k][1]})" for k in FLOORS}
    # exported clauses (what callers may assume): trigger at entry => a finding of at least the floor's rank is yielded
    extra_ens["analysis.NonStandardImports"] = [f"implies({trig('ns', P)} and set_empty(old(context.reported_shortened_code)), has_rank(result, 3))"]
    extra_ens["analysis.UnsafeImportsML"] = [f"implies({trig('dg', P)}, has_rank(result, 4))"]
    extra_ens["analysis.BadCalls"] = [f"implies({trig('bc', P)}, has_rank(result, 5))"]
    extra_ens["analysis.OvertlyBadEvals"] = [f"implies({trig('uc', P)}, has_rank(result, 3))"]
    # loop invariants of the verification variants (the trigger is a precondition there: it speaks about the entry state and rigid ghosts only)
    extra_inv[("analysis.NonStandardImports", 0)] = common_inv + [
        "implies(_i == 0, set_empty(context.reported_shortened_code))", f"implies(_i >= 1, {hit['ns']})"]
    extra_inv[("analysis.UnsafeImportsML", 0)] = common_inv + [f"implies(ghost_int('w_dg') < _i, {hit['dg']})"]
    extra_inv[("analysis.UnsafeImportsML", 1)] = common_inv + [
        f"implies(old({hit['dg']}), {hit['dg']})", f"implies(node is imports_of({P})[ghost_int('w_dg')] and ghost_int('w_dot') < _i, {hit['dg']})"]
    extra_inv[("analysis.UnsafeImportsML", 2)] = common_inv + [f"implies(old({hit['dg']}), {hit['dg']})"]
    extra_inv[("analysis.BadCalls", 0)] = common_inv + [f"implies(ghost_int('w_bc') < _i, {hit['bc']})"]
    extra_inv[("analysis.OvertlyBadEvals", 0)] = common_inv + ["likely_safe_set_is_not(context, reported_calls)",
                                                                # the analysis's own de-duplication set only ever grows together with a LIKELY_UNSAFE finding:
                                                                # a call skipped because its text is already there has an equal finding behind it
                                                                "set_empty(reported_calls) or has_rank(yielded(), 3)",
                                                                f"implies(ghost_int('w_uc') < _i, {hit['uc']})"]
    for cls in run.repo.live["analysis_all"]:
        for i in range(4):
            extra_inv.setdefault((cls, i), list(common_inv))
    keys = analysis_contracts(run, extra_inv=extra_inv, extra_ensures=extra_ens)
    verify_keys = []
    for k in keys:
        cc = C[k]
        cls = k[:-len(".analyze")]
        fk = next((f for f, (_, _, c_) in FLOORS.items() if c_ == cls), None)
        if cls in ("analysis.DuplicateProtoAnalysis", "analysis.MisplacedProtoAnalysis"):
            # they run before NonStandardImports: they must leave the de-duplication set (and everything but iterator positions) alone
            cc.modifies = ["@iterator.pos"]
            for sp in cc.loops.values():
                sp["modifies"] = ["@iterator.pos"] + [m for m in sp["modifies"] if m.endswith("[]") and not m.startswith(("context.", "self."))]   # + its own local sets
                sp["invariant"] = [x for x in sp["invariant"]]
        if fk is None:
            verify_keys.append(k)
            continue
        # verification variant: the floor's trigger (at entry) is a hypothesis; its conclusion is the un-guarded finding
        v = copy.copy(cc)
        v.qual = k + "#floor"
        v.variant_of = k
        v.requires = list(cc.requires) + [trig(fk, P)] + (["set_empty(context.reported_shortened_code)"] if fk == "ns" else [])
        v.ensures = [e for e in cc.ensures if not e.startswith("implies(0 <= ghost_int")] + [f"has_rank(result, {FLOORS[fk][1]})"]
        v.loops = copy.deepcopy(cc.loops)
        # the exported contract keeps only the base invariants (it is what C13 / C19 verify); the floor clause it exports is justified by the variant
        for i, sp in cc.loops.items():
            sp["invariant"] = [x for x in sp["invariant"] if "has_rank" not in x and "set_empty" not in x and "h0" not in x]
        C[v.qual] = v
        verify_keys.append(v.qual)
    only = os.environ.get("VERIF_ONLY")
    pending += [k for k in verify_keys if not (only and only not in k)]
    pending += chain(run, keys)
    # "outside the standard library" is judged on the module name as the pickle writes it: is_std_module against its definition (IS_STD)
    if not (only and only not in "fickle.is_std_module"):
        pending.append("fickle.is_std_module")
    run.verify_batch(pending)
    d = run_child(run.repo.root, "floor_diff.py", [str(run.seed)])
    if "error" in d:
        raise RuntimeError(f"replay/floor_diff.py failed: {d}")
    viol, hits = [], []
    known = [k for k in load_known().get("known", []) if k.get("property") == "C04"]
    for f in d.get("failures", []):
        f = dict(f)
        f["name"] = fd_name(f)
        k = next((k for k in known if re.search(k["obligation"], f["name"])), None)
        if k is not None:
            if k["what"] not in hits:
                hits.append(k["what"])
        elif not any(v["name"] == f["name"] for v in viol):
            viol.append(f)
    run.bounded_parts.append({"name": "floor_diff", "label": "bounded", "known_findings": hits,
                              "what": "replay/floor_diff.py: labelled vocabulary of globals x {GLOBAL, STACK_GLOBAL (plain / memoised operands), INST} x "
                                      "{REDUCE (3 forms), OBJ, NEWOBJ, NEWOBJ_EX, via memo, via DUP} x 6 disposals of the value x benign data before / "
                                      "after x framing: the verdict of check_safety against the floor of the label (composition of layers A and B)",
                              "bound": {k: v for k, v in d.items() if k != "failures"}, "violations": viol[:4]})
    run.assumptions += [
        "Layer A is C03: every import and call the VM would perform is anchored as an ImportFrom / Call statement of the decompiled module; "
        "that ASTProperties (ast.NodeVisitor) collects every such node of the module into imports / calls / non_setstate_calls, and "
        "likely_safe_imports holds exactly the names bound by ImportFrom nodes of standard-library modules, is the trusted model of NodeVisitor "
        "(contracts/pickled_inv.py: IMPORTS_OF, CALLS_OF, ...)",
        "ast.unparse of Call(func=Name(id=f), ...) starts with f + '(' (assumed of ast.unparse); 'would call eval/exec/compile/open' is read as: "
        "the shortened source of an anchored call starts with that name and an opening parenthesis",
        "str.rsplit('.', i)[0] for i = 0 .. count('.') enumerates the dotted prefixes of a module name (assumed of str.rsplit / str.count)",
        "each floor is proved for an arbitrary witness (rigid ghost index of the offending node): no bound on the number of imports / calls",
    ]


def chain(run, keys):
    """AnalysisContext.analyze -> Analyzer.analyze (default analyses, live order) -> check_safety -> AnalysisResults.severity"""
    eng, C = run.eng, run.eng.contracts
    live = run.repo.live
    order = live["default_analyses"]
    pos = {c: i for i, c in enumerate(order)}
    nsi = pos.get("analysis.NonStandardImports", -1)
    quiet_before = all(c in ("analysis.DuplicateProtoAnalysis", "analysis.MisplacedProtoAnalysis") for c in order[:max(nsi, 0)])
    run.syntactic("analysis.Analyzer.default_instance:order:nothing-registers-code-before-NonStandardImports", "lemma", nsi >= 0 and quiet_before,
                  f"default analyses (live import): {order}", where="analysis",
                  meta={"clause": "the analyses that run before NonStandardImports are ones verified to leave the de-duplication set untouched"})
    for k, (_, _, cls) in FLOORS.items():
        run.syntactic(f"analysis.Analyzer.default_instance:has:{cls}", "lemma", cls in pos, f"default analyses (live import): {order}", where="analysis",
                      meta={"clause": "the default analyzer runs the analysis that owns this floor"})
    ci = C["analysis.AnalysisContext.__init__"]
    ci.ensures = ci.ensures + ["set_empty(self.reported_shortened_code)", "self.previous_results is not self.pickled._properties.imports"
                               if False else "ctx_ok(self)"]
    ci.requires = ci.requires + ["inv_props(pickled)"]
    todo = ["analysis.AnalysisContext.__init__"]
    # ---- AnalysisContext.analyze ------------------------------------------------------------------------------------------------------
    PS = "self.pickled"
    c = C["analysis.AnalysisContext.analyze"]
    c.requires = c.requires + ["inv_props(self.pickled)", "ctx_ok(self)", SEVLINK.format(s="self.previous_results")]
    floors_ctx = []
    for k, (_, rank, cls) in FLOORS.items():
        short = cls.split(".")[-1]
        cond = f"isinstance(analysis, {short}) and " + trig(k, PS) + (" and set_empty(old(self.reported_shortened_code))" if k == "ns" else "")
        floors_ctx.append(f"implies({cond}, has_rank(result, {rank}))")
    c.ensures = c.ensures + ["inv_props(self.pickled)", "ctx_ok(self)", SEVLINK.format(s="self.previous_results"), SEVLINK.format(s="result"),
                             "implies(isinstance(analysis, (DuplicateProtoAnalysis, MisplacedProtoAnalysis)), "
                             "set_same(self.reported_shortened_code, old(self.reported_shortened_code)))"] + floors_ctx
    c.ensures_raise = {"*": list(c.ensures_raise.get("*", [])) + ["inv_props(self.pickled)"]}
    todo.append("analysis.AnalysisContext.analyze")
    # ---- Analyzer.analyze for the default analyses ----------------------------------------------------------------------------------------
    base = C["analysis.Analyzer.analyze"]
    v = copy.copy(base)
    v.qual = "analysis.Analyzer.analyze#floor"
    v.variant_of = "analysis.Analyzer.analyze"
    v.fn_override = ("analysis", None)
    shape = " and ".join([f"len(self.analyses) == {len(order)}"] +
                         [f"type_is(self.analyses[{i}], '{c_}')" for i, c_ in enumerate(order)])
    v.requires = list(base.requires) + ["inv_props(pickled)", shape]
    trig_p = {k: trig(k, "pickled") for k in FLOORS}
    v.ensures = list(base.ensures) + ["inv_props(pickled)", SEVLINK.format(s="result.results")] + \
        [f"implies({trig_p[k]}, has_rank(result.results, {FLOORS[k][1]}))" for k in FLOORS]
    inv = list(base.loops[0]["invariant"]) + ["inv_props(pickled)", "ctx_ok(context)", SEVLINK.format(s="context.previous_results"),
                                                f"implies(_i <= {nsi}, set_empty(context.reported_shortened_code))"]
    for k, (_, rank, cls) in FLOORS.items():
        inv.append(f"implies(_i > {pos[cls]} and {trig_p[k]}, has_rank(context.previous_results, {rank}))")
    v.loops = {0: dict(invariant=inv, modifies=list(base.loops[0]["modifies"]))}
    C[v.qual] = v
    todo.append(v.qual)
    # ---- check_safety with the default analyzer ------------------------------------------------------------------------------------------
    C["analysis.Analyzer.analyze"].requires = C["analysis.Analyzer.analyze"].requires + ["inv_props(pickled)"]
    exported = C["analysis.Analyzer.analyze"]
    exported.ensures = exported.ensures + ["inv_props(pickled)", SEVLINK.format(s="result.results")] + \
        [f"implies(old(({shape}) and {trig_p[k]}), has_rank(result.results, {FLOORS[k][1]}))" for k in FLOORS]
    cs = C["analysis.check_safety"]
    v2 = copy.copy(cs)
    v2.qual = "analysis.check_safety#floor"
    v2.variant_of = "analysis.check_safety"
    v2.fn_override = ("analysis", None)
    dshape = shape.replace("self.analyses", "Analyzer.default_instance.analyses")
    v2.requires = list(cs.requires) + ["inv_props(pickled)", "analyzer is None", dshape]
    v2.ensures = list(cs.ensures) + [SEVLINK.format(s="result.results")] + [f"implies({trig_p[k]}, has_rank(result.results, {FLOORS[k][1]}))" for k in FLOORS]
    C[v2.qual] = v2
    todo.append(v2.qual)
    run.syntactic("analysis.Analyzer.default_instance:shape:live", "lemma", True, f"{order}", where="analysis",
                  meta={"clause": "Analyzer.default_instance.analyses are instances of these classes in this order (read from the live import of the "
                                  "working tree; AnalyzerMeta.default_instance is a metaclass property outside the verified subset)"})
    # ---- the verdict: severity is the maximum finding --------------------------------------------------------------------------------------
    run.repo.add_virtual_module("lemmas_floor", "from fickling.analysis import check_safety, Analyzer\n\n\ndef verdict(pickled):\n    r = check_safety(pickled)\n    return r.severity\n")
    cs.ensures = v2.ensures
    cs.requires = v2.requires
    lem = Contract("lemmas_floor.verdict", params="pickled: fickle.Pickled", returns="analysis.Severity", requires=["inv(pickled)", "inv_props(pickled)", dshape],
                   may_raise=list(cs.may_raise), exact_raises=False, props=["no-frame"],
                   ensures=[f"implies({trig_p[k]}, doc_rank(result) >= {FLOORS[k][1]})" for k in FLOORS])
    C[lem.qual] = lem
    todo.append(lem.qual)
    return todo


def fd_name(f):
    """floor_diff:<label>[:<module> for the labels whose floor depends on a renaming table]"""
    lab = f["label"]
    return "floor_diff:" + lab + (":" + f["program"].split("/")[0].rsplit(".", 1)[0] if "py2" in lab else "")


def make_replayer(run):
    cache = {}

    def replay(o):
        if "d" not in cache:
            cache["d"] = run_child(run.repo.root, "floor_diff.py", [str(run.seed)])
        d = cache["d"]
        fl = witnesses_for("C04", o, d.get("failures", []), fd_name)
        if fl:
            f = fl[0]
            return {"reproduced": True, "failing_input_hex": f["bytes"], "program": f["program"], "label": f["label"], "verdict": f["verdict"],
                    "floor": f["floor"], "how": "labelled vocabulary x resolving opcode x calling opcode x disposal x framing (replay/floor_diff.py)"}
        return {"reproduced": False, "searched": {k: v for k, v in d.items() if k != "failures"}}
    return replay


if __name__ == "__main__":
    sys.exit(main("C04", build, sidecars=SIDE))
