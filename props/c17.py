"""C17 — format identification follows the documented table and is read-only; polyglot construction cleans up after itself."""
import ast as _ast
import os
import re
import sys
import z3
sys.path.insert(0, os.path.dirname(os.path.dirname(os.path.abspath(__file__))))
from props.common import main, Run, run_child, load_known, ALL_SIDECARS  # noqa: E402
from pyvc.calls import Contract  # noqa: E402
from pyvc.state import Obligation  # noqa: E402
from pyvc.sorts import Val, SeqV, box, vstr  # noqa: E402
from pyvc.effects import EffectSystem  # noqa: E402
from pyvc.models import EFFECTS  # noqa: E402

SIDE = ("externals", "polyglot")
ORDER = ["TorchScript v1.4", "TorchScript v1.3", "TorchScript v1.0", "TorchScript v1.1", "PyTorch v1.3", "PyTorch v0.1.1", "PyTorch v0.1.10",
         "PyTorch model archive format"]


def table_post(eng, c, f, entry, j, raised):
    """per path of identify_pytorch_file_format: membership of each format == its documented condition; order == documented precedence"""
    if raised is not None or f.ret is None:
        return
    props_calls = [e for e in f.log if e[0] == "call" and e[1] == "polyglot.find_file_properties"]
    if len(props_calls) != 1:
        eng.obligations.append(Obligation(f"{c.qual}:post:one-property-scan#path{j}", "post", f.hyps(), z3.BoolVal(False), where=c.qual,
                                          meta={"clause": "the file's properties are collected exactly once", "trail": f.trail}))
        return
    d = props_calls[0][3]
    P = eng.spec_funcs["prop"]

    def p(name):
        return P(eng, f, d, vstr(name)).t
    legacy = [e for e in f.log if e[0] == "call" and e[1] == "polyglot.check_if_legacy_format"]
    mar = [e for e in f.log if e[0] == "call" and e[1] == "polyglot.check_if_model_archive_format"]
    t_legacy = eng.truth(legacy[0][3], f) if legacy else z3.BoolVal(False)
    t_mar = eng.truth(mar[0][3], f) if mar else z3.BoolVal(False)
    tz = p("is_torch_zip")
    cond = {"TorchScript v1.4": z3.And(tz, p("has_data_pkl"), p("has_constants_pkl"), p("has_version")),
            "TorchScript v1.3": z3.And(tz, p("has_data_pkl"), p("has_constants_pkl")),
            "TorchScript v1.0": z3.And(tz, p("has_model_json")),
            "TorchScript v1.1": z3.And(tz, p("has_model_json"), p("has_attributes_pkl")),
            "PyTorch v1.3": z3.And(tz, p("has_data_pkl")),
            "PyTorch v0.1.1": z3.And(p("is_tar"), t_legacy),
            "PyTorch v0.1.10": p("is_valid_pickle"),
            "PyTorch model archive format": z3.And(p("is_standard_zip"), t_mar)}
    res = eng.as_seq(f.ret, f)
    shape = list_shape(res)
    if shape is not None:
        # the returned list is, syntactically, a concatenation of [name] / ([name] if c else []) pieces: membership and order are read off it
        mem = {n: z3.Or([c_ for nm, c_ in shape if nm == n] or [z3.BoolVal(False)]) for n in ORDER}
        names = [nm for nm, _ in shape]
        in_order = [nm for nm in names if nm in ORDER]
        ok_order = names == in_order and in_order == sorted(set(in_order), key=ORDER.index)
        for n in ORDER:
            eng.obligations.append(Obligation(f"{c.qual}:post:reports[{n}]-iff-documented#path{j}", "post", f.hyps(), mem[n] == cond[n], where=c.qual,
                                              meta={"clause": f"'{n}' is reported exactly when the documented condition holds", "trail": f.trail}))
        eng.obligations.append(Obligation(f"{c.qual}:post:documented-precedence#path{j}", "post", f.hyps(), z3.BoolVal(ok_order), where=c.qual,
                                          meta={"clause": "formats are listed at most once each, in the documented order of precedence", "got": str(names), "trail": f.trail}))
        return
    mem = {n: z3.Contains(res, z3.Unit(Val.S(z3.StringVal(n)))) for n in ORDER}
    for n in ORDER:
        eng.obligations.append(Obligation(f"{c.qual}:post:reports[{n}]-iff-documented#path{j}", "post", f.hyps(), mem[n] == cond[n], where=c.qual,
                                          meta={"clause": f"'{n}' is reported exactly when the documented condition holds", "trail": f.trail}))
    canon = z3.Concat(*[z3.If(mem[n], z3.Unit(Val.S(z3.StringVal(n))), z3.Empty(SeqV)) for n in ORDER])
    eng.obligations.append(Obligation(f"{c.qual}:post:documented-precedence#path{j}", "post", f.hyps(), res == canon, where=c.qual,
                                      meta={"clause": "formats are listed once each, in the documented order of precedence", "trail": f.trail}))
    # a legacy / archive sub-check is consulted only for the container kind it is about (and at most once)
    eng.obligations.append(Obligation(f"{c.qual}:post:sub-checks-once#path{j}", "post", f.hyps(), z3.BoolVal(len(legacy) <= 1 and len(mar) <= 1), where=c.qual,
                                      meta={"clause": "each sub-check runs at most once", "trail": f.trail}))


def list_shape(t):
    """[(name, condition)] when t is a concatenation of Unit(S(name)) and If(c, Unit(S(name)), Empty) pieces, else None"""
    if z3.is_app(t) and t.decl().kind() == z3.Z3_OP_SEQ_CONCAT:
        out = []
        for ch in t.children():
            r = list_shape(ch)
            if r is None:
                return None
            out += r
        return out
    if z3.is_app(t) and t.decl().kind() == z3.Z3_OP_SEQ_EMPTY:
        return []
    if z3.is_app(t) and t.decl().kind() == z3.Z3_OP_SEQ_UNIT:
        x = t.arg(0)
        if z3.is_app(x) and x.decl().name() == "S" and z3.is_string_value(x.arg(0)):
            return [(x.arg(0).as_string(), z3.BoolVal(True))]
        return None
    if z3.is_app(t) and t.decl().kind() == z3.Z3_OP_ITE:
        a, b = list_shape(t.arg(1)), list_shape(t.arg(2))
        if a is None or b is None:
            return None
        return [(n, z3.And(t.arg(0), c_)) for n, c_ in a] + [(n, z3.And(z3.Not(t.arg(0)), c_)) for n, c_ in b]
    return None


def build(run: Run):
    eng = run.eng
    known = [k for k in load_known().get("known", []) if k.get("property") == "C17"]
    cache = {}

    def poly(run_=run):
        if "d" not in cache:
            cache["d"] = run_child(run.repo.root, "poly_diff.py", [str(run.seed)], timeout=1200)
        return cache["d"]

    def name_of(f):
        return f"poly_diff:{f['face']}:{f.get('format') or f.get('kind') or ''}"

    def replay(o):
        d = poly()
        face = "table" if "identify_pytorch_file_format" in o.name else ("polyglot" if "create_" in o.name or "append_file" in o.name else None)
        fl = [f for f in d.get("failures", []) if (face is None or f["face"] == face or (face == "table" and f["face"] == "readonly"))
              and not any(re.search(k["obligation"], name_of(f)) for k in known)]
        if fl:
            return {"reproduced": True, "failing_case": fl[0], "how": "synthetic zips for all 32 marker subsets, real torch files, all ordered pairs as polyglot inputs (replay/poly_diff.py)"}
        return {"reproduced": False, "searched": {k: v for k, v in d.items() if k != "failures"}}
    run.replayers.append(replay)
    # ---- (a) the decision table ----------------------------------------------------------------------------------------------------------
    c = Contract("polyglot.identify_pytorch_file_format", params="file: val, print_properties: val = False, print_results: val = False",
                 returns="list[str]", may_raise=["OSError", "Exception"], exact_raises=False, props=["no-frame"], ensures=[])
    eng.contracts[c.qual] = c
    run.verify(c.qual, extra_post=table_post)
    run.verify("polyglot.check_for_corruption") if "polyglot.check_for_corruption" in eng.contracts else None
    # ---- (b) read-only: effects clauses of identification and everything it calls -----------------------------------------------------------
    rows = dict(EFFECTS)
    rows.update({"open[read,caller-path]": ("fs-open-read(caller-path)",), "open[write,caller-path]": ("fs-open-write(caller-path)",),
                 "open[read,computed-path]": ("fs-open-read(computed-path)",), "open[write,computed-path]": ("fs-open-write(computed-path)",),
                 "zipfile.is_zipfile": ("fs-read(file)",), "tarfile.is_tarfile": ("fs-read(file)",), "tarfile.open": ("fs-open-tar",),
                 "torch.serialization._is_zipfile": ("fs-read(file)",), "zipfile.ZipFile": ("fs-open-zip",), "zipfile.ZipFile.namelist": (),
                 "numpy.lib.format.read_magic": ("read(arg)",), "numpy.lib.format.descr_to_dtype": (), "numpy.lib.format._header_size_info.get": (),
                 "struct.calcsize": (), "struct.unpack": (), "ast.literal_eval": (), "getattr[literal-name]": (), "hasattr[literal-name]": ()})
    es = EffectSystem(run.repo, rows, ("ast.", "typing.", "enum.", "abc.", "collections."), {"shutil.": ("fs-write",), "os.remove": ("fs-delete",), "tempfile.": ("fs-write",)},
                      extra_methods={"namelist": (), "getnames": (), "extractfile": ("read(arg)",), "next": (), "getmembers": (),
                                     # Pickled has no method `opcodes` in this tree: the call raises AttributeError (caught by check_pickle): no effect
                                     "opcodes": ()})
    seen, sites = es.closure(["polyglot.identify_pytorch_file_format"])
    READ_ONLY = {"stdout", "stderr", "read(arg)", "seek(arg)", "close(arg)", "fs-read(file)", "fs-open-read(caller-path)", "fs-open-tar", "fs-open-zip",
                 "fs-read(package-data)", "import(static)",
                 # a codec looked up under a computed name (check_numpy decodes the header with the codec numpy's version table names): an
                 # import of an encodings module, which writes nothing — C01's concern where the name comes from the input, not this clause's
                 "import(computed-codec)"}
    for q in sorted(seen):
        if not q.startswith("polyglot."):
            continue            # Pickled.load / StackedPickle.load and below: C01's closure
        own, callees = es.own(q)
        fn = run.repo.qual[q]
        for s_ in own:
            for e in s_.effects:
                ok = e in READ_ONLY
                weak = e in ("unknown-external", "unknown-method", "dynamic-call")
                run.syntactic(f"{q}:effect:{s_.name}@{s_.line}:{e}", "effect", ok, "read-only" if ok else f"effect `{e}` is not read-only", where=f"{q}:{s_.line}",
                              meta={"clause": "identification only reads: no write, delete, temp file", "weak": weak})
        # containers are opened for reading: tarfile.open(mode="r:..."), zipfile.ZipFile(path, "r")
        for n in _ast.walk(fn):
            if isinstance(n, _ast.Call) and _ast.unparse(n.func) in ("zipfile.ZipFile", "tarfile.open", "tarfile.TarFile"):
                mode = None
                if len(n.args) > 1 and isinstance(n.args[1], _ast.Constant):
                    mode = n.args[1].value
                for k in n.keywords:
                    if k.arg == "mode" and isinstance(k.value, _ast.Constant):
                        mode = k.value.value
                ok = mode is None or str(mode).startswith("r")
                run.syntactic(f"{q}:effect:container-opened-read-only@{n.lineno}", "effect", ok, f"mode {mode!r}", where=f"{q}:{n.lineno}",
                              meta={"clause": "archives are opened in a read mode"})
        run.extra_functions.append({"function": q, "body_sha": run.repo.body_hash(fn), "paths": 0, "normal_exit_paths": 0, "raising_paths": 0,
                                    "obligations": max(1, len(own)), "requires": [], "ensures": ["effects ⊆ read-only ∪ effects(callees)"], "raises": {},
                                    "modifies": [], "callees": callees})
    run.assumptions += [
        "the documented table is the README's / module docstring's list of formats; the documented precedence is the order in which "
        "identify_pytorch_file_format lists them ('the order of this identification is intentional'); has_X is what find_file_properties reports "
        "(member name contains X), the sub-checks (legacy tar members, model-archive suffixes) are under trusted contracts",
        "'any file PyTorch's own zip loader accepts is at least PyTorch v1.3': torch.load's zip reader requires a */data.pkl record and a zip at "
        "offset 0 (assumed of torch), which make is_torch_zip and has_data_pkl true; then the proved table lists 'PyTorch v1.3' (bounded "
        "cross-check against real torch.save / torch.jit.save files in replay/poly_diff.py)",
        "determinism: the result is a function of the twelve properties and two sub-check results (table obligations); those are functions of "
        "the file's bytes (trusted externals)",
        "polyglot hygiene (inputs unmodified, nothing left behind on any exit, the output identified as each combined format) depends on the "
        "file system and on zip / tar container semantics: bounded companion replay/poly_diff.py; the cleanup structure is checked "
        "syntactically (working copies created inside try, removed in finally)",
    ]
    hygiene(run)
    d = poly()
    if "error" in d:
        raise RuntimeError(f"replay/poly_diff.py failed: {d}")
    viol, hits = [], []
    for f in d.get("failures", []):
        f = dict(f)
        f["name"] = name_of(f)
        k = next((k for k in known if re.search(k["obligation"], f["name"])), None)
        if k is not None:
            if k["what"] not in hits:
                hits.append(k["what"])
        elif not any(v["name"] == f["name"] for v in viol):
            viol.append(f)
    run.bounded_parts.append({"name": "poly_diff", "label": "bounded",
                              "what": "replay/poly_diff.py: zips for all 32 subsets of the five markers x root / one directory deep x trailing pickle, "
                                      "leading junk, real torch.save / legacy / torch.jit.save / MAR / legacy tar files; identification against the "
                                      "documented table, files and directory unchanged; all ordered pairs as polyglot inputs: inputs unchanged, "
                                      "nothing left behind, the polyglot identified as each combined format",
                              "bound": {k: v for k, v in d.items() if k != "failures"}, "known_findings": hits, "violations": viol[:4]})


def hygiene(run):
    """create_polyglot / create_standard_torchscript_polyglot: every working file is created inside a try whose finally removes it"""
    for q, made, removed in (("polyglot.create_polyglot", ("temp_first_file", "temp_second_file"), "os.remove"),
                             ("polyglot.create_standard_torchscript_polyglot", ("'temp'",), "shutil.rmtree")):
        if q not in run.repo.qual:
            run.syntactic(f"{q}:exists", "frame", False, "function not found", where=q, meta={"clause": "polyglot builder", "weak": True})
            continue
        fn = run.repo.qual[q]
        tries = [n for n in _ast.walk(fn) if isinstance(n, _ast.Try) and n.finalbody]
        creators = []
        for n in _ast.walk(fn):
            if isinstance(n, _ast.Call):
                src = _ast.unparse(n)
                if any(m in src for m in made) and re.match(r"(shutil\.copy|os\.link|_stage_input_file|.*\.extract)\(", src):
                    creators.append(n)
        for cnode in creators:
            inside = any(any(cnode is x for x in _ast.walk(_ast.Module(body=t.body, type_ignores=[]))) for t in tries)
            run.syntactic(f"{q}:hygiene:created-inside-try@{cnode.lineno}", "frame", inside, _ast.unparse(cnode)[:80], where=f"{q}:{cnode.lineno}",
                          meta={"clause": "a working copy is created only where a finally clause will remove it"})
        fin_src = " ".join(_ast.unparse(s) for t in tries for s in t.finalbody)
        run.syntactic(f"{q}:hygiene:finally-removes-working-files", "frame", bool(tries) and removed in fin_src and all(m in fin_src for m in made),
                      fin_src[:160], where=q, meta={"clause": "the finally clause removes every working file / directory on every exit"})
        run.syntactic(f"{q}:hygiene:creators-found", "frame", len(creators) >= len(made), f"{len(creators)} creating call(s)", where=q,
                      meta={"clause": "the working copies are made by recognisable calls (else this scan does not apply)", "weak": True})
    # inputs are never opened for writing: append_file's destination is a working copy
    if "polyglot.create_polyglot" in run.repo.qual:
        fn = run.repo.qual["polyglot.create_polyglot"]
        src = _ast.unparse(fn)
        bad = [m.group(0) for m in re.finditer(r"(os\.link|os\.symlink)\(", src)]
        run.syntactic("polyglot.create_polyglot:hygiene:working-copies-are-copies", "frame", not bad and "shutil.copy(first_file, temp_first_file)" in src
                      and "shutil.copy(second_file, temp_second_file)" in src, str(bad) or "shutil.copy", where="polyglot.create_polyglot",
                      meta={"clause": "the builders append to / rewrite working *copies* (shutil.copy), never links to the caller's files", "weak": True})


if __name__ == "__main__":
    sys.exit(main("C17", build, sidecars=SIDE, with_torch=True))
