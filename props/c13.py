"""C13 — answers depend only on the bytes: deterministic, repeatable, no observer effect."""
import ast as _ast
import os
import sys
import z3
sys.path.insert(0, os.path.dirname(os.path.dirname(os.path.abspath(__file__))))
from props.common import main, Run, run_child, ALL_SIDECARS  # noqa: E402
from props.opcodes import opcode_contracts, frame_contracts  # noqa: E402
from props.analyses import analysis_contracts  # noqa: E402
from props.c09 import STATE_FNS, RUNTIME_FNS, trace_back_edge, trace_exit  # noqa: E402
from pyvc.state import Obligation  # noqa: E402
from pyvc.sorts import Val  # noqa: E402

SIDE = ALL_SIDECARS
LISTY = {"elts", "keys", "values", "args", "keywords", "names", "targets", "body"}


def install_type_hooks(run):
    """(b) AST fields hold real, re-readable containers; ast.Constant holds a Python constant (its repr must not depend on an address)"""
    eng = run.eng

    def on_ast_field(st, cls, field, v, node):
        name = f"{eng.cur_fn}:type:{cls[4:]}.{field}@{getattr(node, 'lineno', 0)}"
        if field in LISTY:
            ok = v.k in ("tuple", "seq", "const") or (v.k == "ref" and v.cls in ("list", "tuple"))
            why = f"{cls}.{field} receives {v.k}{':' + str(v.cls) if v.cls else ''}"
            if v.k == "val":
                # a value of unknown class (e.g. a node popped from the stack) where a list of nodes is required
                ok = False
            eng.obligations.append(Obligation(name, "type", st.hyps(), z3.BoolVal(ok), where=eng.where(node),
                                              meta={"clause": "fields that consumers iterate hold a list/tuple, not a one-shot iterator or a bare node", "got": why}))
        elif cls == "ast.Constant" and field == "value":
            if v.k in ("int", "bool", "str", "bytes", "float", "none", "tuple"):
                return
            if v.k == "val":
                goal = z3.Not(Val.is_R(v.t))
            else:
                goal = z3.BoolVal(False)
            eng.obligations.append(Obligation(name, "type", st.hyps(), goal, where=eng.where(node),
                                              meta={"clause": "ast.Constant.value is a Python constant (number, string, bytes, bool, None), never an object "
                                                              "whose repr carries an address", "got": repr(v)[:60]}))
    eng.on_ast_field = on_ast_field


def scans(run):
    """(c) and the cross-process clause: nothing address- or hash-order-dependent flows into the observables"""
    for m, tree in run.repo.trees.items():
        if m in getattr(run.repo, "virtual", set()) or m in ("cli",):
            continue
        for n in _ast.walk(tree):
            if isinstance(n, _ast.Call) and isinstance(n.func, _ast.Name) and n.func.id in ("id", "hash"):
                run.syntactic(f"{m}:{n.lineno}:determinism:no-{n.func.id}", "type", False, _ast.unparse(n)[:80], where=f"{m}.py:{n.lineno}",
                              meta={"clause": "no id()/hash() value reaches an output"})
    # iteration over sets: allowed only where what is produced is consumed as a set / by key
    mod, fn = run.repo.function("fickle.Interpreter.unused_assignments")
    src = _ast.unparse(fn)
    setiters = [n for n in _ast.walk(fn) if isinstance(n, (_ast.DictComp, _ast.SetComp, _ast.ListComp, _ast.For)) and
                "defined - used" in _ast.unparse(n.generators[0].iter if not isinstance(n, _ast.For) else n.iter)]
    for n in setiters:
        ok = isinstance(n, _ast.DictComp)       # a dict keyed by the element: its *content* does not depend on the iteration order
        run.syntactic(f"fickle.Interpreter.unused_assignments:order:set-iteration@{n.lineno}", "type", ok, _ast.unparse(n)[:100],
                      where="fickle.Interpreter.unused_assignments", meta={"clause": "iteration over a set only builds a mapping keyed by the element"})
    run.syntactic("fickle.Interpreter.unused_assignments:order:set-iterations-counted", "type", len(setiters) == 1, f"{len(setiters)} iteration(s) over `defined - used`",
                  where="fickle.Interpreter.unused_assignments", meta={"clause": "the one known set iteration is the dict comprehension"})
    run.informational.append("the *order* of UnusedVariables findings (and so of result strings and of detailed_results' last-wins trigger) follows the hash "
                             "order of variable names; the statement's observables (decompiled source, verdict, *set* of findings) do not depend on it")


def make_replayer(run):
    cache = {}

    def replay(o):
        if "d" not in cache:
            cache["d"] = run_child(run.repo.root, "determinism_diff.py", ["--two-process"])
        d = cache["d"]
        if d.get("n_failures"):
            parts = o.name.split(".")
            cls = "fickle." + parts[1] if len(parts) > 1 else ""
            names = [n.lower() for n, c in run.repo.live["OPCODES_BY_NAME"].items() if c == cls]
            mine = [f for f in d["failures"] if names and names[0] in f["program"]] or (d["failures"] if not names else [])
            if mine:
                f = mine[0]
                return {"reproduced": True, "failing_input_hex": f["bytes"], "program": f["program"], "when": f["when"], "differs": f["differs"],
                        "first": f["first"], "then": f["then"], "how": "same pickle asked twice / in another order / re-parsed / in a second process with another hash seed"}
        return {"reproduced": False, "searched": {k: v for k, v in d.items() if k != "failures"}}
    return replay


def build(run: Run):
    eng = run.eng
    run.replayers.append(make_replayer(run))
    scans(run)
    # (a) frames of the read-only queries
    run.verify("fickle.Pickled.ast", "fickle.Pickled.properties", "fickle.Pickled.has_import", "fickle.Pickled.has_call",
               "fickle.Pickled.has_non_setstate_call", "fickle.Pickled.dumps", "fickle.Pickled.non_standard_imports", "fickle.Pickled.unsafe_imports",
               "fickle.Interpreter.interpret", "fickle.Interpreter.to_ast", "fickle.Interpreter.run", "fickle.Interpreter.step",
               "fickle.Interpreter.__init__", "fickle.ASTProperties.__init__",
               "analysis.AnalysisContext.__init__", "analysis.AnalysisContext.analyze", "analysis.AnalysisContext.results",
               "analysis.AnalysisContext.shorten_code", "analysis.Analyzer.analyze", "analysis.check_safety",
               "analysis.AnalysisResults.__init__", "analysis.AnalysisResults.severity", "analysis.AnalysisResults.to_dict",
               "analysis.AnalysisResults.detailed_results")
    for k in analysis_contracts(run):
        run.verify(k)
    run.verify(*[f for f in RUNTIME_FNS if f.startswith("tracing.")])
    eng.back_edge_hook = trace_back_edge
    run.verify("tracing.Trace.run", extra_post=trace_exit)
    eng.back_edge_hook = None
    # every opcode run against the generic frame: it writes the interpreter's own state and node-owned lists only — never the Pickled, its
    # opcode objects, or anything an earlier answer was computed from
    for key in frame_contracts(run):
        run.verify(key)
    # (b) type obligations on every AST construction, under the shape contracts (well-formed interpreter state)
    install_type_hooks(run)
    for cls, key in opcode_contracts(run):
        run.verify(key)
    run.assumptions += [
        "history quantifier: each query is a function of the opcode sequence plus a frame that excludes the opcode list, the opcode objects and "
        "every already-built AST (except line numbers and in-place list growth during the *same* interpretation); hence any order/repetition of "
        "queries gives the same answers (argument from the frame obligations; the class invariant is C14)",
        "cross-process clause is argued from: no id()/hash() in outputs, ast.Constant holds Python constants only, set iteration only keys a dict; "
        "observation in a second process with another PYTHONHASHSEED is the bounded companion (replay/determinism_diff.py, thorough tier)",
        "Interpreter.unused_assignments is under a trusted contract (ast.walk / set algebra)",
    ]


if __name__ == "__main__":
    sys.exit(main("C13", build, sidecars=SIDE))
