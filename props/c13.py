"""C13 — answers depend only on the bytes: deterministic, repeatable, no observer effect."""
import ast as _ast
import os
import sys
import z3
sys.path.insert(0, os.path.dirname(os.path.dirname(os.path.abspath(__file__))))
from props.common import witnesses_for, failure_name, main, Run, run_child, ALL_SIDECARS, bounded_companion  # noqa: E402
from props.opcodes import opcode_contracts, frame_contracts  # noqa: E402
from props.analyses import analysis_contracts  # noqa: E402
from props.c09 import STATE_FNS, RUNTIME_FNS, trace_back_edge, trace_exit  # noqa: E402
from pyvc.state import Obligation  # noqa: E402
from pyvc.sorts import Val  # noqa: E402

SIDE = ALL_SIDECARS
LISTY = {"elts", "keys", "values", "args", "keywords", "names", "targets", "body"}


def install_type_hooks(run):
    """(b) AST fields hold real, re-readable containers; ast.Constant holds a Python constant (its repr must not depend on an address)"""
    eng = run.eng

    def on_ast_field(st, cls, field, v, node):
        name = f"{eng.cur_fn}:type:{cls[4:]}.{field}@{getattr(node, 'lineno', 0)}"
        if field in LISTY:
            ok = v.k in ("tuple", "seq", "const") or (v.k == "ref" and v.cls in ("list", "tuple"))
            why = f"{cls}.{field} receives {v.k}{':' + str(v.cls) if v.cls else ''}"
            if v.k == "val":
                # a value of unknown class (e.g. a node popped from the stack) where a list of nodes is required
                ok = False
            eng.obligations.append(Obligation(name, "type", st.hyps(), z3.BoolVal(ok), where=eng.where(node),
                                              meta={"clause": "fields that consumers iterate hold a list/tuple, not a one-shot iterator or a bare node", "got": why}))
        elif cls == "ast.Constant" and field == "value":
            if v.k in ("int", "bool", "str", "bytes", "float", "none", "tuple"):
                return
            if v.k == "val":
                goal = z3.Not(Val.is_R(v.t))
            else:
                goal = z3.BoolVal(False)
            eng.obligations.append(Obligation(name, "type", st.hyps(), goal, where=eng.where(node),
                                              meta={"clause": "ast.Constant.value is a Python constant (number, string, bytes, bool, None), never an object "
                                                              "whose repr carries an address", "got": repr(v)[:60]}))
    eng.on_ast_field = on_ast_field


def scans(run):
    """(c) and the cross-process clause: nothing address- or hash-order-dependent flows into the observables"""
    for m, tree in run.repo.trees.items():
        if m in getattr(run.repo, "virtual", set()) or m in ("cli",):
            continue
        for n in _ast.walk(tree):
            if isinstance(n, _ast.Call) and isinstance(n.func, _ast.Name) and n.func.id in ("id", "hash"):
                run.syntactic(f"{m}:{n.lineno}:determinism:no-{n.func.id}", "type", False, _ast.unparse(n)[:80], where=f"{m}.py:{n.lineno}",
                              meta={"clause": "no id()/hash() value reaches an output"})
    # state that outlives a call or an object: the answers are functions of the bytes alone only if nothing in the queries' code keeps any
    from props import statescan
    mods = ("fickle", "analysis", "tracing")
    quals = [q for q in run.repo.qual if q.split(".")[0] in mods]
    n_sites = 0
    for q, line, kind, text in statescan.sites(run.repo, quals):
        n_sites += 1
        registration = q.endswith(".__init_subclass__") and kind in ("module-object-mutation", "class-attribute-write", "class-object-mutation")
        singleton = q == "analysis.AnalyzerMeta.default_instance" and kind == "class-attribute-write" and "_DEFAULT_INSTANCE" in text
        ok = registration or singleton
        why = ("runs when a class is defined (import time), not when a pickle is queried" if registration else
               "the default Analyzer is created once; an Analyzer holds its tuple of analyses and nothing else (its fields are checked below)" if singleton else
               f"{kind}: state kept across calls — an answer may then depend on what was asked before")
        run.syntactic(f"{q}:state:{kind}@{line}", "frame", ok, f"{text} — {why}", where=f"{q}:{line}",
                      meta={"clause": "no state outlives a query: no global re-binding, no mutation of module / class level objects, no memoisation", "weak": not ok})
    run.syntactic("determinism:state-scan-completed", "frame", True, f"{len(quals)} functions of {mods} scanned, {n_sites} site(s)", where="fickle, analysis, tracing",
                  meta={"clause": "scan completed"})
    # the singleton Analyzer must stay stateless: fields assigned in Analyzer / Analysis subclasses' __init__ are the analyses tuple only
    for cq, cdef in run.repo.classes_src.items():
        if cq.split(".")[0] != "analysis":
            continue
        is_analysis = cq == "analysis.Analyzer" or any(b in ("analysis.Analysis",) for b in run.repo.cls(cq)["mro"][1:]) if run.repo.has_class(cq) else False
        if not is_analysis:
            continue
        for fn in [n for n in cdef.body if isinstance(n, _ast.FunctionDef)]:
            for n in _ast.walk(fn):
                if isinstance(n, (_ast.Assign, _ast.AnnAssign, _ast.AugAssign)):
                    for t in (n.targets if isinstance(n, _ast.Assign) else [n.target]):
                        if isinstance(t, _ast.Attribute) and isinstance(t.value, _ast.Name) and t.value.id == "self":
                            ok = (cq, t.attr) in (("analysis.Analyzer", "analyses"),)
                            run.syntactic(f"{cq}.{fn.name}:state:field-{t.attr}@{n.lineno}", "frame", ok, _ast.unparse(n)[:90], where=f"{cq}.{fn.name}:{n.lineno}",
                                          meta={"clause": "the process-wide default Analyzer and the registered analyses (Analysis.ALL instances) hold no per-query state",
                                                "weak": not ok})
    # where an opcode sat in its stream (Opcode.pos) is not part of the pickle's bytes: only the parser (and repr) may look at it
    pos_readers_allowed = ("fickle.Opcode.__init__", "fickle.Opcode.__repr__", "fickle.Pickled.load", "fickle.StackedPickle.load")
    for q, fn in run.repo.qual.items():
        if q.split(".")[0] not in ("fickle", "analysis", "tracing", "loader", "cli"):
            continue
        for n in _ast.walk(fn):
            if isinstance(n, _ast.Attribute) and n.attr in ("pos", "position") and isinstance(n.ctx, _ast.Load):
                ok = any(q == a or q.startswith(a + ".") for a in pos_readers_allowed)
                run.syntactic(f"{q}:determinism:reads-stream-offset@{n.lineno}", "frame", ok, _ast.unparse(n)[:60] +
                              (" (parser / repr)" if ok else " — the offset differs between a pickle read at the start of a stream, inside a stack, or re-parsed from its own bytes"),
                              where=f"{q}:{n.lineno}", meta={"clause": "no query reads the stream offset of an opcode", "weak": not ok})
    # iteration over sets: allowed only where what is produced is consumed as a set / by key
    mod, fn = run.repo.function("fickle.Interpreter.unused_assignments")
    src = _ast.unparse(fn)
    setiters = [n for n in _ast.walk(fn) if isinstance(n, (_ast.DictComp, _ast.SetComp, _ast.ListComp, _ast.For)) and
                "defined - used" in _ast.unparse(n.generators[0].iter if not isinstance(n, _ast.For) else n.iter)]
    for n in setiters:
        ok = isinstance(n, _ast.DictComp)       # a dict keyed by the element: its *content* does not depend on the iteration order
        run.syntactic(f"fickle.Interpreter.unused_assignments:order:set-iteration@{n.lineno}", "type", ok, _ast.unparse(n)[:100],
                      where="fickle.Interpreter.unused_assignments", meta={"clause": "iteration over a set only builds a mapping keyed by the element"})
    run.syntactic("fickle.Interpreter.unused_assignments:order:set-iterations-counted", "type", len(setiters) == 1, f"{len(setiters)} iteration(s) over `defined - used`",
                  where="fickle.Interpreter.unused_assignments", meta={"clause": "the one known set iteration is the dict comprehension"})
    # consumers of that hash-ordered mapping must be order-insensitive in *what* they produce: an iteration may not read state that an
    # earlier iteration wrote (no loop-carried dependence), except through context.shorten_code whose 'already reported' flag must be unused
    for cls in run.repo.live["analysis_all"]:
        mod2, fn2 = run.repo.function(cls + ".analyze")
        for loop in [n for n in _ast.walk(fn2) if isinstance(n, _ast.For) and "unused_assignments" in _ast.unparse(n.iter)]:
            outer = {n.id for n in _ast.walk(fn2) if isinstance(n, _ast.Name) and isinstance(n.ctx, _ast.Store)} - \
                {n.id for n in _ast.walk(loop.target) if isinstance(n, _ast.Name)}
            mutated, assigned_in_body = set(), set()
            for n in _ast.walk(_ast.Module(body=loop.body, type_ignores=[])):
                if isinstance(n, _ast.Call) and isinstance(n.func, _ast.Attribute) and isinstance(n.func.value, _ast.Name) and \
                        n.func.attr in ("add", "append", "extend", "update", "insert", "pop", "remove", "discard", "setdefault", "clear"):
                    mutated.add(n.func.value.id)
                if isinstance(n, (_ast.Assign, _ast.AugAssign)):
                    for t in (n.targets if isinstance(n, _ast.Assign) else [n.target]):
                        for x in _ast.walk(t):
                            if isinstance(x, _ast.Name) and isinstance(x.ctx, _ast.Store):
                                assigned_in_body.add(x.id)
                        if isinstance(t, _ast.Subscript) and isinstance(t.value, _ast.Name):
                            mutated.add(t.value.id)
                if isinstance(n, _ast.AugAssign) and isinstance(n.target, _ast.Name):
                    mutated.add(n.target.id)
            defined_before = {n.id for st_ in fn2.body for n in _ast.walk(st_) if isinstance(n, _ast.Name) and isinstance(n.ctx, _ast.Store)
                              and getattr(n, "lineno", 0) < loop.lineno}
            carried = sorted((mutated & defined_before))
            flag_used = False
            for n in _ast.walk(_ast.Module(body=loop.body, type_ignores=[])):
                if isinstance(n, _ast.Assign) and isinstance(n.value, _ast.Call) and _ast.unparse(n.value.func).endswith("shorten_code") \
                        and isinstance(n.targets[0], _ast.Tuple) and len(n.targets[0].elts) == 2:
                    second = n.targets[0].elts[1]
                    name = second.id if isinstance(second, _ast.Name) else None
                    if name and name != "_" and any(isinstance(x, _ast.Name) and x.id == name and isinstance(x.ctx, _ast.Load)
                                                    for x in _ast.walk(_ast.Module(body=loop.body, type_ignores=[]))):
                        flag_used = True
            run.syntactic(f"{cls}.analyze:order:no-loop-carried-state@{loop.lineno}", "type", not carried and not flag_used,
                          f"loop-carried: {carried}; shorten_code flag used: {flag_used}", where=cls + ".analyze",
                          meta={"clause": "iterating the hash-ordered unused-assignment mapping, each finding depends on its own element only"})
    run.informational.append("the *order* of UnusedVariables findings (and so of result strings and of detailed_results' last-wins trigger) follows the hash "
                             "order of variable names; the statement's observables (decompiled source, verdict, *set* of findings) do not depend on it")


def make_replayer(run):
    cache = {}

    def replay(o):
        if "d" not in cache:
            cache["d"] = run_child(run.repo.root, "determinism_diff.py", ["--two-process"])
        d = cache["d"]
        if d.get("n_failures"):
            parts = o.name.split(".")
            cls = "fickle." + parts[1] if len(parts) > 1 else ""
            names = [n.lower() for n, c in run.repo.live["OPCODES_BY_NAME"].items() if c == cls]
            fls = witnesses_for("C13", o, d["failures"], lambda f: failure_name("determinism_diff", f))
            mine = [f for f in fls if names and names[0] in f["program"]] or (fls if not names else [])
            if mine:
                f = mine[0]
                return {"reproduced": True, "failing_input_hex": f["bytes"], "program": f["program"], "when": f["when"], "differs": f["differs"],
                        "first": f["first"], "then": f["then"], "how": "same pickle asked twice / in another order / re-parsed / in a second process with another hash seed"}
        return {"reproduced": False, "searched": {k: v for k, v in d.items() if k != "failures"}}
    return replay


def build(run: Run):
    eng = run.eng
    run.replayers.append(make_replayer(run))
    bounded_companion(run, "C13", "determinism_diff.py", ["--two-process"], what="replay/determinism_diff.py: every corpus program asked twice, in another order, re-parsed, read at "
                      "a non-zero offset, and in a second process (other hash seed, opposite order)")
    scans(run)
    # (a) frames of the read-only queries
    run.verify("fickle.Pickled.ast", "fickle.Pickled.properties", "fickle.Pickled.has_import", "fickle.Pickled.has_call",
               "fickle.Pickled.has_non_setstate_call", "fickle.Pickled.dumps", "fickle.Pickled.non_standard_imports", "fickle.Pickled.unsafe_imports",
               "fickle.Interpreter.interpret", "fickle.Interpreter.to_ast", "fickle.Interpreter.run", "fickle.Interpreter.step",
               "fickle.Interpreter.__init__", "fickle.ASTProperties.__init__",
               "analysis.AnalysisContext.__init__", "analysis.AnalysisContext.analyze", "analysis.AnalysisContext.results",
               "analysis.AnalysisContext.shorten_code", "analysis.Analyzer.analyze", "analysis.check_safety",
               "analysis.AnalysisResults.__init__", "analysis.AnalysisResults.severity", "analysis.AnalysisResults.to_dict",
               "analysis.AnalysisResults.detailed_results")
    run.verify_batch(analysis_contracts(run))
    run.verify(*[f for f in RUNTIME_FNS if f.startswith("tracing.")])
    eng.back_edge_hook = trace_back_edge
    run.verify("tracing.Trace.run", extra_post=trace_exit)
    eng.back_edge_hook = None
    # every opcode run against the generic frame: it writes the interpreter's own state and node-owned lists only — never the Pickled, its
    # opcode objects, or anything an earlier answer was computed from
    run.verify_batch(frame_contracts(run))
    # (b) type obligations on every AST construction, under the shape contracts (well-formed interpreter state)
    install_type_hooks(run)
    run.verify_batch([key for cls, key in opcode_contracts(run)])
    run.assumptions += [
        "history quantifier: each query is a function of the opcode sequence plus a frame that excludes the opcode list, the opcode objects and "
        "every already-built AST (except line numbers and in-place list growth during the *same* interpretation); hence any order/repetition of "
        "queries gives the same answers (argument from the frame obligations; the class invariant is C14)",
        "cross-process clause is argued from: no id()/hash() in outputs, ast.Constant holds Python constants only, set iteration only keys a dict; "
        "observation in a second process with another PYTHONHASHSEED is the bounded companion (replay/determinism_diff.py, thorough tier)",
        "Interpreter.unused_assignments is under a trusted contract (ast.walk / set algebra)",
    ]


if __name__ == "__main__":
    sys.exit(main("C13", build, sidecars=SIDE))
