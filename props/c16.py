"""C16 — PyTorch payload insertion changes only the model pickle and keeps the model."""
import os
import sys
import z3
sys.path.insert(0, os.path.dirname(os.path.dirname(os.path.abspath(__file__))))
from props.common import main, Run, run_child, ALL_SIDECARS  # noqa: E402
from pyvc.calls import Contract  # noqa: E402
from pyvc.state import Obligation  # noqa: E402
from pyvc.sorts import Val, box  # noqa: E402

SIDE = ALL_SIDECARS + ("pytorch",)
Q = "pytorch.PyTorchModelWrapper.inject_payload"
EXPECT = '(DUMPS(pickled) if {n}.endswith("/data.pkl") else zip_member(zip_ref, {n}))'


def ob(eng, name, st, goal, clause, kind="post"):
    eng.obligations.append(Obligation(f"{Q}:{kind}:{name}", kind, st.hyps(), goal if not isinstance(goal, bool) else z3.BoolVal(goal), where=Q,
                                      meta={"clause": clause, "trail": st.trail}))


def paths(eng, c, f, entry, j, raised):
    opens = [e for e in f.log if e[0] == "zip-open"]
    renames = [e for e in f.log if e[0] == "fs-rename"]
    removes = [e for e in f.log if e[0] == "fs-remove"]
    self_path = eng.spec_value("self.path", f)
    out_path = entry.env["output_path"]
    ow = eng.spec_eval("overwrite is True", f)
    # the input archive is only ever opened for reading; the only archive opened for writing is output_path
    for k, e in enumerate(opens):
        mode = e[3].t
        ob(eng, f"archive-modes#{k}#path{j}", f,
           z3.Or(z3.And(mode == z3.StringVal("r"), box(eng.materialize(e[2], f)) == box(eng.materialize(self_path, f))),
                 z3.And(mode == z3.StringVal("w"), box(eng.materialize(e[2], f)) == box(eng.materialize(out_path, f)))),
           "the input is opened read-only, the only archive written is output_path")
    if raised is None:
        ob(eng, f"overwrite-renames-once#path{j}", f, z3.If(ow, z3.BoolVal(len(renames) == 1), z3.BoolVal(len(renames) == 0 and len(removes) == 0)),
           "the output replaces the input exactly when overwrite is requested; otherwise nothing is renamed or removed")
        for e in renames:
            ob(eng, f"rename-is-output-onto-input#path{j}", f, z3.And(e[1] == box(eng.materialize(out_path, f)), e[2] == box(eng.materialize(self_path, f))),
               "the rename moves output_path onto the input path")
        for e in removes:
            ob(eng, f"only-the-output-is-removed#path{j}", f, e[1] == box(eng.materialize(out_path, f)), "the only file removed is a leftover output_path")
        fe = f.ghost.get("final_env", {})
        nz, zr = fe.get("new_zip_ref"), fe.get("zip_ref")
        ob(eng, f"archive-written#path{j}", f, nz is not None and zr is not None, "the injected archive is written from the input archive")
        if nz is not None and zr is not None:
            env = {"new_zip_ref": nz, "zip_ref": zr, "pickled": fe.get("pickled")}
            for k, text in enumerate(["len(new_zip_ref.written_names) == len(zip_ref.entries)",
                                      "forall('j', len(zip_ref.entries), 'new_zip_ref.written_names[j] == zip_ref.entries[j].filename')",
                                      "forall('j', len(zip_ref.entries), 'new_zip_ref.written_data[j] == " + EXPECT.format(n="zip_ref.entries[j].filename") + "')"]):
                ob(eng, f"archive-clause-{k}#path{j}", f, eng.spec_eval(text, f, env, goal=True),
                   ["same number of members", "same member names in the same order", "every member but */data.pkl byte-identical; data.pkl is the injected pickle"][k])
        ins = [e for e in f.log if e[0] == "call-begin" and e[1] == "fickle.Pickled.insert_python_exec"]
        ob(eng, f"one-injection#path{j}", f, len(ins) == 1, "the payload is injected exactly once")
        if len(ins) == 1:
            a = ins[0][2].get("args")
            ob(eng, f"payload-is-the-argument#path{j}", f, a is not None and a.k == "tuple" and len(a.xs) == 1 and
               bool(z3.is_true(z3.simplify(a.xs[0].t == entry.env["payload"].t))), "the injected code is the payload argument")


def build(run: Run):
    eng = run.eng
    cache = {}

    def replay(o):
        if "d" not in cache:
            cache["d"] = run_child(run.repo.root, "pt_diff.py", [str(run.seed)], timeout=1200)
        d = cache["d"]
        if d.get("n_failures"):
            return {"reproduced": True, "failing_case": d["failures"][0], "how": "generated models / state containers through inject_payload and torch.load (replay/pt_diff.py)"}
        return {"reproduced": False, "searched": {k: v for k, v in d.items() if k != "failures"}}
    run.replayers.append(replay)
    mod, fn = run.repo.function(Q)
    loops = run.repo.loops(fn)
    c = Contract(Q, params="self: pytorch.PyTorchModelWrapper, payload: str, output_path: val, injection: str = 'all', overwrite: val = False",
                 returns="val", requires=["injection == 'insertion'"],
                 may_raise=["OSError", "Exception", "ValueError", "KeyError", "NotImplementedError", "IndexError", "TypeError", "AttributeError",
                            "OverflowError", "struct.error"], exact_raises=False, props=["no-frame", "inferred-loop-frames"], ensures=[])
    if len(loops) == 1:
        c.loops = {0: dict(invariant=["len(new_zip_ref.written_names) == _i", "len(new_zip_ref.written_data) == _i", "_seq == seq_of(zip_ref.entries)",
                                      "forall('j', _i, 'new_zip_ref.written_names[j] == _seq[j].filename')",
                                      "forall('j', _i, 'new_zip_ref.written_data[j] == " + EXPECT.format(n="_seq[j].filename") + "')"],
                           modifies="infer")}
    eng.contracts[Q] = c
    run.verify(Q, extra_post=paths)
    run.assumptions += [
        "abstract zip: a ZipFile opened for reading has its ZipInfo records in archive order and MEMBER(zip, name) bytes (zip_ref.open(name).read() "
        "returns MEMBER for the first record of that name — archives with duplicate member names are outside the model); one opened for writing "
        "records what writestr appends, in order; that the written archive then *is* those members (zipfile's own format) is assumed",
        "the model pickle written is DUMPS(pickled) after insert_python_exec(payload) — that this is 'the original with the injected call added' "
        "is C08 (structure) and C06 (the parsed pickle re-serialises to the input's data.pkl)",
        "loading the injected file with full unpickling runs the payload once and rebuilds an equal model: a statement about torch.load and the "
        "pickle VM — bounded companion replay/pt_diff.py (7 object families incl. zero-size tensors and shared storages x 3 payloads x 2 "
        "overwrite settings), never counted as proved",
        "file system: rename / remove / exists are events with symbolic paths; 'no stray output remains' is: after the rename the only removal is "
        "of output_path itself (which no longer exists unless the rename was to another file system)",
    ]
    d = run_child(run.repo.root, "pt_diff.py", [str(run.seed)], timeout=1200)
    if "error" in d:
        raise RuntimeError(f"replay/pt_diff.py failed: {d}")
    viol = []
    for f in d.get("failures", []):
        f = dict(f)
        f["name"] = f"pt_diff:{f.get('kind', 'other')}:{f['object']}"
        if not any(v["name"] == f["name"] for v in viol):
            viol.append(f)
    run.bounded_parts.append({"name": "pt_diff", "label": "bounded", "what": "replay/pt_diff.py (see assumptions)", "bound": {k: v for k, v in d.items() if k != "failures"},
                              "violations": viol[:4]})


if __name__ == "__main__":
    sys.exit(main("C16", build, sidecars=SIDE, with_torch=True))
