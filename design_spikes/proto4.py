import z3, time, subprocess, tempfile, os
code,rest=z3.Strings('code rest')
strip=z3.Function('strip',z3.StringSort(),z3.StringSort())
for cname in ["eval","exec","compile","open"]:
    s=z3.Solver(); s.set('timeout',20000)
    pre=z3.StringVal(cname+"(")
    s.add(z3.PrefixOf(pre,code), z3.Length(code)>32)
    cutoff=z3.IndexOf(code,z3.StringVal("("),0)
    # python: code[cutoff] == "(" branch (cutoff>=0 here)
    head=z3.SubString(code,0,cutoff)
    s.add(strip(z3.StringVal(cname))==z3.StringVal(cname))   # concrete fact about the literal
    short=z3.Concat(strip(head),z3.StringVal("(...)"))
    s.add(z3.Not(z3.PrefixOf(pre,short)))
    t=time.time(); r=s.check(); print(cname,"z3:",r,round(time.time()-t,3))
    smt="(set-logic ALL)\n"+s.to_smt2()
    f=tempfile.NamedTemporaryFile("w",suffix=".smt2",delete=False); f.write(smt); f.close()
    t=time.time(); out=subprocess.run(["/usr/bin/cvc5","--strings-exp","--tlimit=20000",f.name],capture_output=True,text=True).stdout.strip()
    print("   cvc5:",out,round(time.time()-t,3)); os.unlink(f.name)
