# Spike 2: pointwise relation as uninterpreted predicate + generator-side ground instantiation (quantifier-free)
import z3, time, itertools
I=z3.IntSort()
V=z3.Datatype('V'); V.declare('VC',('c',I)); V.declare('VR',('a',I)); V=V.create()
F=z3.Datatype('F'); F.declare('FC',('c',I)); F.declare('FR',('r',I)); F.declare('FM'); F=F.create()
SV=z3.SeqSort(V); SF=z3.SeqSort(F)
def mk(cname):
    c=z3.Function(cname,I,I)
    Rv=lambda v,f: z3.Or(z3.And(V.is_VC(v),F.is_FC(f),V.c(v)==F.c(f)), z3.And(V.is_VR(v),F.is_FR(f),F.r(f)==c(V.a(v))))
    Rs=z3.Function('Rs_'+cname,SV,SF,z3.BoolSort())
    return c,Rv,Rs
c,Rv,Rs=mk('c')
def ax_subseq(Rs,s,t,o,l): return z3.Implies(Rs(s,t), Rs(z3.SubSeq(s,o,l), z3.SubSeq(t,o,l)))
def ax_len(Rs,s,t): return z3.Implies(Rs(s,t), z3.Length(s)==z3.Length(t))
def ax_elem(Rs,Rv,s,t,i): return z3.Implies(z3.And(Rs(s,t),0<=i,i<z3.Length(s)), Rv(s[i],t[i]))
def ax_cat(Rs,Rv,a,b,cc,d): return z3.Implies(z3.And(Rs(a,cc),Rs(b,d)), Rs(z3.Concat(a,b),z3.Concat(cc,d)))
def ax_unit(Rs,Rv,v,f): return Rs(z3.Unit(v),z3.Unit(f))==Rv(v,f)
stk=z3.Const('stk',SV); fst=z3.Const('fst',SF); n=z3.Length(stk)
Hv=z3.Array('Hv',I,SV); Hf=z3.Array('Hf',I,SF)
val_v,lst_v=stk[n-1],stk[n-2]; val_f,lst_f=fst[n-1],fst[n-2]
base=[Rs(stk,fst), n>=2, ax_len(Rs,stk,fst), ax_elem(Rs,Rv,stk,fst,n-1), ax_elem(Rs,Rv,stk,fst,n-2), V.is_VR(lst_v)]
def run(name,hyps,goal):
    s=z3.Solver(); s.set('timeout',20000); s.add(hyps); s.add(z3.Not(goal)); t=time.time(); r=s.check()
    print(name,r,round(time.time()-t,3)); return s
# APPEND: stack goal
stk2=z3.SubSeq(stk,0,n-1); fst2=z3.SubSeq(fst,0,n-1)
run("APPEND stack", base+[ax_subseq(Rs,stk,fst,0,n-1)], Rs(stk2,fst2))
# APPEND: heap goal at skolem address b ; hypothesis Rheap instantiated at b and at the touched address
b=z3.Int('b'); la=V.a(lst_v)
HR=lambda Hv,Hf,a: Rs(Hv[a],Hf[c(a)])
Hv2=z3.Store(Hv,la,z3.Concat(Hv[la],z3.Unit(val_v))); Hf2=z3.Store(Hf,F.r(lst_f),z3.Concat(Hf[F.r(lst_f)],z3.Unit(val_f)))
inj=[z3.Implies(c(x)==c(y),x==y) for x,y in [(b,la)]]
run("APPEND heap", base+inj+[HR(Hv,Hf,b),HR(Hv,Hf,la), ax_unit(Rs,Rv,val_v,val_f),
    ax_cat(Rs,Rv,Hv[la],z3.Unit(val_v),Hf[c(la)],z3.Unit(val_f))], HR(Hv2,Hf2,b))
# SETITEM-like (pinned tree): VM in place; fickling allocates rnew, pushes FR(rnew); memo slot k untouched.
memv=z3.Array('memv',I,V); memf=z3.Array('memf',I,F); k=z3.Int('k'); rnew=z3.Int('rnew')
c2,Rv2,Rs2=mk('c2')
Hf3=z3.Store(Hf,rnew,z3.Concat(Hf[F.r(lst_f)],z3.Unit(val_f)))
hyp=base+[Rv(memv[k],memf[k]), HR(Hv,Hf,la), HR(Hv,Hf,V.a(memv[k])), c(la)!=rnew, c(V.a(memv[k]))!=rnew,
     # best possible new correspondence: remap the mutated object to rnew, keep the rest
     c2(la)==rnew, z3.Implies(V.a(memv[k])!=la, c2(V.a(memv[k]))==c(V.a(memv[k])))]
s=run("SETITEM memo (expect sat)", hyp, Rv2(memv[k],memf[k]))
m=s.model(); print("  witness: memo[k]=",m.eval(memv[k]),"/",m.eval(memf[k]),"; dict operand=",m.eval(lst_v),"/",m.eval(lst_f),"; rnew=",m.eval(rnew))
