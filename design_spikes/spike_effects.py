# THROWAWAY: name-based reachability from the C01 analysis entry points; lists external callees reached
import ast, collections, builtins
mods={m:ast.parse(open(f"/repo/fickling/{m}.py").read()) for m in ["fickle","analysis","tracing","cli","ml","loader","exception"]}
funcs={}; methods=collections.defaultdict(list); classes={}
for m,t in mods.items():
    for n in t.body:
        if isinstance(n,ast.FunctionDef): funcs[(m,n.name)]=n
        if isinstance(n,ast.ClassDef):
            classes[n.name]=(m,n)
            for f in ast.walk(n):
                if isinstance(f,ast.FunctionDef): methods[f.name].append((m,n.name,f))
entry=[("fickle","Pickled","load"),("fickle","StackedPickle","load"),("fickle","Pickled","ast"),("fickle","Pickled","properties"),
       ("fickle","Pickled","unsafe_imports"),("fickle","Pickled","non_standard_imports"),("fickle","Interpreter","run"),("fickle","Interpreter","to_ast"),
       ("fickle","Interpreter","unused_assignments"),("tracing","Trace","run"),("analysis",None,"check_safety"),("analysis",None,"is_likely_safe")]
seen=set(); ext=collections.Counter(); work=[]
def add(m,c,f):
    if c is None:
        if (m,f) in funcs and (m,None,f) not in seen: seen.add((m,None,f)); work.append(funcs[(m,f)])
    else:
        for (mm,cc,fn) in methods[f]:
            if cc==c and (mm,cc,f) not in seen: seen.add((mm,cc,f)); work.append(fn)
for e in entry: add(*e)
# over-approximate dynamic dispatch: a call x.m(...) reaches every repo method named m; a Name call reaches repo function/class (its __init__/__new__)
while work:
    fn=work.pop()
    for n in ast.walk(fn):
        if isinstance(n,ast.Attribute) and n.attr in methods and not isinstance(n.ctx,ast.Store):   # property reads or method calls
            for (mm,cc,f) in methods[n.attr]:
                if (mm,cc,n.attr) not in seen: seen.add((mm,cc,n.attr)); work.append(f)
        if isinstance(n,ast.Call):
            f=n.func
            if isinstance(f,ast.Name):
                hit=False
                for m in mods:
                    if (m,f.id) in funcs: add(m,None,f.id); hit=True
                if f.id in classes:
                    hit=True
                    for meth in ("__init__","__new__","__init_subclass__"): add(classes[f.id][0],f.id,meth)
                if not hit: ext[f.id]+=1
            elif isinstance(f,ast.Attribute) and f.attr not in methods:
                ext[(ast.unparse(f.value) if len(ast.unparse(f.value))<14 else "<e>")+"."+f.attr]+=1
print("reachable repo functions/methods:",len(seen))
print("injection helpers reached?",[s for s in seen if s[2].startswith("insert_") or s[2]=="append_python"])
b=[k for k in ext if k in dir(builtins)]; print("builtins called:",sorted(b))
print("other external callees:",sorted(k for k in ext if k not in b))
