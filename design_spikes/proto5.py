import z3, time
S=z3.SeqSort(z3.IntSort())
base,seg,s1,tail=z3.Consts('base seg s1 tail',S)
def nmq(s,tag):
    i=z3.Int('i'+tag); return z3.ForAll([i], z3.Implies(z3.And(0<=i,i<z3.Length(s)), s[i]!=0))
one=z3.Unit(z3.IntVal(1)); zero=z3.Unit(z3.IntVal(0))
entry=z3.Concat(base,one,zero,seg)
for label,goal in [("prefix",s1==z3.Concat(base,one)),("suffix",tail==seg)]:
    s=z3.Solver(); s.set('timeout',20000)
    s.add(nmq(seg,'a'),nmq(tail,'b'), entry==z3.Concat(s1,zero,tail), z3.Not(goal))
    t=time.time(); print("quantified NM",label,s.check(),round(time.time()-t,2))
# approach 2: the uniqueness lemma as a ground instance, NM uninterpreted
NM=z3.Function('NM',S,z3.BoolSort())
lemma=z3.Implies(z3.And(z3.Concat(base,one,zero,seg)==z3.Concat(s1,zero,tail),NM(seg),NM(tail)), z3.And(z3.Concat(base,one)==s1, seg==tail))
s=z3.Solver(); s.add(NM(seg),NM(tail),entry==z3.Concat(s1,zero,tail),lemma,z3.Not(s1==z3.Concat(base,one)))
t=time.time(); print("ground lemma",s.check(),round(time.time()-t,3))
# is the lemma itself provable with quantified NM? (validity of the rule)
a,b,c,d=z3.Consts('a b c d',S)
s=z3.Solver(); s.set('timeout',30000)
s.add(z3.Concat(a,zero,b)==z3.Concat(c,zero,d), nmq(b,'x'), nmq(d,'y'), z3.Not(z3.And(a==c,b==d)))
t=time.time(); print("lemma validity z3:",s.check(),round(time.time()-t,2))
open("lemma.smt2","w").write("(set-logic ALL)\n"+s.to_smt2())
