import Mathlib.Data.List.Basic

/-- last-mark uniqueness: two decompositions of a stack at a mark whose suffixes are mark-free coincide -/
theorem last_mark_unique (a b c d : List Nat)
    (h : a ++ 0 :: b = c ++ 0 :: d) (hb : ∀ x ∈ b, x ≠ 0) (hd : ∀ x ∈ d, x ≠ 0) :
    a = c ∧ b = d := by
  induction a generalizing c with
  | nil =>
    cases c with
    | nil => simp at h; exact ⟨rfl, h⟩
    | cons y ys =>
      simp at h
      obtain ⟨rfl, h2⟩ := h
      exact absurd rfl (hb 0 (by rw [h2]; simp))
  | cons x xs ih =>
    cases c with
    | nil =>
      simp at h
      obtain ⟨rfl, h2⟩ := h
      exact absurd rfl (hd 0 (by rw [← h2]; simp))
    | cons y ys =>
      simp at h
      obtain ⟨rfl, h2⟩ := h
      obtain ⟨r1, r2⟩ := ih ys h2
      exact ⟨by rw [r1], r2⟩
