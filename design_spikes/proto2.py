# Feasibility spike for the C05 two-heap relation (hand-encoded VCs; not framework code)
import z3, time
I=z3.IntSort()
# VM values: scalar c, or ref to heap list a
V=z3.Datatype('V'); V.declare('VC',('c',I)); V.declare('VR',('a',I)); V=V.create()
# fickling slots: Const node, or ref to mutable List node r, or mark
F=z3.Datatype('F'); F.declare('FC',('c',I)); F.declare('FR',('r',I)); F.declare('FM'); F=F.create()
SV=z3.SeqSort(V); SF=z3.SeqSort(F)
Hv=z3.Array('Hv',I,SV); Hf=z3.Array('Hf',I,SF)     # heaps: list contents
c=z3.Function('c',I,I)                               # correspondence VM addr -> node addr (injective)
def Rv(v,f): return z3.Or(z3.And(V.is_VC(v),F.is_FC(f),V.c(v)==F.c(f)),
                          z3.And(V.is_VR(v),F.is_FR(f),F.r(f)==c(V.a(v))))
def Rseq(sv,sf,tag):
    i=z3.Int('i_'+tag)
    return z3.And(z3.Length(sv)==z3.Length(sf), z3.ForAll([i], z3.Implies(z3.And(0<=i,i<z3.Length(sv)), Rv(sv[i],sf[i]))))
def Rheap(Hv,Hf,tag):
    a=z3.Int('a_'+tag); return z3.ForAll([a], Rseq(Hv[a],Hf[c(a)],tag+'h'))
a1,a2=z3.Ints('x1 x2'); inj=z3.ForAll([a1,a2], z3.Implies(c(a1)==c(a2), a1==a2))
stk=z3.Const('stk',SV); fst=z3.Const('fst',SF)
memv=z3.Array('memv',I,V); memf=z3.Array('memf',I,F); k=z3.Int('k')
Rmem=lambda mv,mf,t: z3.ForAll([k], Rv(mv[k],mf[k]))   # total maps for the spike
pre=[inj, Rseq(stk,fst,'s'), Rheap(Hv,Hf,'H'), Rmem(memv,memf,'m'), z3.Length(stk)>=2]
n=z3.Length(stk)
val_v, lst_v = stk[n-1], stk[n-2]; val_f, lst_f = fst[n-1], fst[n-2]
# ---- APPEND (in place on both sides)
Hv2=z3.Store(Hv, V.a(lst_v), z3.Concat(Hv[V.a(lst_v)], z3.Unit(val_v)))
Hf2=z3.Store(Hf, F.r(lst_f), z3.Concat(Hf[F.r(lst_f)], z3.Unit(val_f)))
stk2=z3.SubSeq(stk,0,n-1); fst2=z3.SubSeq(fst,0,n-1)
def check(name, goal, extra=[]):
    s=z3.Solver(); s.set('timeout',20000); s.add(pre+extra+[V.is_VR(lst_v), F.is_FR(lst_f)]); s.add(z3.Not(goal))
    t=time.time(); r=s.check(); print(name, r, round(time.time()-t,3))
    return s
# goal pieces (skolemised pointwise)
j=z3.Int('j'); b=z3.Int('b')
check("APPEND stack", z3.And(z3.Length(stk2)==z3.Length(fst2), z3.Implies(z3.And(0<=j,j<z3.Length(stk2)), Rv(stk2[j],fst2[j]))))
check("APPEND heap len", z3.Length(Hv2[b])==z3.Length(Hf2[c(b)]))
check("APPEND heap elem", z3.Implies(z3.And(0<=j,j<z3.Length(Hv2[b])), Rv(Hv2[b][j],Hf2[c(b)][j])))
# ---- SETITEM-like on pinned tree: VM mutates in place; fickling pushes a NEW node r_new, memo untouched
rnew=z3.Int('rnew')
Hf3=z3.Store(Hf, rnew, z3.Concat(Hf[F.r(lst_f)], z3.Unit(val_f)))
fst3=z3.Concat(z3.SubSeq(fst,0,n-2), z3.Unit(F.FR(rnew)))
stk3=z3.SubSeq(stk,0,n-1)
c2=z3.Function('c2',I,I)  # new correspondence may remap the mutated object to rnew
def Rv2(v,f): return z3.Or(z3.And(V.is_VC(v),F.is_FC(f),V.c(v)==F.c(f)), z3.And(V.is_VR(v),F.is_FR(f),F.r(f)==c2(V.a(v))))
fresh=z3.ForAll([a1], c(a1)!=rnew)
remap=z3.ForAll([a1], c2(a1)==z3.If(a1==V.a(lst_v), rnew, c(a1)))
s=check("SETITEM memo keeps Rv under best remap (expect sat = refuted)", Rv2(memv[k], memf[k]), [fresh,remap])
m=s.model(); print("  witness: memo key",m.eval(k),"vm",m.eval(memv[k]),"fick",m.eval(memf[k]),"dict operand",m.eval(lst_v))
