import z3, time
# Shape abstraction: stack as Seq(Int) where 0=MARK, 1=OBJ
S=z3.SeqSort(z3.IntSort())
st0,st,args=z3.Consts('st0 st args',S)
obj=z3.Int('obj')
def nomark(s):
    i=z3.Int('i'); return z3.ForAll([i], z3.Implies(z3.And(0<=i,i<z3.Length(s)), s[i]!=0))
# loop: while True: if not stack: raise; obj=stack.pop(); if mark: break; else args.append(obj)
# Inv: st ++ rev(args) == st0 -- use args kept in *stack order* by prepending (model append+final reverse as prepend)
inv=lambda st,a: z3.And(z3.Concat(st,a)==st0, nomark(a))
# preservation, non-break path
st2,a2=z3.Consts('st2 a2',S)
s=z3.Solver(); s.set("timeout",10000)
s.add(inv(st,args), z3.Length(st)>0, obj==st[z3.Length(st)-1], st2==z3.SubSeq(st,0,z3.Length(st)-1))
s.add(obj!=0, a2==z3.Concat(z3.Unit(obj),args))
s.add(z3.Not(z3.Concat(st2,a2)==st0))
t=time.time(); print("preserve concat:", s.check(), time.time()-t)
# post on break: st0 == st2 ++ [MARK] ++ args, nomark(args)
s=z3.Solver(); s.set("timeout",10000)
s.add(inv(st,args), z3.Length(st)>0, obj==st[z3.Length(st)-1], st2==z3.SubSeq(st,0,z3.Length(st)-1), obj==0)
s.add(z3.Not(st0==z3.Concat(st2,z3.Unit(z3.IntVal(0)),args)))
t=time.time(); print("post:", s.check(), time.time()-t)
# telescoping slices
B=z3.SeqSort(z3.BitVecSort(8)); Sx=z3.Const('Sx',B); a,b,c=z3.Ints('a b c')
s=z3.Solver(); s.set("timeout",10000)
s.add(0<=a,a<=b,b<=c,c<=z3.Length(Sx))
s.add(z3.Not(z3.Concat(z3.SubSeq(Sx,a,b-a),z3.SubSeq(Sx,b,c-b))==z3.SubSeq(Sx,a,c-a)))
t=time.time(); print("telescope:", s.check(), time.time()-t)
