# THROWAWAY SPIKE (not framework code): AST -> z3 for the R09 shape obligation of every opcode run().
# Reads the real /repo/fickling/fickle.py source; oracle = pickletools stack_before/after.
import ast, sys, time, inspect, pickletools, z3
sys.path.insert(0, "/repo")
import fickling.fickle as fk

import os
SRC = open(os.environ.get("SPIKE_SRC","/repo/fickling/fickle.py")).read()
TREE = ast.parse(SRC)
FUNCS = {}  # (classname, funcname) -> FunctionDef
for c in [n for n in TREE.body if isinstance(n, ast.ClassDef)]:
    for f in [m for m in c.body if isinstance(m, ast.FunctionDef)]:
        FUNCS[(c.name, f.name)] = f
# nested run_wrapper inside StackSliceOpcode.__init_subclass__
for n in ast.walk(FUNCS[("StackSliceOpcode", "__init_subclass__")]):
    if isinstance(n, ast.FunctionDef) and n.name == "run_wrapper":
        FUNCS[("StackSliceOpcode", "run_wrapper")] = n

S = z3.SeqSort(z3.IntSort())
NM = z3.Function("NM", S, z3.BoolSort())  # "no mark in sequence" as uninterpreted predicate + ground rules
def nm_rules(terms):
    out = [NM(z3.Empty(S))]
    for t in terms:
        if t.decl().kind() == z3.Z3_OP_SEQ_CONCAT:
            out.append(NM(t) == z3.And([NM(c) for c in t.children()])); out += nm_rules(t.children())
        elif t.decl().kind() == z3.Z3_OP_SEQ_UNIT:
            out.append(NM(t) == (t.arg(0) != 0))
    return out

class Raised(Exception): pass
class St:
    def __init__(s, stack, memo, pc, env, tail=None, entry=None):
        s.stack, s.memo, s.pc, s.env, s.tail, s.entry = stack, memo, list(pc), dict(env), tail, entry
        s.status = "run"  # run | ret | raise | brk | cont
    def fork(s):
        n = St(s.stack, s.memo, s.pc, s.env, s.tail, s.entry); n.status = s.status; n.prev_tail = getattr(s,'prev_tail',None); return n

CNT = [0]
def fresh(name, sort=z3.IntSort()):
    CNT[0] += 1; return z3.Const(f"{name}!{CNT[0]}", sort)
OPAQUE = ("opaque",)
def shape(v):  # value -> z3 Int shape (0 mark / 1 obj)
    return v[1] if v[0] == "slot" else z3.IntVal(1)

ARG = z3.Int("ARG"); CARD = z3.Function("card", z3.ArraySort(z3.IntSort(), z3.BoolSort()), z3.IntSort())
OBLIG = []  # (name, hyps, goal)
def is_stack(e):  return isinstance(e, ast.Attribute) and e.attr == "stack" and isinstance(e.value, ast.Name) and e.value.id == "interpreter"
def is_memo(e):   return isinstance(e, ast.Attribute) and e.attr == "memory" and isinstance(e.value, ast.Name) and e.value.id == "interpreter"

def pop(st):
    n = z3.Length(st.stack)
    if not sat(st.pc + [n > 0]): st.status = "raise"; return OPAQUE
    st.pc.append(n > 0)            # the n == 0 path raises IndexError: not a normal exit, dropped
    x = fresh("x"); rest = fresh("s", S)
    st.pc.append(st.stack == z3.Concat(rest, z3.Unit(x)))
    st.stack = rest
    if st.tail is not None: st.prev_tail = st.tail; st.tail = z3.Concat(z3.Unit(x), st.tail)
    return ("slot", x)
def push(st, v): st.stack = z3.Concat(st.stack, z3.Unit(shape(v)))
def sat(cs):
    s = z3.Solver(); s.set("timeout", 5000); s.add(cs); return s.check() != z3.unsat

def ev(e, st):
    """returns a value: ('slot',Int) | ('int',Int) | ('bool',Bool) | OPAQUE"""
    if isinstance(e, ast.Call):
        f = e.func
        if isinstance(f, ast.Attribute) and is_stack(f.value):
            if f.attr == "pop": return pop(st)
            if f.attr in ("append", "push"): push(st, ev(e.args[0], st)); return OPAQUE
        if isinstance(f, ast.Name) and f.id == "len" and is_stack(e.args[0]): return ("int", z3.Length(st.stack))
        if isinstance(f, ast.Name) and f.id == "len" and is_memo(e.args[0]): return ("int", CARD(st.memo))
        if isinstance(f, ast.Name) and f.id == "MarkObject": return ("slot", z3.IntVal(0))
        if isinstance(f, ast.Name) and f.id == "isinstance":
            v = ev(e.args[0], st); cls = ast.unparse(e.args[1])
            if cls == "MarkObject": return ("bool", shape(v) == 0)
            b = fresh("isinst", z3.BoolSort())           # some ast.* class: only objects can be instances
            st.pc.append(z3.Implies(b, shape(v) != 0)); return ("bool", b)
        if isinstance(f, ast.Name) and f.id == "orig_run":   # run_wrapper -> inline the wrapped run
            return ("call_orig",)
        for a in e.args: ev(a, st)                           # evaluate arguments for their effects
        for k in e.keywords: ev(k.value, st)
        if isinstance(f, ast.Attribute): ev(f.value, st)
        return OPAQUE
    if isinstance(e, ast.Subscript):
        if is_stack(e.value):
            idx = ast.unparse(e.slice)
            if idx in ("-1", "stack_len - 1"):
                n = z3.Length(st.stack); st.pc.append(n > 0); return ("slot", st.stack[n - 1])
            raise NotImplementedError("stack index " + idx)
        if is_memo(e.value):
            k = ev(e.slice, st); kk = k[1] if k[0] == "int" else ARG
            st.pc.append(z3.Select(st.memo, kk)); return ("slot", z3.IntVal(1))   # KeyError path dropped; memo holds objects (see note)
        ev(e.value, st); return OPAQUE
    if isinstance(e, ast.Name): return st.env.get(e.id, OPAQUE)
    if isinstance(e, ast.Attribute):
        if ast.unparse(e) in ("self.arg", "self.memo_id"): return ("int", ARG)
        if is_stack(e): return ("stackref",)
        return OPAQUE
    if isinstance(e, ast.UnaryOp) and isinstance(e.op, ast.Not):
        v = ev(e.operand, st)
        if v[0] == "stackref": return ("bool", z3.Length(st.stack) == 0)
        return ("bool", z3.Not(v[1])) if v[0] == "bool" else ("bool", fresh("nd", z3.BoolSort()))
    if isinstance(e, ast.BoolOp):
        vs = [cond(x, st) for x in e.values]
        return ("bool", z3.And(vs) if isinstance(e.op, ast.And) else z3.Or(vs))
    if isinstance(e, ast.Compare) and len(e.ops) == 1:
        a, b = ev(e.left, st), ev(e.comparators[0], st)
        if a[0] == "int" and isinstance(e.comparators[0], ast.Constant) and isinstance(e.comparators[0].value, int):
            c = e.comparators[0].value
            return ("bool", {ast.Eq: a[1] == c, ast.NotEq: a[1] != c}.get(type(e.ops[0]), fresh("nd", z3.BoolSort())))
        return ("bool", fresh("nd", z3.BoolSort()))
    if isinstance(e, ast.Constant): return ("int", z3.IntVal(e.value)) if isinstance(e.value, int) and not isinstance(e.value, bool) else OPAQUE
    for ch in ast.iter_child_nodes(e):
        if isinstance(ch, ast.expr): ev(ch, st)
    return OPAQUE
def cond(e, st):
    v = ev(e, st)
    if v[0] == "bool": return v[1]
    if v[0] == "stackref": return z3.Length(st.stack) > 0
    return fresh("nd", z3.BoolSort())

def assigned_names(stmts):
    out = set()
    for s in stmts:
        for n in ast.walk(s):
            if isinstance(n, ast.Name) and isinstance(n.ctx, ast.Store): out.add(n.id)
    return out
def touches_stack(stmts):
    return any(is_stack(n) or is_memo(n) for s in stmts for n in ast.walk(s))

def exec_block(stmts, states, ctx):
    for s in stmts:
        nxt = []
        for st in states:
            if st.status != "run": nxt.append(st); continue
            nxt += exec_stmt(s, st, ctx)
        states = nxt
    return states

def exec_stmt(s, st, ctx):
    if isinstance(s, (ast.Pass, ast.Assert)): return [st]
    if isinstance(s, ast.Expr):
        v = ev(s.value, st)
        if v == ("call_orig",): return inline_orig(st, ctx)
        return [st]
    if isinstance(s, ast.Return):
        if s.value is not None:
            v = ev(s.value, st)
            if v == ("call_orig",): return inline_orig(st, ctx)
        if st.status == "run": st.status = "ret"
        return [st]
    if isinstance(s, ast.Raise): st.status = "raise"; return [st]
    if isinstance(s, ast.Break): st.status = "brk"; return [st]
    if isinstance(s, ast.Continue): st.status = "cont"; return [st]
    if isinstance(s, ast.Assign):
        v = ev(s.value, st); t = s.targets[0]
        if isinstance(t, ast.Name): st.env[t.id] = v
        elif isinstance(t, ast.Subscript) and is_memo(t.value):
            k = ev(t.slice, st); kk = k[1] if k[0] == "int" else ARG
            st.pc.append(shape(v) != 0)  # VM accepts PUT/MEMOIZE only with an object on top
            st.memo = z3.Store(st.memo, kk, True)
        elif isinstance(t, ast.Tuple):
            for el in t.elts:
                if isinstance(el, ast.Name): st.env[el.id] = OPAQUE
        return [st]
    if isinstance(s, ast.AugAssign): ev(s.value, st); return [st]
    if isinstance(s, ast.If):
        c = cond(s.test, st); out = []
        for branch, guard in ((s.body, c), (s.orelse, z3.Not(c))):
            b = st.fork(); b.pc.append(guard)
            if sat(b.pc): out += exec_block(branch, [b], ctx)
        return out
    if isinstance(s, ast.For):
        if touches_stack(s.body): raise NotImplementedError("for-loop touching stack")
        for n in assigned_names(s.body) | assigned_names([s.target]) if isinstance(s.target, ast.AST) else set(): st.env[n] = OPAQUE
        return [st]
    if isinstance(s, ast.While): return exec_while(s, st, ctx)
    raise NotImplementedError(type(s).__name__)

def exec_while(s, st, ctx):
    if not touches_stack(s.body) and not touches_stack([s.test]): raise NotImplementedError("while not on stack")
    name = f"{ctx['name']}#loop"
    entry = st.stack
    # inv-init with tail = empty is trivial (entry == entry ++ eps); cut: havoc stack/tail and locals assigned in body
    sh, th = fresh("stack_h", S), fresh("tail_h", S)
    h = st.fork(); h.stack, h.tail, h.entry = sh, th, entry
    h.pc += [entry == z3.Concat(sh, th), NM(th)]
    for n in assigned_names(s.body): h.env[n] = OPAQUE
    c = z3.BoolVal(True) if (isinstance(s.test, ast.Constant) and s.test.value is True) else cond(s.test, h)
    out = []
    # loop exits because test is false -> else-branch
    e = h.fork(); e.pc.append(z3.Not(c)); e.tail = None
    if sat(e.pc): out += exec_block(s.orelse, [e], ctx)
    b = h.fork(); b.pc.append(c)
    for r in exec_block(s.body, [b], ctx):
        if r.status == "brk":
            r.status = "run"; r.pc += nm_rules([r.tail])
            if ctx.get("decomp") is not None:   # ground instance of the (Lean-proved) last-mark-uniqueness rule
                pre, seg = ctx["decomp"]; zero = z3.Unit(z3.IntVal(0))
                pt = r.prev_tail   # the suffix scanned before the mark itself was popped
                r.pc.append(z3.Implies(z3.And(z3.Concat(pre, zero, seg) == z3.Concat(r.stack, zero, pt), NM(seg), NM(pt)),
                                       z3.And(pre == r.stack, seg == pt)))
            r.tail = None; out.append(r)
        elif r.status in ("run", "cont"):   # back edge: inv-keep
            goal = z3.And(entry == z3.Concat(r.stack, r.tail), NM(r.tail))
            OBLIG.append((name + ":inv-keep", r.pc + nm_rules([r.tail]), goal))
        else: out.append(r)     # raise / ret propagate
    return out

def inline_orig(st, ctx):
    f = ctx["orig"]; st2 = st.fork(); saved = st2.env
    st2.env = {}  # new frame; stack_slice is an opaque list
    res = exec_block(f.body, [st2], dict(ctx, orig=None))
    for r in res:
        if r.status == "ret": r.status = "ret"
        r.env = saved
    return res

def seq_terms(exprs):
    seen, out, todo = set(), [], list(exprs)
    while todo:
        t = todo.pop()
        if t.get_id() in seen: continue
        seen.add(t.get_id()); todo += t.children()
        if z3.is_app(t) and t.sort() == S and t.decl().kind() in (z3.Z3_OP_SEQ_CONCAT, z3.Z3_OP_SEQ_UNIT): out.append(t)
    return out

INFO = {o.name: o for o in pickletools.opcodes}
def find_run(cls):
    for k in cls.__mro__:
        if (k.__name__, "run") in FUNCS: return k.__name__, FUNCS[(k.__name__, "run")]
    raise KeyError(cls)

def check_opcode(name, cls):
    o = INFO[name]; before = [t.name for t in o.stack_before]; after = [t.name for t in o.stack_after]
    base = z3.Const("base", S); memo0 = z3.Const("memo0", z3.ArraySort(z3.IntSort(), z3.BoolSort()))
    pc = []
    if "mark" in before:
        i = before.index("mark"); k = i; minlen = sum(1 for a in before[i + 1:] if a != "stackslice")
        seg = z3.Const("seg", S); pc += [NM(seg), z3.Length(seg) >= minlen]
        pre = z3.Concat(base, *[z3.Unit(z3.IntVal(1))] * k) if k else base
        entry = z3.Concat(pre, z3.Unit(z3.IntVal(0)), seg); decomp = (pre, seg)
    else:
        tops = [z3.Int(f"top{j}") for j in range(len(before))]
        for t in tops:
            pc.append(z3.Or(t == 0, t == 1))
            if name != "POP": pc.append(t != 0)
        entry = z3.Concat(base, *[z3.Unit(t) for t in tops]) if tops else base; decomp = None
    expected = z3.Concat(base, *[z3.Unit(z3.IntVal(0 if a == "mark" else 1)) for a in after]) if after else base
    exp_memo = z3.Store(memo0, ARG, True) if "PUT" in name else z3.Store(memo0, CARD(memo0), True) if name == "MEMOIZE" else memo0
    owner, fn = find_run(cls)
    wrapped = cls.run.__name__ == "run_wrapper"
    ctx = {"name": f"fickle.{cls.__name__}.run", "orig": fn if wrapped else None, "decomp": decomp}
    body = FUNCS[("StackSliceOpcode", "run_wrapper")].body if wrapped else fn.body
    st = St(entry, memo0, pc, {})
    n0 = len(OBLIG); paths = exec_block(body, [st], ctx); normal = [p for p in paths if p.status in ("run", "ret")]
    for j, p in enumerate(normal):
        goal = z3.And(p.stack == expected, p.memo == exp_memo)
        OBLIG.append((f"{ctx['name']}:post:R09#{j}", p.pc, goal))
    return owner, len(paths), len(normal), len(OBLIG) - n0

def discharge(name, hyps, goal):
    s = z3.Solver(); s.set("timeout", 10000)
    rules = nm_rules(seq_terms(list(hyps) + [goal]))
    s.add(hyps); s.add(rules); s.add(z3.Not(goal)); t = time.time(); r = s.check()
    return r, time.time() - t, (s.model() if r == z3.sat else None)

if __name__ == "__main__":
    t0 = time.time(); rows = []; unsupported = []
    for name, cls in sorted(fk.OPCODES_BY_NAME.items()):
        try: rows.append((name,) + check_opcode(name, cls))
        except NotImplementedError as e: unsupported.append((name, str(e)))
    gen = time.time() - t0
    res = [(n,) + discharge(n, h, g) for n, h, g in OBLIG]
    bad = [(n, str(r)) for n, r, t, m in res if r != z3.unsat]
    print(f"classes={len(rows)} unsupported={unsupported}")
    print(f"obligations={len(res)} unsat={sum(1 for x in res if x[1]==z3.unsat)} not-unsat={bad}")
    print(f"normal-exit paths={sum(r[3] for r in rows)} zero-normal-path classes={[r[0] for r in rows if r[3]==0]}")
    print(f"gen {gen:.2f}s solve total {sum(x[2] for x in res):.2f}s max {max(x[2] for x in res):.3f}s")
    for n, r, t, m in res:
        if r == z3.sat: print("MODEL", n, {str(d): m[d] for d in m.decls() if str(d) in ("base", "seg", "top0", "top1", "top2")})
