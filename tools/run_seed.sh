#!/bin/bash
# usage: run_seed.sh <seed-name> <PROPERTY-ID>...   apply /verif/seeded/<name>/patch.diff to a scratch copy of /repo's HEAD (outside /repo and
# /verif, removed afterwards), run the quick checks against it (VERIF_REPO), report
name="$1"; shift
d=$(mktemp -d /tmp/seedrun_XXXXXX)
trap 'rm -rf "$d"' EXIT
git -C /repo archive HEAD fickling | tar -x -C "$d" || exit 2
(cd "$d" && patch -p1 -s < /verif/seeded/$name/patch.diff) || { echo "patch does not apply"; exit 2; }
for pid in "$@"; do
  (cd /verif && VERIF_REPO="$d" VERIF_EVIDENCE_DIR="$d/evidence" VERIF_REPLAY_DIR=/tmp/seed_replays ./check $pid --tier quick | grep -v "^INFO\|^NOTE" | cut -c1-260 | tail -4; echo "exit=${PIPESTATUS[0]}")
done
