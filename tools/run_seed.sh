#!/bin/bash
# usage: run_seed.sh <seed-name> <PROPERTY-ID>...   apply /verif/seeded/<name>/patch.diff to /repo, run the checks, undo
name="$1"; shift
cd /repo && git apply /verif/seeded/$name/patch.diff || { echo "patch does not apply"; exit 2; }
for pid in "$@"; do
  (cd /verif && VERIF_EVIDENCE_DIR=/tmp/seed_evidence VERIF_REPLAY_DIR=/tmp/seed_replays ./check $pid --tier quick | grep -v "^INFO" | cut -c1-260 | tail -4; echo "exit=${PIPESTATUS[0]}")
done
cd /repo && git checkout -- . && git status --short | head -3
