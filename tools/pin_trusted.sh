#!/bin/bash
# Re-pin the bodies of the /repo functions whose contracts are marked `trusted` (trusted_bodies.json), after auditing a changed body.
# Maintenance only: no registered command sets VERIF_PIN_TRUSTED.   usage: tools/pin_trusted.sh [ID ...]
cd "$(dirname "$0")/.."
ids="$@"; [ -z "$ids" ] && ids="C01 C02 C03 C04 C05 C06 C07 C08 C09 C10 C11 C12 C13 C14 C15 C16 C17 C18 C19"
for id in $ids; do
  VERIF_PIN_TRUSTED=1 VERIF_EVIDENCE_DIR=$(mktemp -d /tmp/pin_XXXX) VERIF_C01_BOUNDED=0 ./check $id > /dev/null 2>&1; echo "$id pinned (exit $?)"
done
python3 -c "import json;print(len(json.load(open('trusted_bodies.json'))),'bodies pinned')"
rm -rf /tmp/pin_*
