#!/bin/bash
# usage: tools_mut.sh <sed-expr> <file-relative-to-fickling> -- <command...>   : run a command against a scratch copy of the repo with one edit
set -e
expr="$1"; file="$2"; shift 3
d=$(mktemp -d /tmp/mutXXXX); cp -r /repo/fickling $d/
sed -i "$expr" $d/fickling/$file
if diff -q /repo/fickling/$file $d/fickling/$file >/dev/null; then echo "MUTATION DID NOT APPLY"; rm -rf $d; exit 9; fi
VERIF_REPO=$d "$@" || true
rm -rf $d
