#!/bin/bash
# usage: confirm_seed.sh <worktree> <PROPERTY-ID> <seed-name>
# confirms, in the scratch worktree: tests pass with the change; demo fails with it and passes without; then stores it under /verif/seeded/
wt="$1"; pid="$2"; name="$3"; out=/verif/seeded/$name
set -u
cd "$wt" || exit 2
git diff -- fickling > /tmp/seed_$name.diff
if [ ! -s /tmp/seed_$name.diff ]; then echo "no change applied in $wt"; exit 2; fi
export PYTHONPATH="$wt"
tests=$(timeout 1500 /venv/bin/python -m pytest -q -p no:cacheprovider --timeout=900 --continue-on-collection-errors 2>&1 | tail -1)
/venv/bin/python SEEDED/demo.py > /tmp/seed_$name.with.log 2>&1; with=$?
git apply -R /tmp/seed_$name.diff
/venv/bin/python SEEDED/demo.py > /tmp/seed_$name.without.log 2>&1; without=$?
git apply /tmp/seed_$name.diff
mkdir -p "$out"
cp /tmp/seed_$name.diff "$out/patch.diff"; cp SEEDED/demo.py "$out/demo.py"
python3 - <<PY
import json
try: meta=json.load(open("$wt/SEEDED/meta.json"))
except Exception: meta={}
meta.update({"property":"$pid","confirmed":{"tests_with_change":"""$tests""","demo_exit_with_change":$with,"demo_exit_without_change":$without},
 "what_i_ran":"pytest (baseline command) with PYTHONPATH=<worktree>; SEEDED/demo.py with the change and after git apply -R"})
json.dump(meta,open("$out/meta.json","w"),indent=1)
print("$name", "tests:", """$tests""", "demo with:", $with, "without:", $without)
PY
