#!/usr/bin/env python3
"""debug aid: tools/explain.py <prop module, e.g. c08> <function key> [obligation substring]  — verifies one function serially and, for every
obligation that is not proved, prints which leaf conjuncts of the goal are false in the solver's counter-model"""
import importlib
import os
import sys
sys.path.insert(0, os.path.dirname(os.path.dirname(os.path.abspath(__file__))))
os.environ["VERIF_SERIAL"] = "1"
import z3  # noqa: E402
from props.common import Run  # noqa: E402
from pyvc.solve import discharge  # noqa: E402

mod = importlib.import_module("props." + sys.argv[1])
key = sys.argv[2]
flt = sys.argv[3] if len(sys.argv) > 3 else ""
run = Run(sys.argv[1].upper(), sidecars=mod.SIDE)
if hasattr(mod, "prepare"):
    mod.prepare(run)
eng = run.eng
r = eng.verify(key)
obs = [o for o in r.obligations if flt in o.name]
discharge(obs, eng.rules, extra_axioms=eng.background)


def leaves(t, depth=0):
    if z3.is_app(t) and t.decl().kind() in (z3.Z3_OP_AND, z3.Z3_OP_OR) and depth < 6:
        out = []
        for c in t.children():
            out += leaves(c, depth + 1)
        return out
    return [t]


for o in obs:
    if o.result["verdict"] == "unsat":
        continue
    print("==", o.name, o.result["verdict"], "|", o.meta.get("clause"))
    print("   trail", [f"{l}={b}" for l, b in o.meta.get("trail", [])][-8:])
    g = o.goal
    hy = list(o.hyps) + list(eng.background or [])
    inst = eng.rules.instances(hy + [g])
    s = z3.Solver()
    s.set("timeout", 60000)
    s.add(*hy)
    s.add(*inst)
    s.add(z3.Not(g))
    res = s.check()
    print("   whole:", res)
    if res == z3.sat:
        m = s.model()
        body = g.arg(1) if z3.is_app(g) and g.decl().kind() == z3.Z3_OP_IMPLIES else g
        for c in leaves(body):
            if not z3.is_true(m.eval(c, model_completion=True)):
                print("   FALSE:", str(c)[:int(os.environ.get("N", "500"))].replace("\n", " "))
