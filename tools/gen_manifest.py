#!/usr/bin/env python3
"""Regenerate MANIFEST.json from the table below (single source of truth for claimed checks)."""
import json
import os

ROOT = os.path.dirname(os.path.dirname(os.path.abspath(__file__)))
PROPS = [json.loads(l)["id"] for l in open(os.path.join(ROOT, "properties.jsonl"))]

TECH_EFFECTS = ("contract-based verification of effects clauses: per-function effect clauses inferred from the working tree's AST and checked "
                "caller-against-callee (closed world), bounded audit-hook replay as companion")
TECH = "contract-based deductive verification: sidecar pre/postconditions, frames and loop invariants on the real functions, VCs generated from the working tree's AST by pyvc and discharged by z3 (cvc5 for z3-unknown)"

CHECKS = {
    "C10": dict(
        text="Proof: the six Severity operators are verified against the documented ranking for every pair of members (finite, exhaustive); "
             "AnalysisResults.severity is verified to be the maximum finding severity and LIKELY_SAFE exactly when there are no findings "
             "(unbounded number of findings, lazy-instantiated universal); is_likely_safe, loader.load and to_dict are verified to be functions "
             "of that severity. Callers are checked against callee contracts only.",
        note="Trusted: models of open/json.dump/pickle.loads and the stream protocol; Pickled.load/dumps contracts are assumed here and verified "
             "under C06/C14; the CLI exit-status clause is verified under the cli.main contract when listed in evidence.functions_under_contract; "
             "that two separate runs over the same bytes give the same severity is C13. CLI face: cli.main is verified path by path (argparse "
             "modelled): every stacked pickle analysed exactly once into the report, was_safe accumulates 'severity is LIKELY_SAFE', the loop is "
             "never left early, exit status 0 iff was_safe; bounded companion replay/cli_diff.py compares exit status and JSON severities.",
        ref="§C10"),
    "C02": dict(
        text="Proof: loader.load is symbolically executed path by path against the statement: pickle.loads is reached only on paths whose "
             "condition entails rank(severity) <= rank(threshold) (through Severity.__le__'s verified contract); the byte string executed is "
             "term-equal to dumps() of the very object that was parsed and analysed, which equals the first pickle of the stream as parsed; "
             "every raising path before that point has no unpickle event; UnsafeFileError carries to_dict() of the same results. The three "
             "arming ways are lemma programs over the hook/context contracts showing pickle.load *is* loader.load with the default threshold. "
             "All six thresholds are one symbolic parameter; streams are arbitrary.",
        note="Trusted: pickle.loads is the stock unpickler (uninterpreted UNPICKLE); Pickled.load/dumps contracts are verified under C06; "
             "precondition pickle.loads is the stock function (under the ML environment it is the allowlist unpickler, C07); exceptions from "
             "resource exhaustion are not modelled. Bounded companions (never counted as proved): replay/load_diff.py (inputs x three stream "
             "kinds incl. one that changes after the first pass x six thresholds x three arming ways, audit events and a sink) and "
             "replay/hook_diff.py for the arming clause.",
        ref="§C02"),
    "C12": dict(
        text="Proof: run_hook / always_check_safety / activate_safe_ml_environment / remove_hook / FicklingContextManager.__init__, __enter__, "
             "__exit__ / context.check_safety are verified against state-transformer contracts over the four pickle-module bindings with "
             "exact frames; lifecycle lemmas L1-L3 are lemma programs executed symbolically over those contracts only (api_ops abstracts any "
             "operation sequence by the union of the verified frames), so they hold for histories of any length and nesting depth.",
        note="Trusted: import-time facts of fickling.hook are read from the live import; reading of 'protection in force' and of "
             "'enter context' as construct+enter is stated in DESIGN C12; what the dispatched loaders do is C02/C07. Names re-bound through "
             "`global` are module fields (frame-checked). Bounded companion replay/hook_diff.py: every operation sequence up to length 4 and "
             "3000 random ones up to length 9 against the statement's state machine, with flagged / plain / addition probes.",
        ref="§C12"),
    "C09": dict(
        text="Proof: every opcode class's run (61 classes; the StackSliceOpcode wrapper and the wrapped runs separately, modularly) is verified "
             "against a contract instantiated from pickletools' stack_before/stack_after and the 4-line memo table: for every symbolic stack "
             "(any depth, any mark positions) and memo, a normal exit leaves the stack shape and memo key set the VM's effect prescribes. "
             "Mark-scanning loops are cut at the invariant entry == stack ++ tail, NM(tail); Interpreter.step/run/to_ast and Trace.run are "
             "verified against frame contracts, Trace.run additionally against passivity obligations (writes only objects it allocated, one "
             "step() and one on_opcode(that opcode) per iteration, returns to_ast()).",
        note="Trusted: pickletools' table is the VM's stack effect (flat-stack reading); ownership assumption private(...) backed by syntactic "
             "encapsulation obligations; ground instances of the sequence rule library (Lean-proved); refutations are replayed by stepping "
             "pickle._Unpickler and fickling side by side (replay/shape_diff.py); per-opcode obligations are the inductive step over program prefixes. replay/shape_diff.py is also a bounded part of the quick tier (it runs whether or not a proof obligation fails).",
        ref="§C09"),
    "C03": dict(
        text="Proof: for every opcode class, the run is verified (for every symbolic stack, memo and module body) against 'module_body only "
             "grows, and every event the VM step performs (S3: import / call / build / persistent_load, with the operand nodes themselves as "
             "callee and arguments) is anchored by one of the statements this step appended'; Interpreter.step is verified to assemble the "
             "module from the whole body; refusal: do-nothing runs are allowed only for nil-effect opcodes and Opcode.__new__ raises for names "
             "it does not know. The induction over programs is the per-opcode step (append-only body makes it inductive).",
        note="Trusted: S3 event table (written from pickletools docs / the statement); node identity stands for 'same callee and arguments' "
             "(value correspondence is C05); builtins aliases owe no import; name capture by a later identical identifier is outside the "
             "per-opcode obligation (DESIGN C03); refutations are replayed with replay/event_diff.py (reference VM under inert stubs). replay/event_diff.py is also a bounded part of the quick tier (it runs whether or not a proof obligation fails).",
        ref="§C03"),
    "C14": dict(
        text="Proof: class invariant of Pickled (opcode list private; _ast empty or INTERP(opcode sequence); _properties empty or the "
             "properties of that _ast) is verified after __init__ and every own method; every method that mutates the opcode list is verified "
             "to clear both caches; the MutableSequence mix-ins (append, extend, pop, remove, reverse, clear, __iadd__, index), read from the "
             "interpreter's _collections_abc.py, are verified to reach the list only through the three primitives and so keep the invariant "
             "(unbounded loops by invariant); dumps()/dump() are verified to be the concatenation of the opcodes' data in order; a scan "
             "obligation shows nothing outside the class writes these fields. Histories of any length follow by induction on operations.",
        note="Trusted: INTERP/ASTProperties abstract (determinism is C13); opcode objects immutable once in a Pickled; slice-valued indices "
             "outside the verified signature; injection helpers are covered under C08; refutations are replayed by replay/edits_diff.py. replay/edits_diff.py is also a bounded part of the quick tier (it runs whether or not a proof obligation fails).",
        ref="§C14"),
    "C13": dict(
        text="Proof, three families of obligations: (a) frames — every read-only query (Pickled.ast/properties/has_*/dumps/import summaries, "
             "check_safety, Analyzer, each analysis, AnalysisResults, Trace.run, every opcode run against the generic frame) is verified to write "
             "only the two caches, objects it allocated, node-owned lists and line numbers — never the opcode list, the opcode objects or "
             "anything an earlier answer came from — so each query is a function of the opcode sequence whatever was asked before; "
             "(b) types — at every AST construction, fields consumers iterate hold lists/tuples (not one-shot iterators or bare nodes) and "
             "ast.Constant holds a Python constant; (c) no id()/hash() reaches an output and the one iteration over a set only keys a dict; "
             "(d) no state outlives a query: every `global` re-binding, mutation of a module / class level object and memoising decorator in "
             "fickle / analysis / tracing is an obligation (import-time registration sites are named), and the registered analyses and the "
             "default Analyzer hold no per-query fields.",
        note="The cross-process clause is argued from (a)-(c), observed only by the bounded companion replay/determinism_diff.py (two processes, "
             "different PYTHONHASHSEED, programs asked in the opposite order); Interpreter.unused_assignments is under a trusted contract "
             "(body pinned in trusted_bodies.json); FROZENSET is a recorded known finding. replay/determinism_diff.py (two processes) is also a bounded part of the quick tier (it runs whether or not a proof obligation fails).",
        ref="§C13"),
    "C19": dict(
        text="Proof: each of the nine analyses is symbolically executed under the precondition 'the pickle decompiled (its AST is built and "
             "well-typed)' against a contract with an empty raises clause — every indexing, split, dict lookup and attribute access on every path "
             "is shown not to raise; every yield is shown to be an AnalysisResult whose trigger is JSON-serialisable; shorten_code, "
             "AnalysisContext.analyze, Analyzer.analyze, AnalysisResults.severity/to_dict/detailed_results and check_safety are verified; "
             "that the UnsafeFileError carries the same report is C02's obligation.",
        note="Trusted: the typed view of the AST (ImportFrom.module / alias.name are str, import and call summaries are lists) as the meaning "
             "of 'decompiles'; totality is modulo resource exhaustion; Interpreter.unused_assignments under a trusted contract; decompilation "
             "is deterministic (DECOMPILES ghost predicate, C13). replay/total_diff.py is also a bounded part of the quick tier (it runs whether or not a proof obligation fails).",
        ref="§C19"),
    "C06": dict(
        text="Proof: Pickled.load's loop over pickletools.genops is verified against the invariant 'the stream stands where genops left it; every "
             "opcode but the last holds exactly its slice of the input; the last is complete or waits for its bytes', for inputs of any length "
             "and any opcode mix; the genops resumption condition (stream position restored) is an obligation at every back edge; post: every "
             "opcode's data is its slice, the stream ends just after STOP, content untouched. dumps()/dump() are verified to be the "
             "concatenation of the data; make_stream per argument kind; StackedPickle.load with ghost start positions: consecutive, strictly "
             "increasing, each element re-serialising to its slice.",
        note="Trusted: assumed contract of pickletools.genops and of the stream protocol; Opcode(info=...) constructor; ASCII opcode codes; the "
             "composition per-opcode-slices => dumps == first pickle uses the telescoping lemma (Lean). Known finding: non-seekable input "
             "streams are drained. Refutations are replayed by replay/parse_diff.py. replay/parse_diff.py is also a bounded part of the quick tier (it runs whether or not a proof obligation fails).",
        ref="§C06"),
    "C15": dict(
        text="Proof: the real ConstantOpcode.new, every validate / encode / encode_opcode / encode_length / encode_body and raw_unicode_escape "
             "are symbolically executed in place under lemma programs: roundtrip(obj) = ConstantOpcode.new(obj) then encode(), per kind of obj "
             "(all ints, all bools, floats, all strs, all bytes), create_unicode(text) = what `fickling --create` builds, and enc_<Class>(arg) for "
             "every opcode class with an argument of the type its pickletools descriptor reads. Postcondition (S7, the reader's side): the bytes "
             "start with the class's opcode byte, the reader consumes exactly these bytes, and reads back the same value of the same kind — or "
             "the path raises one of the refusal exceptions. Priority order of validators comes from the live class table.",
        note="Trusted: S7 (written from pickletools' descriptors); little-endian struct codecs, utf-8 / latin-1 / raw-unicode-escape / decimal "
             "text as uninterpreted functions with inverse laws L1-L5 (ground instances); pickle's protocol-0 escape chain followed by "
             "raw-unicode-escape decodes back (L5). Bounded companion (labelled bounded, not proof): nested lists/dicts, insert_python framing, "
             "the CLI, GLOBAL/INST via replay/const_diff.py. Known findings: String, ShortBinString/BinString, Long1/Long4 encoders (direct "
             "construction only).",
        ref="§C15"),
    "C01": dict(
        text="Effects clauses, checked function by function: for each of the ~190 functions reachable from the analysis entry points (parse, stacked "
             "parse, decompile, trace, safety check, likely-safe query, cli.main; every opcode run, every analysis, properties, dunder methods) the "
             "clause 'own primitive effects ∪ callees' clauses' is recomputed from the working tree with closed-world call resolution, and every "
             "primitive effect site is an obligation: its row must be one the statement allows (read/seek of the given stream, stdout/stderr, "
             "the caller's / command-line paths, stdlib_list's package data). No import, attribute resolution, call, exec/compile, unpickling, "
             "spawn, connection, computed-path open or codec lookup under a computed name is reachable, on any path, for any input. No SMT is "
             "involved (obligations are syntactic).",
        note="Trusted: effect rows of externals; closed-world method resolution (over-approximate); import-time code and C extensions are outside. "
             "Unclassifiable sites (computed callee, external without a row) are weak obligations: violation only if replay/inert_diff.py (audit hook, "
             "sentinel globals, 9 entry points, ~760 inputs; bounded) shows the effect, else undecided (exit 2).",
        ref="§C01", tech=TECH_EFFECTS),
    "C11": dict(
        text="Proof by frames: FicklingMLUnpickler.__init__ is verified to write only its own instance and objects it allocated — the per-module "
             "tables it adds the user's entries to are shown to be its own copies (comprehension model: one new dict per key; loop invariant "
             "'every table of self.allowlist was allocated by this call') — so ML_ALLOWLIST and its tables, which the static MLAllowlist analysis "
             "reads, are never written, for any additions; find_class and the closures write nothing; each installed closure is verified to build "
             "one unpickler per call from the additions captured by that activation; activation / deactivation write only the four pickle "
             "bindings (C12); a scan shows ml.py / hook.py hold no other module- or class-level state. Hence what a load permits at any moment "
             "depends only on the import-time ML_ALLOWLIST and the additions of the closure in force, for histories of any length.",
        note="Not proved: that the permitted set is exactly built-in + additions (functional meaning of the also_allow loop) — bounded companion "
             "replay/allow_diff.py (sequences <= 8 operations). Trusted: pickle.Unpickler.__init__/load C code; the closure captures the caller's "
             "list object (later in-place edits by the caller change the additions in force).",
        ref="§C11"),
    "C07": dict(
        text="Proof for fickling's own code: find_class is verified to reach the stock resolution only on paths whose condition entails 'module "
             "in the unpickler's allowlist and name in that module's table', to resolve exactly the requested global, and to raise the "
             "unsafe-file error before anything is resolved otherwise; each of the four hooked names is verified to dispatch to a closure that "
             "builds a FicklingMLUnpickler with the activation's additions and runs its load — never the stock loaders.",
        note="Nested unpicklings are mediated only if the allow-listed callable unpickles through the four rebound names at call time; that is a "
             "fact about third-party code no contract on /repo can establish: bounded companion replay/nested_diff.py (depth 0..3, bare / legacy / "
             "zip payloads, pickle.loads and torch.storage._load_from_bytes). Known finding: PyTorch containers nested through "
             "torch.storage._load_from_bytes are not mediated. Trusted: CPython's Unpickler.load resolves every global through self.find_class.",
        ref="§C07"),
    "C05": dict(
        text="Proof per data-building opcode, for every symbolic stack and memo: the real run() pushes - or updates in place - the display node "
             "whose Python meaning is what the VM builds from the same operands (children are the operand nodes in VM order, key / value pairing "
             "by EVENS / ODDS with loop invariants for DICT and SETITEMS, constants hold the argument), in-place opcodes return the very node "
             "they were given (APPEND(S), ADDITEMS, SETITEM(S) on displays) and the memo hands back the node it was given (sharing by reference); "
             "node invariant dict_lists_distinct established at EMPTY_DICT / DICT and closed by two source scans.",
        note="Calls, BUILD, imports and persistent loads are C03's anchoring; the meaning of Python displays / assignments and ast.unparse are "
             "trusted. The end-to-end claim (executed source == VM value; plain data == original object, protocols 0-5) is the bounded companion "
             "replay/value_diff.py. One defect repaired (SETITEM(S) lost aliasing), one known finding (FROZENSET source text).",
        ref="§C05"),
    "C04": dict(
        text="Proof of the analysis layer for an arbitrary witness: over the module a pickle decompiles to (what ASTProperties collects, as ghost "
             "functions of the opcode sequence) the real NonStandardImports / UnsafeImportsML / BadCalls / OvertlyBadEvals.analyze are verified "
             "to yield a finding of at least the floor's rank whenever the offending import / call exists at any index (rigid ghost witness, "
             "loop invariants, no bound on the number of nodes); AnalysisContext.analyze is verified to keep every finding; Analyzer.analyze with "
             "the default analyses (order read from the live import) is verified to reach the owning analysis with the de-duplication set in "
             "the state it needs; check_safety and AnalysisResults.severity (maximum) give the verdict floor as a lemma program.",
        note="Layer A (every import / call the VM would perform is anchored in the module) is C03; the glue is trusted: ast.NodeVisitor collects "
             "every node, ast.unparse of a call starts with the callee name, str.rsplit/count enumerate dotted prefixes. The composition over "
             "opcode choice / memo / disposal / framing is the bounded companion replay/floor_diff.py (19.8k programs incl. Python 2 module names "
             "at protocol 0 and 4). 'Standard library' is defined (IS_STD: stdlib_list on the name as written, or a builtin module) and "
             "is_std_module is verified against it. One defect repaired, one known finding (commands -> subprocess under fix_imports).",
        ref="§C04"),
    "C18": dict(
        text="Proof over the real cli.main (argparse modelled from the add_argument calls of the working tree; every path of the function): "
             "an out-of-range --inject-target returns non-zero and no pickle is written or edited; otherwise the pickles come from "
             "stack[:target] and stack[target+1:], each written once, unedited, to the output buffer (per-iteration obligations), the target is "
             "edited exactly once by insert_python_eval(args.inject, run_first=not run_last, use_output_as_unpickle_result=replace_result) "
             "and then written once; in decompilation each Interpreter is built on the loop's pickle with first_variable_id = the previous "
             "one's next_variable_id, result_variable = result<i>, and the variable counter never decreases (monotonicity verified for every "
             "opcode run, step, run, to_ast, Trace.run; new_variable names _var<counter>).",
        note="Composition to 'n pickles, only the target differs' uses Pickled.dump's contract and the injection helper's frame (argued); that "
             "unedited pickles re-serialise to their input bytes and that the stack partitions the file is C06 (which also catches changes of "
             "StackedPickle.load); what the injection does is C08. Bounded companion replay/cli_diff.py (492 command lines) checks the bytes, the "
             "result names and variable reuse end to end.",
        ref="§C18"),
    "C08": dict(
        text="Proof of the structure of the rewritten opcode sequence, for every base pickle and every argument tuple: Pickled.insert (the "
             "primitive), _encode_python_obj (recursive, under its own contract), insert_python_obj, insert_python, append_python and "
             "insert_magic_int are verified to keep every original opcode, in order (kept(new) == kept(old), a ghost filter relative to a rigid "
             "threshold), to insert only new objects none of which is a STOP, to leave the original STOP last, to clear the caches and keep "
             "the class invariant (unbounded loops by invariant).",
        note="What the rewritten bytes do when unpickled (one call with the given arguments, the original effects in order, empty stack at "
             "STOP, promised result, verdict not LIKELY_SAFE) is a property of the pickle VM applied to that structure: bounded companion "
             "replay/inject_diff.py (41 bases x 10 modes, accelerated and pure-Python unpicklers), labelled bounded. "
             "insert_function_call_on_unpickled_object is covered only by the companion; known finding: its exec/eval pair shares no "
             "namespace under the pure-Python unpickler. ConstantOpcode.new is under a trusted contract here (C15 verifies it).",
        ref="§C08"),
    "C17": dict(
        text="Proof of the decision table: identify_pytorch_file_format is executed symbolically over the twelve booleans of the file's properties "
             "and the two sub-check results (all valuations, ~250 paths); for every format the obligation 'reported iff the documented condition "
             "holds' and the documented order of precedence are discharged per path. Read-only-ness: effects clauses of identification and "
             "everything in fickling.polyglot it calls (only read-mode opens, no write / delete / temp file). Polyglot hygiene: the working "
             "copies are created inside a try whose finally removes them (structural obligations).",
        note="Trusted: what find_file_properties / the sub-checks report about a file (torch, zipfile, tarfile, numpy) and that torch's zip reader "
             "needs data.pkl at offset-0 zips. Bounded companion replay/poly_diff.py: zips for all 32 marker subsets x placement x trailing "
             "pickle, real torch files, all ordered pairs as polyglot inputs (inputs unchanged, nothing left behind, output identified as each "
             "combined format). One defect repaired (temp files on exceptional exits); known finding: TorchScript v1.0 row (code also wants constants.pkl).",
        ref="§C17"),
    "C16": dict(
        text="Proof over an abstract zip archive (ordered records with MEMBER bytes; what writestr appends) of the real inject_payload "
             "(injection='insertion'): loop invariant 'the first i members written have the names of the first i input records, each byte-"
             "identical except */data.pkl which is dumps() of the injected pickle' for archives of any size; the input archive is only opened "
             "for reading and the only archive written is output_path; the payload is injected exactly once; the rename onto the input happens "
             "exactly when overwrite is requested, and the only removal is of a leftover output_path.",
        note="Trusted: zipfile's format (the written archive is those members), PyTorchModelWrapper.pickled / formats (C06 / C17), the injection "
             "helper's frame (C08). 'Loading runs the payload once and rebuilds an equal model' is about torch.load and the pickle VM: bounded "
             "companion replay/pt_diff.py (7 object families incl. zero-size tensors and shared storages x 3 payloads x 2 overwrite "
             "settings), labelled bounded.",
        ref="§C16"),
}
NA_REASON = "check not built yet (work in progress; see DESIGN.md)"

m = {
    "version": 1,
    "setup_cmd": "true",
    "hooks": {"guard": "FICKLING_VERIF", "enable": "no source hooks exist: checks read /repo/fickling/*.py from the working tree",
              "baseline_off_cmd": "cd /repo && /venv/bin/python -m pytest -ra -q -p no:cacheprovider --timeout=900 --continue-on-collection-errors",
              "source_commits": [], "add_only": True},
    "engines": [{"name": "pyvc", "path": "pyvc/", "serves_properties": sorted(CHECKS),
                 "kind_free_text": "home-made deductive verifier for a Python subset: ast -> typed z3 terms over a component heap; modular "
                                   "(callee contracts), loops cut at invariants, lazy universals; z3 5.1 python API + cvc5 CLI fallback"}],
    "checks": [],
    "not_applicable": [],
    "notes": "exit codes of ./check: 0 held, 1 violation (VIOLATION line), 2 undecided (never reported as a violation), 3 checker error",
}
for p in PROPS:
    if p in CHECKS:
        c = CHECKS[p]
        m["checks"].append({
            "property_id": p, "quick_cmd": f"./check {p} --tier quick", "thorough_cmd": f"./check {p} --tier thorough",
            "evidence_file": f"evidence/{p}.json", "replay_cmd_template": "cat {path}", "engine": "pyvc",
            "level_claimed": {"category": "proof", "text": c["text"], "design_ref": c["ref"]},
            "level_note": c["note"], "technique": c.get("tech", TECH)})
    else:
        m["not_applicable"].append({"property_id": p, "reason": NA_REASON})
json.dump(m, open(os.path.join(ROOT, "MANIFEST.json"), "w"), indent=1)
print("checks:", [c["property_id"] for c in m["checks"]])


# which check verifies which /repo function (from the evidence files as they are now): used by the checks to account for callee contracts
import glob as _glob
_ver = {}
for _f in sorted(_glob.glob(os.path.join(ROOT, "evidence", "*.json"))):
    try:
        _d = json.load(open(_f))
    except Exception:  # noqa
        continue
    if _d.get("property_id") == "C01":
        continue            # C01's clauses are effects clauses, not the functional contracts call sites apply
    for _fn in _d.get("coverage", {}).get("functions_under_contract", []):
        _ver.setdefault(_fn["function"].split("#")[0].split("@")[0], set()).add(_d["property_id"])
json.dump({k: sorted(v) for k, v in sorted(_ver.items())}, open(os.path.join(ROOT, "verified_by.json"), "w"), indent=0)
