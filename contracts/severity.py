"""Sidecar: analysis.Severity — the six comparison operators against the documented ranking (S8)."""
import z3
from pyvc.sorts import V, Val, vint, vbool, Int, Str
from pyvc.state import static_ref, clsid

# S8: the documented ranking (README / analysis docs).  Hard-coded in the specification on purpose: the code's own
# tuple values are read from the live import and must agree with this order for the proofs to go through.
DOC_ORDER = ["LIKELY_SAFE", "POSSIBLY_UNSAFE", "SUSPICIOUS", "LIKELY_UNSAFE", "LIKELY_OVERTLY_MALICIOUS", "OVERTLY_MALICIOUS"]
SEV = "analysis.Severity"


def sev_ref(name):
    return static_ref(f"enum:{SEV}.{name}")


def register(K):
    K.fieldsof(SEV, value="tuple(int,str)", severity="int", message="str", name="str")
    K.enums[SEV] = list(DOC_ORDER)

    @K.axiom
    def severity_members(eng, st):
        """facts class creation established: each member's `value` tuple, taken from the live import of the working tree"""
        facts = []
        live = {n: v for n, v in eng.repo.live["severity"]}
        if sorted(live) != sorted(DOC_ORDER):
            from pyvc.source import SourceError
            raise SourceError(f"Severity members {sorted(live)} differ from the documented six")
        for n in DOC_ORDER:
            r = z3.IntVal(sev_ref(n))
            val = live[n]["__tuple__"]
            facts.append(st.read("cls", r) == clsid(SEV))
            facts.append(st.read(f"{SEV}.value#0", r, Int) == val[0])
            facts.append(st.read(f"{SEV}.value#1", r, Str) == z3.StringVal(val[1]))
            facts.append(st.read(f"{SEV}.name", r, Str) == z3.StringVal(n))
        return facts

    DOCRANK = z3.Function("DOCRANK", Int, Int)

    @K.axiom
    def docrank_table(eng, st):
        return [DOCRANK(z3.IntVal(sev_ref(n))) == i for i, n in enumerate(DOC_ORDER)]

    @K.spec("doc_rank")
    def doc_rank(eng, st, s):
        """documented rank (S8) of a Severity member: 0..5 by the table above; unspecified for anything else"""
        return vint(DOCRANK(eng.as_ref(s, st)))

    @K.spec("is_sev")
    def is_sev(eng, st, x):
        return vbool(eng.isinstance_cond(x, SEV, st))

    common = dict(params="self: analysis.Severity, other: val", returns="bool", pure=True)
    K.contract("analysis.Severity.__lt__", ensures=["result == (is_sev(other) and doc_rank(self) < doc_rank(other))"], **common)
    K.contract("analysis.Severity.__gt__", ensures=["result == ((not is_sev(other)) or doc_rank(self) > doc_rank(other))"], **common)
    K.contract("analysis.Severity.__eq__", ensures=["result == (is_sev(other) and doc_rank(self) == doc_rank(other))"], **common)
    K.contract("analysis.Severity.__ge__", ensures=["result == ((not is_sev(other)) or doc_rank(self) >= doc_rank(other))"], **common)
    K.contract("analysis.Severity.__le__", ensures=["result == (is_sev(other) and doc_rank(self) <= doc_rank(other))"], **common)
