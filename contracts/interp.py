"""Sidecar: the symbolic interpreter's state classes (Stack, ModuleBody, Interpreter) — contracts the opcode `run`s are checked against."""
import z3
from pyvc.sorts import V, Val, SeqV, Int, Str, vbool, vint, fresh, box
from pyvc.state import clsid, ALLOC0

MARK = "fickle.MarkObject"


def register(K):
    register_opcode_helpers(K)
    register_opcode_infos(K)
    register_global_props(K)
    K.fieldsof("fickle.Stack", _stack="list[val]", opcode="val")
    K.fieldsof("fickle.ModuleBody", _list="list[val]", interpreter="fickle.Interpreter")
    K.fieldsof("fickle.Interpreter", pickled="fickle.Pickled", memory="dict[val,val]", stack="fickle.Stack", module_body="fickle.ModuleBody",
               result_variable="str", _module="val", _var_counter="int", _opcodes="iterator[fickle.Opcode]")
    K.fieldsof("fickle.Opcode", arg="val", pos="val", _data="val", info="pickletools.OpcodeInfo", name="str")
    K.fieldsof("pickletools.OpcodeInfo", name="str", code="str", arg="pickletools.ArgumentDescriptor?", proto="int")
    K.fieldsof("pickletools.ArgumentDescriptor", name="str", n="int")
    K.fieldsof("fickle.Pickled", _opcodes="list[fickle.Opcode]", _ast="val", _properties="val")

    # ---- spec vocabulary -------------------------------------------------------------------------------------------------
    def mark_term(x):
        """x (a Val term) is a MarkObject of the *initial* heap (class tags never change; fresh marks are handled by is_mark)"""
        h0 = z3.Const("H0.cls", z3.ArraySort(Int, Int))
        return z3.And(Val.is_R(x), z3.Select(h0, Val.r(x)) == clsid(MARK))

    def nomark():
        return K._nomark

    class _Private:
        """private(x): no AST node field refers to x (ghost flag list.nodeowned is false)"""
        def __init__(self):
            self.st = None

        def __call__(self, r):
            return z3.Not(z3.Select(self.st.comp("list.nodeowned"), r))
    PRIVATE = _Private()

    @K.spec("private")
    def private(eng, st, x):
        """x is a backing list owned by a Stack / ModuleBody: no AST node field refers to it"""
        PRIVATE.st = st
        return vbool(PRIVATE(eng.as_ref(x, st)))

    @K.spec("wf_interp")
    def wf_interp(eng, st, interp):
        """representation invariant of Interpreter: its stack's and module body's backing lists are private and distinct;
        the memo never holds a MarkObject (the VM cannot memoise a mark)"""
        PRIVATE.st = st
        s = eng.spec_value("i.stack._stack", st, {"i": interp})
        b = eng.spec_value("i.module_body._list", st, {"i": interp})
        m = eng.spec_value("i.memory", st, {"i": interp})
        h0_ = z3.Const("H0.cls", z3.ArraySort(Int, Int))
        not_container = lambda x: z3.And([z3.Select(h0_, Val.r(x)) != clsid(k) for k in ("type", "list", "tuple", "dict", "set")])  # noqa
        memo_ok = eng.rules.forall_pred_array("MEMO_NOMARK", lambda x: z3.And(z3.Not(mark_term(x)), Val.is_R(x), not_container(x)),
                                              z3.ArraySort(Val, Val))
        # stack slots are objects (AST nodes or marks), never class objects: `isinstance(slot, type)` is false
        h0 = z3.Const("H0.cls", z3.ArraySort(Int, Int))
        slots = eng.rules.forall_pred("SLOTS", lambda x: z3.And(Val.is_R(x), not_container(x)))
        return vbool(z3.And(PRIVATE(s.t), PRIVATE(b.t), s.t != b.t, memo_ok(st.read("dict.map", m.t)), slots(st.items(s.t))))

    @K.spec("is_mark")
    def is_mark(eng, st, x):
        return vbool(eng.isinstance_cond(x, MARK, st))

    @K.spec("NM")
    def NM(eng, st, s):
        """no element of the sequence is a MarkObject (uninterpreted + ground rules; elements are objects of the initial heap)"""
        f = eng.rules.forall_pred("NOMARK", lambda x: z3.Not(mark_term(x)))
        return vbool(f(eng.as_seq(s, st)))

    @K.spec("last_mark_unique")
    def last_mark_unique(eng, st, a, m1, b, c, m2, d):
        """ground instance of the Lean-proved rule  a++[m1]++b = c++[m2]++d, m1 m2 marks, NM(b), NM(d)  =>  a = c, b = d, m1 = m2"""
        eng.rules.forall_pred("NOMARK", lambda x: z3.Not(mark_term(x)))
        return vbool(eng.rules.last_split_unique("NOMARK", eng.as_seq(a, st), box(m1), eng.as_seq(b, st), eng.as_seq(c, st), box(m2),
                                                 eng.as_seq(d, st)))

    # ---- Stack -----------------------------------------------------------------------------------------------------------
    K.contract("fickle.Stack.__init__", params="self: fickle.Stack, initial_value: iterable = ()", modifies=["self._stack", "self.opcode"],
               ensures=["fresh_since_entry(self._stack)", "self._stack == seq_of(initial_value)"])
    K.contract("fickle.Stack.__len__", params="self: fickle.Stack", returns="int", pure=True, ensures=["result == len(self._stack)"])
    K.contract("fickle.Stack.__getitem__", params="self: fickle.Stack, i: val", returns="val", pure=True,
               raises={"IndexError": "index_out_of_range(i, len(self._stack))"},
               ensures=["getitem_eq(result, self._stack, i)"])
    K.contract("fickle.Stack.pop", params="self: fickle.Stack", returns="val", allocates=False,
               raises={"IndexError": "len(self._stack) == 0"}, modifies=["self._stack[]"],
               ensures=["old(self._stack) == self._stack + [result]"])
    K.contract("fickle.Stack.push", params="self: fickle.Stack, obj: val", allocates=False, modifies=["self._stack[]"],
               ensures=["self._stack == old(self._stack) + [obj]"])

    @K.spec("seq_of")
    def seq_of(eng, st, v):
        if v.k == "ref" and v.cls == "iterable":
            return V("seq", eng.iter_source(v, st, None)[1])
        if v.k in ("ref", "val") and v.cls and eng.repo.has_class(v.cls):
            # a Stack (or other repo sequence) passed as an iterable: its elements in order
            ft = eng.field_type(v.cls, "_stack")
            r = eng.as_ref(v, st)
            lst = Val.r(st.read(f"{ft[0]}._stack", r, Val))
            return V("seq", st.items(lst))
        return V("seq", eng.as_seq(v, st))

    # ---- ModuleBody ------------------------------------------------------------------------------------------------------
    K.contract("fickle.ModuleBody.__init__", params="self: fickle.ModuleBody, interpreter: fickle.Interpreter",
               modifies=["self._list", "self.interpreter"], ensures=["len(self._list) == 0", "fresh_since_entry(self._list)"])
    K.contract("fickle.ModuleBody.append", params="self: fickle.ModuleBody, stmt: val", allocates=False,
               may_raise=["ValueError"], modifies=["self._list[]", "stmt.lineno"],
               ensures=["self._list == old(self._list) + [stmt]"],
               ensures_raise={"ValueError": ["self._list == old(self._list)"]})
    K.contract("fickle.ModuleBody.__len__", params="self: fickle.ModuleBody", returns="int", pure=True, ensures=["result == len(self._list)"])
    K.contract("fickle.ModuleBody.__getitem__", params="self: fickle.ModuleBody, index: val", returns="val", pure=True,
               raises={"IndexError": "index_out_of_range(index, len(self._list))"}, ensures=["getitem_eq(result, self._list, index)"])
    K.contract("fickle.ModuleBody.__iter__", params="self: fickle.ModuleBody", returns="seq", pure=True, ensures=["result == self._list"])

    # ---- Interpreter -----------------------------------------------------------------------------------------------------
    K.contract("fickle.Interpreter.new_variable", params="self: fickle.Interpreter, value: val, name: str? = None", returns="str",
               may_raise=["ValueError"],
               modifies=["self._var_counter", "self.module_body._list[]"],
               ensures=["len(self.module_body._list) == len(old(self.module_body._list)) + 1",
                        "self.module_body._list[:-1] == old(self.module_body._list)",
                        "is_assign(self.module_body._list[-1], result, value)",
                        "assign_is_fresh(self.module_body._list[-1])",
                        "implies(name is None, result == var_name(old(self._var_counter)) and self._var_counter == old(self._var_counter) + 1)",
                        "implies(name is not None, result == name and self._var_counter == old(self._var_counter))"],
               ensures_raise={"ValueError": ["self.module_body._list == old(self.module_body._list)"]})
    K.contract("fickle.Interpreter.stop", params="self: fickle.Interpreter", modifies=["self._opcodes"], ensures=[])

    @K.spec("var_name")
    def var_name(eng, st, n):
        return V("str", z3.Concat(z3.StringVal("_var"), eng.rules.INT2STR(eng.as_int(n))))

    @K.spec("assign_is_fresh")
    def assign_is_fresh(eng, st, stmt):
        """the Assign node, its targets list and its target Name were allocated by this call (nothing older aliases them)"""
        base = eng.old_state.alloc_ptr() if eng.old_state is not None else st.alloc_ptr()
        r = eng.as_ref(stmt, st)
        targets = st.read("ast.targets", r, Val)
        tl = st.items(Val.r(targets))
        return vbool(z3.And(r >= base, Val.r(targets) >= base, Val.r(tl[0]) >= base))

    @K.spec("is_assign")
    def is_assign(eng, st, stmt, name, value):
        """stmt is `ast.Assign([ast.Name(name, Store)], value)`"""
        r = eng.as_ref(stmt, st)
        tag = st.cls_of(r)
        targets = st.read("ast.targets", r, Val)
        tl = st.items(Val.r(targets))
        t0 = Val.r(tl[0])
        return vbool(z3.And(Val.is_R(stmt.t) if stmt.k == "val" else True, tag == clsid("ast.Assign"),
                            Val.is_R(targets), z3.Length(tl) == 1, Val.is_R(tl[0]), st.cls_of(t0) == clsid("ast.Name"),
                            st.read("ast.id", t0, Val) == box(name),
                            st.read("ast.value", r, Val) == box(value)))


def register_opcode_helpers(K):
    import z3
    from pyvc.sorts import vint, box

    @K.spec("INTOF")
    def intof(eng, st, x):
        return vint(eng.int_of_val(box(x)))
    K.contract("fickle.Get.memo_id", params="self: fickle.Get", returns="int", pure=True, may_raise=["ValueError", "TypeError", "OverflowError"],
               ensures=["result == INTOF(self.arg)"])


def register_global_props(K):
    """GLOBAL / INST argument accessors: pickletools joins module and name with one space; fickling splits on spaces"""
    import z3
    from pyvc.sorts import V, Val, Str, SeqV, vint

    @K.spec("SPLIT_SP")
    def split_sp(eng, st, arg, i):
        f = eng.split_fn("SPLIT")
        s = arg.t if arg.k == "str" else Val.s(arg.t)
        return V("str", Val.s(f(s, z3.StringVal(" "), z3.IntVal(-1))[eng.as_int(i)]))

    @K.spec("SPLIT_LEN")
    def split_len(eng, st, arg):
        f = eng.split_fn("SPLIT")
        s = arg.t if arg.k == "str" else Val.s(arg.t)
        return vint(z3.Length(f(s, z3.StringVal(" "), z3.IntVal(-1))))
    for cls, second in (("fickle.Global", "attr"), ("fickle.Inst", "cls")):
        K.contract(f"{cls}.module", params=f"self: {cls}", returns="str", pure=True, ensures=["result == SPLIT_SP(self.arg, 0)"])
        K.contract(f"{cls}.{second}", params=f"self: {cls}", returns="str", pure=True,
                   raises={"ValueError": "SPLIT_LEN(self.arg) < 2"}, ensures=["result == SPLIT_SP(self.arg, 1)"])


def register_opcode_infos(K):
    """pickletools.opcodes as static objects: each opcode class's `info` (set by Opcode.__init_subclass__) is the pickletools entry of its name;
    the entries' name / code / arg.n come from the live import of the baseline interpreter's pickletools"""
    import z3
    from pyvc.sorts import V, Val, Int, Str, vref
    from pyvc.state import static_ref, clsid

    def info_ref(name):
        return static_ref(f"opcodeinfo:{name}")
    K.info_ref = info_ref

    @K.background
    def opcode_infos(eng, st):
        facts = []
        for name, d in eng.repo.live["pickletools"].items():
            r = z3.IntVal(info_ref(name))
            facts.append(st.read("cls", r) == clsid("pickletools.OpcodeInfo"))
            facts.append(st.read("pickletools.OpcodeInfo.name", r, Str) == z3.StringVal(name))
            facts.append(st.read("pickletools.OpcodeInfo.code", r, Str) == z3.StringVal(d["code"]))
            if d["arg"] is None:
                facts.append(st.read("pickletools.OpcodeInfo.arg", r, Val) == Val.N)
            else:
                a = z3.IntVal(static_ref(f"argdesc:{d['arg']['name']}"))
                facts.append(st.read("pickletools.OpcodeInfo.arg", r, Val) == Val.R(a))
                facts.append(st.read("cls", a) == clsid("pickletools.ArgumentDescriptor"))
                facts.append(st.read("pickletools.ArgumentDescriptor.n", a, Int) == d["arg"]["n"])
        return facts

    def class_info(eng, st, cls):
        name = eng.repo.const(cls, "name", None)
        if name is None:
            return None
        return vref(info_ref(name), cls="pickletools.OpcodeInfo")
    K.class_info = class_info
