"""Sidecar: parsing — Pickled.make_stream / Pickled.load / StackedPickle.load against the assumed contract of pickletools.genops (C06)."""
import z3
from pyvc.sorts import V, Val, VNONE, SeqV, Bytes, Int, Str, Bool, vbool, vint, vref, box, fresh
from pyvc.state import clsid, static_ref

ERRS = ["fickle.PickleDecodeError", "NotImplementedError", "TypeError", "ValueError"]


def register(K):
    register_load(K)
    # ghost functions of one genops run (the specification of pickletools.genops, read from its source; sampled by replay/parse_diff.py):
    #   GP(k)  position of the k-th opcode; GP(GN) = position just after the last opcode yielded
    #   the k-th opcode occupies content[GP(k) : GP(k+1)];  after yielding it the stream is at GP(k+1)
    GP = z3.Function("GENOPS_POS", Int, Int, Int)          # (run id, k)
    GN = z3.Function("GENOPS_COUNT", Int, Int)             # run id -> number of opcodes yielded
    GERR = z3.Function("GENOPS_FAILS", Int, Bool)          # run id -> genops raises ValueError after GN opcodes (truncated / malformed)
    GINFO = z3.Function("GENOPS_INFO", Int, Int, Int)      # (run, k) -> OpcodeInfo object
    GARG = z3.Function("GENOPS_ARG", Int, Int, Val)
    K.genops = dict(GP=GP, GN=GN, GERR=GERR, GINFO=GINFO, GARG=GARG)

    def utf8(eng, t):
        """the single byte of an opcode's code: pickletools gives `code` as a one-character str (the byte decoded as latin-1), and
        Opcode.encode_opcode writes code.encode('latin-1'); (the name is historical: for the ASCII codes the two encodings agree)"""
        s_ = z3.simplify(t)
        if z3.is_string_value(s_):
            from pyvc.sorts import bytes_lit
            try:
                return bytes_lit(s_.as_string().encode("latin-1"))
            except Exception:  # noqa
                pass
        return eng.codec_fn("LATIN1", "enc")(t)

    def item_facts(eng, st, run, k, content):
        """assumed contract of genops for item k of this run"""
        info = GINFO(run, k)
        code = st.read("pickletools.OpcodeInfo.code", info, Str)
        argd = st.read("pickletools.OpcodeInfo.arg", info, Val)
        n = st.read("pickletools.ArgumentDescriptor.n", Val.r(argd), Int)
        p0, p1 = GP(run, k), GP(run, k + 1)
        return [
            info >= 0, info < z3.Int("ALLOC0"), st.cls_of(info) == clsid("pickletools.OpcodeInfo"),
            p0 >= 0, p0 < p1, p1 <= z3.Length(content),
            z3.Length(code) == 1, z3.Length(utf8(eng, code)) == 1,
            z3.SubString(content, p0, 1) == utf8(eng, code),
            z3.Or(Val.is_N(argd), z3.And(Val.is_R(argd), Val.r(argd) >= 0, Val.r(argd) < z3.Int("ALLOC0"),
                                         st.cls_of(Val.r(argd)) == clsid("pickletools.ArgumentDescriptor"))),
            z3.Implies(Val.is_N(argd), p1 == p0 + 1),
            z3.Implies(z3.And(z3.Not(Val.is_N(argd)), n > 0), p1 == p0 + 1 + n),
            z3.Implies(z3.And(z3.Not(Val.is_N(argd)), n <= 0), p1 > p0 + 1),
            z3.Not(Val.is_R(GARG(run, k))),
        ]

    @K.external("pickletools.genops")
    def _genops(eng, st, args, kw, node):
        stream = args[0]
        run = fresh("genops_run")        # every call of genops is its own run (its own ghost position function)
        r = eng.as_ref(stream, st)
        content = st.read("stream.content", r, Bytes)
        pos0 = st.read("stream.position", r, Int)
        st.assume(GP(run, 0) == pos0)
        st.assume(GN(run) >= 0)
        st.log.append(("effect", "read(arg)", "pickletools.genops", getattr(node, "lineno", 0)))
        st.ghost = dict(st.ghost, genops_run=run, genops_stream=r, genops_content=content)
        return [(st, V("iter", xs=("genops", stream, run, content), cls="genops"))]

    def genops_source(eng, v, st, node):
        _, stream, run, content = v.xs
        r = eng.as_ref(stream, st)

        def mk(s, i):
            info = vref(GINFO(run, i), cls="pickletools.OpcodeInfo")
            return V("tuple", xs=[info, V("val", GARG(run, i)), vint(GP(run, i))])

        def start(s, i):
            """next(genops): requires the stream to be where genops left it; reads opcode i; leaves the stream just after it"""
            for k in (i, i - 1):
                for f in item_facts(eng, s, run, k, content):
                    s.assume(z3.Implies(z3.And(k >= 0, k < GN(run)), f))
            pos = s.read("stream.position", r, Int)
            goal = pos == GP(run, i)
            s.write("stream.position", r, GP(run, i + 1), Int)
            return [("genops resumes where it stopped (stream position restored)", goal)]

        def exit_(ex):
            """after GN opcodes: normal end (the last one was STOP) or ValueError (truncated / malformed input)"""
            out = []
            bad = ex.fork()
            bad.pc.append(GERR(run))
            eng.raise_exc(bad, "ValueError")
            out.append(bad)
            ex.pc.append(z3.Not(GERR(run)))
            n = GN(run)
            last = GINFO(run, n - 1)
            ex.assume(n >= 1)
            for f in item_facts(eng, ex, run, n - 1, content):
                ex.assume(f)
            ex.assume(ex.read("pickletools.OpcodeInfo.name", last, Str) == z3.StringVal("STOP"))
            ex.assume(Val.is_N(ex.read("pickletools.OpcodeInfo.arg", last, Val)))
            out.append(ex)
            return out
        return ("seqn", GN(run), None, mk, dict(start=start, exit=exit_))
    K.iter_kinds = getattr(K, "iter_kinds", {})
    K.iter_kinds["genops"] = genops_source

    @K.spec("GP")
    def gp(eng, st, k):
        return vint(GP(st.ghost["genops_run"], eng.as_int(k)))

    @K.spec("GN")
    def gn(eng, st):
        return vint(GN(st.ghost["genops_run"]))

    @K.spec("S")
    def content(eng, st):
        return V("bytes", st.ghost["genops_content"])

    @K.spec("bslice")
    def bslice(eng, st, b, lo, hi):
        lo_, hi_ = eng.as_int(lo), eng.as_int(hi)
        return V("bytes", z3.SubString(b.t, lo_, hi_ - lo_))

    @K.spec("stream_pos")
    def stream_pos(eng, st, s_):
        return vint(st.read("stream.position", eng.as_ref(s_, st), Int))

    @K.spec("stream_content")
    def stream_content(eng, st, s_):
        return V("bytes", st.read("stream.content", eng.as_ref(s_, st), Bytes))

    @K.spec("ref_of")
    def ref_of(eng, st, x):
        return vint(eng.as_ref(x, st))

    @K.spec("utf8")
    def utf8_spec(eng, st, s_):
        return V("bytes", utf8(eng, s_.t))

    @K.spec("latin1")
    def latin1_spec(eng, st, s_):
        return V("bytes", utf8(eng, s_.t))

    # ---- Opcode construction (parse-time dispatcher Opcode.__new__ + Opcode.__init__) ----------------------------------------
    K.contract("fickle.Opcode.__new__",
               params="cls: cls:fickle.Opcode, *args: val, info: pickletools.OpcodeInfo, argument: val = None, data: val = None, position: val = None",
               returns="fickle.Opcode", may_raise=["NotImplementedError", "ValueError", "TypeError"],
               trusted="Opcode(info=..., ...): dispatch through OPCODES_BY_NAME[info.name] and Opcode.__init__ (its **kwargs plumbing is outside the subset); "
                       "the refusal clause is checked structurally in C03",
               ensures=["fresh_since_entry(result)", "result.arg is argument", "result.pos is position", "result._data is data",
                        "result.info is info", "implies(info.arg is None, ENCODED(result) == utf8(info.code))"])

    # ---- make_stream -----------------------------------------------------------------------------------------------------------
    K.contract("fickle.Pickled.make_stream", params="data: val", returns="stream",
               ensures=["made_stream(result, data)"], effects=["read(arg) when not seekable"])

    register_variants(K)

    @K.spec("made_stream")
    def made_stream(eng, st, result, data):
        """bytes -> a fresh stream over them at position 0; a seekable stream -> itself; a non-seekable stream -> a fresh stream over what remains"""
        r = eng.as_ref(result, st)
        o = eng.old_state if eng.old_state is not None else st
        d = box(data)
        is_bytes = Val.is_Y(d)
        dr = Val.r(d)
        is_stream = z3.And(Val.is_R(d), st.cls_of(dr) == clsid("stream"))
        seekable = o.read("stream.is_seekable", dr, Bool)
        base = o.alloc_ptr()
        content_r = st.read("stream.content", r, Bytes)
        pos_r = st.read("stream.position", r, Int)
        return vbool(z3.And(
            st.cls_of(r) == clsid("stream"),
            z3.Implies(z3.Or(is_bytes, z3.And(is_stream, z3.Not(seekable))), st.read("stream.is_seekable", r, Bool)),
            z3.Implies(is_bytes, z3.And(r >= base, content_r == Val.y(d), pos_r == 0)),
            z3.Implies(z3.And(is_stream, seekable), r == dr),
            z3.Implies(z3.And(is_stream, z3.Not(seekable)),
                       z3.And(r >= base, pos_r == 0,
                              content_r == z3.SubString(o.read("stream.content", dr, Bytes), o.read("stream.position", dr, Int),
                                                        z3.Length(o.read("stream.content", dr, Bytes)))))))


def register_load(K):
    INV = [
        # the generator left the stream where the next opcode starts
        "stream_pos(pickled) == GP(_i)",
        "stream_content(pickled) == S()",
        "len(opcodes) == _i",
        # every opcode but the last one has its final bytes: exactly its slice of the input
        "forall('k', _i - 1, 'DATA(opcodes[k]) == bslice(S(), GP(k), GP(k + 1))')",
        "forall('k', _i - 1, 'ref_of(opcodes[k]) < ref_of(opcodes[_i - 1])')",
        "forall('k', _i, 'ref_of(opcodes[k]) >= entry_alloc()')",
        # the last one is either complete or waits for its bytes (filled in from the next opcode's position)
        "implies(_i >= 1, opcodes[_i - 1].pos == GP(_i - 1))",
        "implies(_i >= 1, opcodes[_i - 1]._data is None or DATA(opcodes[_i - 1]) == bslice(S(), GP(_i - 1), GP(_i)))",
        "implies(_i >= 1, opcodes[_i - 1].info is GINFO(_i - 1))",
        "implies(_i >= 1, implies(opcodes[_i - 1].info.arg is None, ENCODED(opcodes[_i - 1]) == utf8(opcodes[_i - 1].info.code)))",
    ]
    K.contract("fickle.Pickled.load", params="pickled: val", returns="fickle.Pickled", requires=["is_bytes_or_stream(pickled)"],
               may_raise=["fickle.EmptyPickleError", "fickle.PickleDecodeError", "NotImplementedError", "ValueError", "TypeError"],
               exact_raises=False, effects=["read(arg)", "seek(arg)"], props=["no-frame"],
               modifies=["@stream.position"],
               ensures=["fresh_since_entry(result)", "fresh_since_entry(result._opcodes)", "inv(result)", "caches_clear(result)",
                        "len(result._opcodes) >= 1"],
               internal=["len(result._opcodes) == GN()", "GN() >= 1",
                         "forall('k', GN(), 'DATA(result._opcodes[k]) == bslice(S(), GP(k), GP(k + 1))')",
                         "parsed_stream_at(GP(GN()))", "GP(0) == entry_stream_pos()"],
               defines=["DUMPS(result) == FIRST_PICKLE_AT_CALL(pickled)", "loaded_prefix(result, pickled)"],
               loops={0: dict(invariant=INV, modifies=["opcodes[]", "@fickle.Opcode._data", "@stream.position"])},
               notes="DUMPS(result) == bytes of the first pickle follows from the per-opcode clause, 'dumps is the concatenation of the opcodes' data' "
                     "(C14) and the telescoping lemma (lemmas/SeqRules.lean); it is exported to callers (C02) as a definitional clause")

    @K.spec("entry_stream_pos")
    def entry_stream_pos(eng, st):
        """position of the parsed stream when genops started = where the caller's data began"""
        g = K.genops
        return vint(g["GP"](st.ghost["genops_run"], z3.IntVal(0)))

    @K.spec("entry_alloc")
    def entry_alloc(eng, st):
        return vint(z3.Int("ALLOC0"))

    @K.spec("GINFO")
    def ginfo(eng, st, k):
        g = K.genops
        return vref(g["GINFO"](st.ghost["genops_run"], eng.as_int(k)), cls="pickletools.OpcodeInfo")

    @K.spec("parsed_stream_at")
    def parsed_stream_at(eng, st, pos):
        """the stream that was parsed (the one genops ran on) is positioned at `pos` and its content is untouched"""
        r = st.ghost["genops_stream"]
        return vbool(z3.And(st.read("stream.position", r, Int) == eng.as_int(pos), st.read("stream.content", r, Bytes) == st.ghost["genops_content"]))

    @K.spec("loaded_prefix")
    def loaded_prefix(eng, st, result, arg):
        """caller-side summary of Pickled.load on a seekable stream: the stream advanced over exactly the bytes dumps() of the result gives
        (per-opcode slices + 'dumps is the concatenation' (C14) + telescoping lemma); content untouched"""
        o = eng.old_state if eng.old_state is not None else st
        d = box(arg)
        dr = Val.r(d)
        is_stream = z3.And(Val.is_R(d), st.cls_of(dr) == clsid("stream"), o.read("stream.is_seekable", dr, Bool))
        p0 = o.read("stream.position", dr, Int)
        p1 = st.read("stream.position", dr, Int)
        content = o.read("stream.content", dr, Bytes)
        dumps = eng.spec_funcs["DUMPS"](eng, st, result).t
        return vbool(z3.Implies(is_stream, z3.And(p1 > p0, p1 <= z3.Length(content), st.read("stream.content", dr, Bytes) == content,
                                                  dumps == z3.SubString(content, p0, p1 - p0))))

    @K.spec("is_bytes_or_stream")
    def is_bytes_or_stream(eng, st, d):
        b = box(d)
        return vbool(z3.Or(Val.is_Y(b), z3.And(Val.is_R(b), st.cls_of(Val.r(b)) == clsid("stream"))))

    @K.spec("entry_pos_of")
    def entry_pos_of(eng, st, s_):
        """where the (made) stream stood when the function was entered: 0 for a fresh stream over bytes, else the stream's own position"""
        o = eng.cur_entry          # the state at *function* entry (old() inside a loop invariant means the loop's entry)
        r = eng.as_ref(s_, st)
        return vint(z3.If(r >= o.alloc_ptr(), 0, o.read("stream.position", r, Int)))

    K.contract("fickle.StackedPickle.load", params="pickled: val", returns="fickle.StackedPickle", requires=["is_bytes_or_stream(pickled)"],
               may_raise=["fickle.PickleDecodeError", "NotImplementedError", "ValueError", "TypeError"], exact_raises=False,
               effects=["read(arg)", "seek(arg)"], props=["no-frame"], modifies=["@stream.position"],
               ensures=["fresh_since_entry(result)", "len(result.pickled) >= 1",
                        "forall('j', len(result.pickled), 'inv(result.pickled[j])')", "private(result.pickled)"],
               internal=["len(starts) == len(result.pickled) + 1",
                        "forall('j', len(result.pickled), 'DUMPS(result.pickled[j]) == bslice(stream_content(the_stream), starts[j], starts[j + 1])')",
                        "forall('j', len(result.pickled), 'starts[j] < starts[j + 1]')",
                        "starts[0] == entry_pos_of(the_stream)"],
               loops={0: dict(ghost_init={"starts": "seq1(stream_pos(pickled))", "the_stream": "pickled"},
                              ghost_step={"starts": "starts + [stream_pos(pickled)]"},
                              invariant=["the_stream is pickled", "is_seekable_stream(pickled)", "len(starts) == len(pickles) + 1",
                                         "stream_content(pickled) == old_stream_content(pickled)",
                                         "starts[len(pickles)] == stream_pos(pickled)",
                                         "forall('j', len(pickles), 'DUMPS(pickles[j]) == bslice(stream_content(pickled), starts[j], starts[j + 1])')",
                                         "forall('j', len(pickles), 'starts[j] < starts[j + 1]')",
                                         "forall('j', len(pickles), 'ref_of(pickles[j]) >= entry_alloc()')",
                                         "forall('j', len(pickles), 'inv(pickles[j])')",
                                         "forall('j', len(pickles), 'ref_of(pickles[j]._opcodes) != ref_of(pickles)')",
                                         "starts[0] == entry_pos_of(pickled)"],
                              modifies=["pickles[]", "@stream.position"])},
               notes="ghost `starts`: the stream positions at which the successive pickles begin")

    @K.spec("is_seekable_stream")
    def is_seekable_stream(eng, st, s_):
        r = eng.as_ref(s_, st)
        return vbool(z3.And(st.cls_of(r) == clsid("stream"), st.read("stream.is_seekable", r, Bool)))

    @K.spec("old_stream_content")
    def old_stream_content(eng, st, s_):
        o = eng.old_state if eng.old_state is not None else st
        return V("bytes", o.read("stream.content", eng.as_ref(s_, st), Bytes))

    # the base encoder, verified for an opcode without argument: one code byte, nothing else
    K.contract("fickle.Opcode.encode_opcode", params="self: fickle.Opcode", returns="bytes", pure=True, ensures=["result == latin1(self.info.code)"],
               trusted="one line: self.info.code.encode('latin-1'); that it cannot raise needs the type invariant of pickletools.OpcodeInfo "
                       "(code is one latin-1 character), an assumption about pickletools")
    K.contract("fickle.Opcode.encode_body", params="self: fickle.Opcode", returns="bytes", pure=True,
               raises={"NotImplementedError": "self.info.arg is not None and self.info.arg.n != 0"}, ensures=["len(result) == 0"])
    import copy
    c = K.contracts["fickle.Opcode.encode"]
    c2 = copy.copy(c)
    c2.qual = "fickle.Opcode.encode#argless"
    c2.variant_of = "fickle.Opcode.encode"
    c2.fn_override = ("fickle", None)
    c2.requires = ["self.info.arg is None"]
    c2.may_raise = []
    c2.ensures = ["result == utf8(self.info.code)"]
    K.contracts[c2.qual] = c2

    K.contract("fickle.StackedPickle.__init__", params="self: fickle.StackedPickle, pickled: iterable", modifies=["self.pickled"],
               ensures=["self.pickled == seq_of(pickled)", "private(self.pickled)", "fresh_since_entry(self.pickled)"])


def register_variants(K):
    """make_stream is verified once per kind of argument (bytes; stream): same function, same postcondition, typed parameter"""
    import copy
    base = K.contracts["fickle.Pickled.make_stream"]
    for ty in ("bytes", "stream"):
        c = copy.copy(base)
        c.qual = f"fickle.Pickled.make_stream#{ty}"
        c.params = [("data", ty, None)]
        c.modifies = ["data.position"] if ty == "stream" else []
        c.fn_override = ("fickle", None)
        c.variant_of = "fickle.Pickled.make_stream"
        K.contracts[c.qual] = c
