"""Sidecar: fickling.pytorch.PyTorchModelWrapper.inject_payload over an abstract zip archive (C16).

A zipfile.ZipFile object opened for reading has ghost `entries` (its ZipInfo records, in archive order) and MEMBER(zip, name) (the bytes of
the member of that name); one opened for writing has ghost `written_names` / `written_data` (what writestr appended, in order)."""
import z3
from pyvc.sorts import V, Val, VNONE, SeqV, Bytes, Str, Bool, Int, vbool, vint, vref, vstr, box, fresh
from pyvc.state import clsid

MEMBER = z3.Function("ZIP_MEMBER", Int, Str, Bytes)


def register(K):
    K.fieldsof("zipfile.ZipFile", path="val", mode="str", entries="list[zipfile.ZipInfo]", written_names="list[val]", written_data="list[val]")
    K.fieldsof("zipfile.ZipInfo", filename="str")
    K.fieldsof("pytorch.PyTorchModelWrapper", path="val", _pickled="val", force="val", _formats="val", output_path="val")
    K.fieldsof("pathlib.Path", raw="val")

    @K.external("zipfile.ZipFile")
    def _zip(eng, st, args, kw, node):
        path = args[0]
        mode = args[1] if len(args) > 1 else kw.get("mode", vstr("r"))
        out = []
        bad = st.fork()
        bad.pc.append(fresh("zip_open_fails", Bool))
        eng.raise_exc(bad, "OSError")
        out.append((bad, None))
        r = st.alloc("zipfile.ZipFile")
        st.write("zipfile.ZipFile.path", r, box(eng.materialize(path, st)), Val)
        st.write("zipfile.ZipFile.mode", r, mode.t, Str)
        for f in ("entries", "written_names", "written_data"):
            lst = st.new_list(z3.Empty(SeqV) if f != "entries" else fresh("zip_entries", SeqV))
            st.write(f"zipfile.ZipFile.{f}", r, Val.R(lst), Val)
        st.log.append(("zip-open", vref(r, cls="zipfile.ZipFile"), path, mode, getattr(node, "lineno", 0)))
        out.append((st, vref(r, cls="zipfile.ZipFile")))
        return out

    @K.external_method("zipfile.ZipFile", "infolist")
    def _infolist(eng, st, recv, args, kw, node):
        ents = eng.spec_value("z.entries", st, {"z": recv})
        lst = st.new_list(st.items(eng.as_ref(ents, st)))
        return [(st, vref(lst, cls="list", elem="zipfile.ZipInfo"))]

    @K.external_method("zipfile.ZipFile", "namelist")
    def _namelist(eng, st, recv, args, kw, node):
        return [(st, vref(st.new_list(fresh("zip_names", SeqV)), cls="list", elem="str"))]

    @K.external_method("zipfile.ZipFile", "open")
    def _zopen(eng, st, recv, args, kw, node):
        """a readable stream over the member's bytes (KeyError for a name the archive does not hold)"""
        from pyvc.eval import Unsupported
        name = args[0]
        mode = args[1] if len(args) > 1 else kw.get("mode")
        if mode is not None and not (mode.k == "str" and z3.is_true(z3.simplify(mode.t == z3.StringVal("r")))):
            raise Unsupported("zipfile.ZipFile.open in a mode other than 'r' is outside the archive model")
        if name.k == "ref" and name.cls == "zipfile.ZipInfo":
            name = eng.spec_value("i_.filename", st, {"i_": name})
        if name.k not in ("str", "val"):
            raise Unsupported(f"zipfile.ZipFile.open of {name!r} is outside the archive model")
        out = []
        bad = st.fork()
        bad.pc.append(fresh("no_such_member", Bool))
        eng.raise_exc(bad, "KeyError")
        out.append((bad, None))
        r = st.alloc("stream")
        nm = name.t if name.k == "str" else Val.s(name.t)
        st.write("stream.content", r, MEMBER(recv.t, nm), Bytes)
        st.write("stream.position", r, z3.IntVal(0), Int)
        st.log.append(("zip-read-member", recv, name, getattr(node, "lineno", 0)))
        out.append((st, vref(r, cls="stream")))
        return out

    @K.external_method("zipfile.ZipFile", "writestr")
    def _writestr(eng, st, recv, args, kw, node):
        name, data = args[0], args[1]
        for f, v in (("written_names", name), ("written_data", data)):
            lst = eng.as_ref(eng.spec_value(f"z.{f}", st, {"z": recv}), st)
            st.set_items(lst, z3.Concat(st.items(lst), z3.Unit(box(eng.materialize(v, st)))))
        st.log.append(("zip-write-member", recv, name, getattr(node, "lineno", 0)))
        return [(st, VNONE)]

    @K.spec("zip_member")
    def zip_member(eng, st, z, name):
        return V("bytes", MEMBER(eng.as_ref(z, st), name.t))

    # ---- pathlib / os --------------------------------------------------------------------------------------------------------------------
    @K.external("pathlib.Path")
    def _path(eng, st, args, kw, node):
        r = st.alloc("pathlib.Path")
        st.write("pathlib.Path.raw", r, box(eng.materialize(args[0], st)), Val)
        return [(st, vref(r, cls="pathlib.Path"))]

    @K.external_method("pathlib.Path", "rename")
    def _rename(eng, st, recv, args, kw, node):
        st.log.append(("fs-rename", st.read("pathlib.Path.raw", recv.t, Val), box(eng.materialize(args[0], st)), getattr(node, "lineno", 0)))
        bad = st.fork()
        bad.pc.append(fresh("rename_fails", Bool))
        eng.raise_exc(bad, "OSError")
        return [(bad, None), (st, recv)]

    @K.external_method("pathlib.Path", "exists")
    def _exists(eng, st, recv, args, kw, node):
        return [(st, vbool(fresh("path_exists", Bool)))]

    @K.external("os.remove")
    def _remove(eng, st, args, kw, node):
        a = args[0]
        raw = st.read("pathlib.Path.raw", a.t, Val) if (a.k == "ref" and a.cls == "pathlib.Path") else box(eng.materialize(a, st))
        st.log.append(("fs-remove", raw, getattr(node, "lineno", 0)))
        return [(st, VNONE)]

    @K.external("warnings.warn")
    def _warn(eng, st, args, kw, node):
        return [(st, VNONE)]

    # ---- what inject_payload calls -------------------------------------------------------------------------------------------------------------
    ERR = ["ValueError", "NotImplementedError", "OSError", "KeyError", "Exception"]
    W = "self: pytorch.PyTorchModelWrapper"
    K.contract("pytorch.PyTorchModelWrapper.formats", params=W, returns="list[str]", may_raise=ERR, exact_raises=False, modifies=["self._formats"],
               ensures=["len(result) >= 1"], trusted="identification of the input file (C17); non-empty or an error (validate_file_format)")
    K.contract("pytorch.PyTorchModelWrapper.pickled", params=W, returns="fickle.Pickled", may_raise=ERR, exact_raises=False,
               modifies=["self._pickled", "self._formats"], ensures=["inv(result)", "result is self._pickled"],
               trusted="parses <root>/data.pkl of the input archive (zip read + Pickled.load, C06); abstracted: a Pickled satisfying its invariant")
    K.contract("fickle.Pickled.insert_python_exec",
               params="self: fickle.Pickled, *args: val, run_first: val = True, use_output_as_unpickle_result: val = False", returns="val",
               requires=["inv(self)"], may_raise=ERR + ["IndexError", "TypeError", "AttributeError", "OverflowError", "struct.error"], exact_raises=False,
               modifies=["self._opcodes[]", "self._ast", "self._properties", "@list.items:nodeowned", "@ast.lineno", "@ast.col_offset", "@iterator.pos"],
               ensures=["inv(self)"], trusted="the injection helper: edits the pickle it is called on (C08)")
    K.contract("fickle.Pickled.dumps", params="self: fickle.Pickled", returns="bytes", pure=True, ensures=["result == DUMPS(self)"])
