"""Sidecar: constant opcodes — validate / encode per class against the decoder specification S7 (C15)."""
import z3
from pyvc.sorts import V, Val, VNONE, SeqV, Bytes, Int, Str, Bool, BV8, vbool, vint, vstr, vbytes, vref, box, fresh, bytes_lit
from pyvc.state import clsid, static_ref

REFUSALS = ["ValueError", "TypeError", "NotImplementedError", "struct.error", "AttributeError", "OverflowError", "UnicodeError"]


LE_U = z3.Function("LE_UNSIGNED", Int, Int, Bytes)       # (n, x): the n-byte little-endian unsigned encoding of x (struct.pack "<B/H/I/Q")
LE_S = z3.Function("LE_SIGNED", Int, Int, Bytes)         # (n, x): n-byte little-endian two's complement (struct.pack "<b/h/i/q")
LEVAL_U = z3.Function("LE_UNSIGNED_VALUE", Int, Bytes, Int)   # what a reader of n little-endian unsigned bytes obtains
LEVAL_S = z3.Function("LE_SIGNED_VALUE", Int, Bytes, Int)


def le_bytes(x, n, signed):
    return (LE_S if signed else LE_U)(z3.IntVal(n), x)


def le_value(b, off, n, signed):
    """decode n little-endian bytes of sequence b starting at off"""
    return (LEVAL_S if signed else LEVAL_U)(z3.IntVal(n), z3.SubString(b, off, n))


def le_laws(t):
    """ground instances for one LE_UNSIGNED / LE_SIGNED term: length, and what either kind of reader obtains from it"""
    nm = t.decl().name()
    n_, x = t.arg(0), t.arg(1)
    if not z3.is_int_value(n_):
        return []
    n = n_.as_long()
    full, half = 256 ** n, 256 ** n // 2
    out = [z3.Length(t) == n]
    if nm == "LE_UNSIGNED":
        out.append(z3.Implies(z3.And(x >= 0, x < full), z3.And(LEVAL_U(n_, t) == x, LEVAL_S(n_, t) == z3.If(x < half, x, x - full))))
    else:
        out.append(z3.Implies(z3.And(x >= -half, x < half), z3.And(LEVAL_S(n_, t) == x, LEVAL_U(n_, t) == z3.If(x >= 0, x, x + full))))
    return out


STRUCT = {"B": (1, False), "b": (1, True), "H": (2, False), "h": (2, True), "I": (4, False), "i": (4, True), "Q": (8, False), "q": (8, True)}


def register(K):
    K.fieldsof("fickle.Opcode", arg="val", pos="val", _data="val", info="pickletools.OpcodeInfo", name="str")
    register_ctor(K)

    # ---- struct.pack: exact little/big-endian integer codecs for a concrete format (trusted row; sampled by replay/const_diff.py) -----
    @K.external("struct.pack")
    def _struct_pack(eng, st, args, kw, node):
        fmt = z3.simplify(args[0].t)
        if not z3.is_string_value(fmt) or len(fmt.as_string()) != 2 or fmt.as_string()[1] not in STRUCT or fmt.as_string()[0] not in "<>":
            raise eng_unsupported(f"struct.pack with a format the model does not know: {fmt}")
        n, signed = STRUCT[fmt.as_string()[1]]
        x = args[1]
        out = []
        if x.k not in ("int", "bool", "val"):
            return [(eng.raise_exc(st, "struct.error"), None)]
        xi = eng.as_int(x)
        lo, hi = (-(256 ** n) // 2, 256 ** n // 2 - 1) if signed else (0, 256 ** n - 1)
        isint = z3.Or(Val.is_I(x.t), Val.is_B(x.t)) if x.k == "val" else z3.BoolVal(True)
        for s, ok in eng.branch(st, z3.And(isint, xi >= lo, xi <= hi), "struct.pack argument in range"):
            if not ok:
                out.append((eng.raise_exc(s, "struct.error"), None))
            else:
                b = le_bytes(xi, n, signed)
                if fmt.as_string()[0] == ">":
                    raise eng_unsupported("big-endian struct.pack")
                out.append((s, V("bytes", b)))
        return out

    # ---- S7: what the disassembler / unpickler reads from the bytes of one opcode (written from pickletools' ArgumentDescriptor docs) ---
    DECIMAL = z3.Function("DECIMAL_VALUE", Bytes, Int)          # int(line) for the ASCII decimal line
    DECIMAL_OK = z3.Function("DECIMAL_OK", Bytes, Bool)         # int(line) succeeds
    STRING_LINE = z3.Function("STRINGNL_VALUE", Bytes, Val)     # what a quoted STRING line decodes to
    STRING_LINE_OK = z3.Function("STRINGNL_OK", Bytes, Bool)    # the line is properly quoted
    LATIN1DEC = z3.Function("LATIN1_DECODE", Bytes, Str)
    UTF8DEC = z3.Function("UTF8_DECODE", Bytes, Str)
    UTF8VALID = z3.Function("UTF8_VALID", Bytes, Bool)
    RUEDEC = z3.Function("RUE_DECODE", Bytes, Str)
    FLOAT8 = z3.Function("FLOAT8_DECODE", Bytes, Int)
    LONGVAL = z3.Function("LONG_LE_VALUE", Bytes, Int)          # little-endian two's complement of a LONG1/LONG4 payload
    NL = bytes_lit(b"\n")
    K.s7 = dict(UTF8DEC=UTF8DEC, DECIMAL=DECIMAL)
    PREFIX = {"SHORT_BINUNICODE": 1, "BINUNICODE": 4, "BINUNICODE8": 8, "SHORT_BINBYTES": 1, "BINBYTES": 4, "BINBYTES8": 8,
              "SHORT_BINSTRING": 1, "BINSTRING": 4, "LONG1": 1, "LONG4": 4, "BYTEARRAY8": 8}
    FIXED = {"BININT1": (1, False), "BININT2": (2, False), "BININT": (4, True), "PROTO": (1, False), "BINPUT": (1, False), "LONG_BINPUT": (4, False),
             "BINGET": (1, False), "LONG_BINGET": (4, False), "EXT1": (1, False), "EXT2": (2, False), "EXT4": (4, True), "FRAME": (8, False)}
    LINES = ("INT", "LONG", "UNICODE", "STRING", "PUT", "GET", "FLOAT", "PERSID")

    def dec(name, b, ARGLESS=None):
        """(well-formed, argument) the disassembler reads for opcode `name` when its complete encoding is b (first byte = opcode byte):
        well-formed means the reader consumes exactly b; the argument is the Val pickletools.genops yields (= what the unpickler pushes
        for the constant opcodes)"""
        n = z3.Length(b)
        if name == "PROTO":
            return n == 2, Val.I(z3.BV2Int(b[1]))
        if name in FIXED:
            k, signed = FIXED[name]
            return n == 1 + k, Val.I(le_value(b, 1, k, signed))
        if name in LINES:
            wf = z3.And(n >= 2, z3.IndexOf(b, NL, 1) == n - 1)          # the first newline is the last byte
            line = z3.SubString(b, 1, n - 2)
            if name == "INT":
                v = z3.If(line == bytes_lit(b"00"), Val.B(False), z3.If(line == bytes_lit(b"01"), Val.B(True), Val.I(DECIMAL(line))))
                return z3.And(wf, DECIMAL_OK(line)), v
            if name in ("LONG", "PUT", "GET"):
                return z3.And(wf, DECIMAL_OK(line)), Val.I(DECIMAL(line))
            if name == "UNICODE":
                return wf, Val.S(RUEDEC(line))
            if name == "STRING":
                return z3.And(wf, STRING_LINE_OK(line)), STRING_LINE(line)
            raise KeyError(name)
        if name in PREFIX:
            k = PREFIX[name]
            signed = name in ("BINSTRING", "LONG4")
            ln = le_value(b, 1, k, signed)
            wf = z3.And(n >= 1 + k, ln >= 0, ln == n - 1 - k)
            payload = z3.SubString(b, 1 + k, n - 1 - k)
            if name.endswith("UNICODE") or name.endswith("UNICODE8"):
                return z3.And(wf, UTF8VALID(payload)), Val.S(UTF8DEC(payload))
            if "BYTES" in name:
                return wf, Val.Y(payload)
            if name in ("SHORT_BINSTRING", "BINSTRING"):
                return wf, Val.S(LATIN1DEC(payload))
            if name in ("LONG1", "LONG4"):
                return wf, Val.I(LONGVAL(payload))
            raise KeyError(name)
        if name == "BINFLOAT":
            return n == 9, Val.F(FLOAT8(z3.SubString(b, 1, 8)))
        if ARGLESS is not None and name in ARGLESS:
            return n == 1, Val.N
        raise KeyError(name)
    K.s7["dec"] = dec

    def per_class(eng, st, op, b):
        r = eng.as_ref(op, st)
        tag = st.cls_of(r)
        pt = eng.repo.live["pickletools"]
        argless = {n_ for n_, i in pt.items() if i["arg"] is None}
        rows = []
        static = op.cls if op.k in ("ref", "val") and op.cls and eng.repo.has_class(op.cls) else None
        subs = set(eng.repo.subclasses(static)) if static else None
        for name, cls in eng.repo.live["OPCODES_BY_NAME"].items():
            if subs is not None and cls not in subs:
                continue        # the dynamic class of a value is a subclass of its static class (closed-world dispatch)
            try:
                wf, d = dec(name, b, argless)
            except KeyError:
                continue
            rows.append((tag == clsid(cls), name, pt[name]["code"].encode("latin-1"), wf, d))
        return rows

    @K.spec("wire_ok")
    def wire_ok(eng, st, op, b, obj):
        """b starts with the class's opcode byte, the reader consumes exactly b, and reads obj back — same value, same kind"""
        conds = []
        known = z3.BoolVal(False)
        for is_cls, name, code, wf, d in per_class(eng, st, op, b.t):
            conds.append(z3.Implies(is_cls, z3.And(z3.Length(b.t) >= 1, z3.SubString(b.t, 0, 1) == bytes_lit(code), wf, d == box(obj))))
            known = z3.Or(known, is_cls)
        # an opcode class S7 has no row for cannot be shown to read back: the clause is then false (and the obligation reports it)
        return vbool(z3.And(known, *conds))

    @K.spec("utf8_valid")
    def utf8_valid(eng, st, y):
        return vbool(UTF8VALID(y.t))

    @K.spec("text_arg")
    def text_arg(eng, st, a):
        """the text a (str, or bytes holding its UTF-8 as fickling's own validators store it) stands for"""
        t = box(a)
        return V("val", z3.If(Val.is_Y(t), Val.S(UTF8DEC(Val.y(t))), t))

    # ---- laws assumed of CPython's codecs, as ground instances on the codec terms of each VC (trusted; sampled by replay/const_diff.py) --
    @K.ground_rules
    def codec_laws(eng):
        codes = sorted({i["code"] for i in eng.repo.live["pickletools"].values()})

        def gen(rules, exprs):
            out, seen = [], set()
            todo = [t for t in rules.subterms(exprs) if z3.is_app(t) and t.decl().kind() == z3.Z3_OP_UNINTERPRETED]
            while todo:
                t = todo.pop()
                if t.get_id() in seen or not z3.is_app(t):
                    continue
                seen.add(t.get_id())
                nm = t.decl().name()
                if nm in ("UTF8", "LATIN1", "ASCII") and t.num_args() == 1:
                    f = t.decl()
                    s_ = t.arg(0)
                    py = {"UTF8": "utf-8", "LATIN1": "latin-1", "ASCII": "ascii"}[nm]
                    if z3.is_string_value(s_):
                        try:
                            out.append(t == bytes_lit(s_.as_string().encode(py)))
                        except UnicodeError:
                            pass
                        continue
                    if z3.is_app(s_) and s_.decl().kind() == z3.Z3_OP_SEQ_CONCAT:
                        parts = []
                        for p_ in s_.children():
                            if z3.is_string_value(p_) and p_.as_string().isascii():
                                parts.append(bytes_lit(p_.as_string().encode("ascii")))
                            else:
                                parts.append(f(p_))
                                todo.append(f(p_))
                        out.append(t == z3.Concat(*parts))          # L1: encoding distributes over concatenation
                    out.append(z3.Length(t) >= z3.Length(s_))
                    if nm == "UTF8":
                        out.append(UTF8VALID(t))                    # L3: decode(encode(s)) = s
                        out.append(UTF8DEC(t) == s_)
                    if nm == "LATIN1":
                        out.append(LATIN1DEC(t) == s_)
                        out.append(z3.Length(t) == z3.Length(s_))
                        if z3.is_app(s_) and s_.decl().kind() == z3.Z3_OP_SELECT:
                            for c in codes:                          # the opcode byte: a literal once the class is known
                                out.append(z3.Implies(s_ == z3.StringVal(c), t == bytes_lit(c.encode("latin-1"))))
                    x = int2str_arg(rules, s_)
                    if x is not None:                                # L4: the decimal text of an int
                        out += [DECIMAL_OK(t), DECIMAL(t) == x, z3.Not(z3.Contains(t, NL)), z3.Length(t) >= 1,
                                t != bytes_lit(b"00"), t != bytes_lit(b"01")]
                elif nm in ("LE_UNSIGNED", "LE_SIGNED"):
                    out += le_laws(t)
                elif nm == "RUE" and t.num_args() == 1:
                    inner = pickle_escape_arg(t.arg(0))
                    if inner is not None:                            # L5: pickle's protocol-0 escaping, then raw-unicode-escape
                        out += [RUEDEC(t) == inner, z3.Not(z3.Contains(t, NL))]
            # L6 (a fact of sequences, not of codecs): in  h ++ X ++ "\n"  with |h| = 1 and no newline in X, the first newline from
            # offset 1 is the last byte and the line between them is X
            cats = [t for t in rules.subterms(list(exprs) + out) if z3.is_app(t) and t.sort() == Bytes and t.decl().kind() == z3.Z3_OP_SEQ_CONCAT]
            done = set()
            for c in cats:
                leaves = flatten_bytes(c, out_eqs=None)
                leaves = expand_leaves(leaves, out)
                if len(leaves) < 2 or not is_bytes_lit_ending_nl(leaves[-1]):
                    continue
                key = tuple(x.get_id() for x in leaves)
                if (c.get_id(), key) in done:
                    continue
                done.add((c.get_id(), key))
                h = leaves[0]
                mid = leaves[1:-1]
                last = lit_bytes(leaves[-1])
                if len(last) > 1:
                    mid = mid + [bytes_lit(last[:-1])]
                X = z3.Concat(*mid) if len(mid) > 1 else (mid[0] if mid else z3.Empty(Bytes))
                flat = z3.Concat(h, X, NL) if mid else z3.Concat(h, NL)
                out.append(c == flat)
                out.append(z3.Implies(z3.And(z3.Length(h) == 1, z3.Not(z3.Contains(X, NL))),
                                      z3.And(z3.IndexOf(c, NL, 1) == z3.Length(c) - 1, z3.SubString(c, 1, z3.Length(c) - 2) == X,
                                             z3.SubString(c, 0, 1) == h)))
            return out
        return gen


def flatten_bytes(t, out_eqs=None):
    if z3.is_app(t) and t.sort() == Bytes and t.decl().kind() == z3.Z3_OP_SEQ_CONCAT:
        r = []
        for ch in t.children():
            r += flatten_bytes(ch)
        return r
    return [t]


def expand_leaves(leaves, facts):
    """replace an encoder application whose distribution instance (t == Concat(parts)) is among the facts by its parts"""
    dist = {}
    for f in facts:
        if z3.is_eq(f) and z3.is_app(f.arg(1)) and f.arg(1).sort() == Bytes and f.arg(1).decl().kind() == z3.Z3_OP_SEQ_CONCAT \
                and z3.is_app(f.arg(0)) and f.arg(0).decl().kind() == z3.Z3_OP_UNINTERPRETED:
            dist[f.arg(0).get_id()] = f.arg(1)
    out = []
    for l in leaves:
        if l.get_id() in dist:
            out += expand_leaves(flatten_bytes(dist[l.get_id()]), facts)
        else:
            out.append(l)
    return out


def lit_bytes(t):
    """python bytes of a literal Seq(BV8) term (unit / concat of units / empty), else None"""
    t = z3.simplify(t)
    if z3.is_app(t) and t.decl().kind() == z3.Z3_OP_SEQ_EMPTY:
        return b""
    if z3.is_app(t) and t.decl().kind() == z3.Z3_OP_SEQ_UNIT and z3.is_bv_value(t.arg(0)):
        return bytes([t.arg(0).as_long()])
    if z3.is_app(t) and t.decl().kind() == z3.Z3_OP_SEQ_CONCAT:
        parts = [lit_bytes(c) for c in t.children()]
        if all(p is not None for p in parts):
            return b"".join(parts)
    return None


def is_bytes_lit_ending_nl(t):
    b = lit_bytes(t)
    return b is not None and b.endswith(b"\n")


ESCAPES = {"\\": "\\u005c", "\0": "\\u0000", "\n": "\\u000a", "\r": "\\u000d", "\x1a": "\\u001a"}


def pickle_escape_arg(t):
    """t is REPLACE_ALL(...REPLACE_ALL(x, "\\", "\\u005c")..., a, b) with the backslash replaced first and NUL, LF, CR, ^Z replaced after it
    (any order, each by its \\uXXXX spelling): returns x, else None"""
    pending = dict(ESCAPES)
    chain = []
    while z3.is_app(t) and t.decl().name() == "REPLACE_ALL" and t.num_args() == 3:
        a, b = t.arg(1), t.arg(2)
        if not (z3.is_string_value(a) and z3.is_string_value(b)):
            return None
        chain.append((a.as_string(), b.as_string()))
        t = t.arg(0)
    chain.reverse()
    if len(chain) != 5 or chain[0] != ("\\", "\\u005c"):
        return None
    for a, b in chain:
        if pending.get(a) != b:
            return None
        del pending[a]
    return t if not pending else None


def int2str_arg(rules, s_):
    if z3.is_app(s_) and s_.decl().kind() == z3.Z3_OP_ITE and z3.is_app(s_.arg(1)) and s_.arg(1).num_args() == 1 \
            and s_.arg(1).arg(0).sort() == Int and s_.arg(1).sort() == Str:
        x = s_.arg(1).arg(0)
        if rules.INT2STR(x).eq(s_):
            return x
    return None


def eng_unsupported(msg):
    from pyvc.eval import Unsupported
    return Unsupported(msg)


def register_ctor(K):
    K.contract("fickle.Opcode.__init__",
               params="self: fickle.Opcode, argument: val = None, position: val = None, data: val = None, info: val = None",
               requires=["info is None"], modifies=["self.arg", "self.pos", "self._data"], allocates=False,
               raises={"TypeError": "type_is_exactly(self, Opcode)"},
               ensures=["self.arg is argument", "self.pos is position", "self._data is data"])

    @K.spec("type_is_exactly")
    def type_is_exactly(eng, st, obj, cls):
        return vbool(st.cls_of(eng.as_ref(obj, st)) == clsid(cls.cls))

    @K.external_attr("fickle.ConstantOpcode", "ConstantOpcodePriorities")
    def _prios(eng, st, *a):
        """the priority table built by ConstantOpcode.__init_subclass__, in the order `sorted(items, key=priority)` gives (live import)"""
        items = []
        for cls, prio in eng.repo.live["constant_priorities_sorted"]:
            items.append(V("tuple", xs=[V("cls", z3.IntVal(static_ref("class:" + cls)), cls=cls), vint(prio)]))
        v = V("iter", xs=("static", items), cls="dict_items")
        v.note = "presorted"
        return V("priotable", xs=v)

    @K.external_method("priotable", "items")
    def _prio_items(eng, st, recv, args, kw, node):
        return [(st, recv.xs)]
