"""Sidecar: fickle.Pickled as a data structure — class invariant over its caches, sequence primitives, serialisation (C14, C06 dumps side)."""
import z3
from pyvc.sorts import V, Val, VNONE, SeqV, Bytes, Int, vbool, vint, box, fresh
from pyvc.state import clsid

ERR = ["ValueError", "IndexError", "KeyError", "NotImplementedError", "TypeError", "AttributeError", "OverflowError"]


def register(K):
    K.fieldsof("fickle.Pickled", _opcodes="list[fickle.Opcode]", _ast="val", _properties="fickle.ASTProperties?")
    K.fieldsof("fickle.ASTProperties", imports="list[val]", calls="list[val]", non_setstate_calls="list[val]", likely_safe_imports="set",
               _of="val")
    K.fieldsof("fickle.Opcode", arg="val", pos="val", _data="val", info="pickletools.OpcodeInfo", name="str")

    INTERPF = z3.Function("INTERP", SeqV, Val)      # the module Interpreter.interpret builds from an opcode sequence (C13: a function of it)
    ENCODE = z3.Function("ENCODE", Int, Bytes)      # Opcode.encode() of an opcode object (opcode objects are not mutated once in a Pickled)
    CD = z3.Function("CONCAT_DATA", SeqV, Int, z3.ArraySort(Int, Val), Bytes)   # data of the first n opcodes of the sequence, concatenated

    def items_of(eng, st, p):
        lst = eng.spec_value("p._opcodes", st, {"p": p})
        return st.items(lst.t)

    def data_term(st, r):
        d = st.read("fickle.Opcode._data", r, Val)
        return z3.If(Val.is_N(d), ENCODE(r), Val.y(d))

    # what ASTProperties(ast.NodeVisitor).visit collects from a tree, as functions of the tree (trusted model of NodeVisitor; sampled by replay)
    PROPS_OF = {"imports": z3.Function("IMPORTS_OF", Val, SeqV), "calls": z3.Function("CALLS_OF", Val, SeqV),
                "non_setstate_calls": z3.Function("NON_SETSTATE_CALLS_OF", Val, SeqV)}
    LSAFE_OF = z3.Function("LIKELY_SAFE_IMPORTS_OF", Val, z3.ArraySort(Val, z3.BoolSort()))
    K.props_of = dict(PROPS_OF, likely_safe=LSAFE_OF, interp=INTERPF)

    def props_ok_term(eng, st, pr):
        """the four collections of an ASTProperties object are those of the tree it visited, and no AST node owns its lists"""
        of = st.read("fickle.ASTProperties._of", pr, Val)
        facts = []
        for f, F in PROPS_OF.items():
            fv = st.read(f"fickle.ASTProperties.{f}", pr, Val)
            lst = Val.r(fv)
            facts += [Val.is_R(fv), st.items(lst) == F(of), z3.Not(z3.Select(st.comp("list.nodeowned"), lst))]
        lv = st.read("fickle.ASTProperties.likely_safe_imports", pr, Val)
        ls = Val.r(lv)
        facts += [Val.is_R(lv), st.read("set.has", ls) == LSAFE_OF(of)]
        return z3.And(*facts)

    @K.spec("props_ok")
    def props_ok(eng, st, pr):
        return vbool(props_ok_term(eng, st, eng.as_ref(pr, st)))

    for _f, _F in PROPS_OF.items():
        def _mk(F=_F, f=_f):
            def fn(eng, st, p):
                """the collection ASTProperties gathers from the module this pickle decompiles to (ghost function of the opcode sequence)"""
                et = {"imports": "ast.ImportFrom", "calls": "ast.Call", "non_setstate_calls": "ast.Call"}[f]
                return V("seq", F(INTERPF(items_of(eng, st, p))), elem=et)
            return fn
        K.spec_funcs[f"{_f}_of"] = _mk()

    @K.spec("likely_safe_of")
    def likely_safe_of(eng, st, p, name):
        return vbool(z3.Select(LSAFE_OF(INTERPF(items_of(eng, st, p))), box(name)))

    DECOMP = z3.Function("DECOMPILES", SeqV, z3.BoolSort())     # interpreting this opcode sequence from a fresh Interpreter does not raise

    @K.spec("DECOMPILES")
    def decompiles(eng, st, p):
        return vbool(DECOMP(items_of(eng, st, p)))

    @K.spec("INTERP")
    def interp(eng, st, p):
        return V("val", INTERPF(items_of(eng, st, p)))

    @K.spec("DATA")
    def data(eng, st, op):
        return V("bytes", data_term(st, eng.as_ref(op, st)))

    @K.spec("CD")
    def cd(eng, st, seq, n):
        """concatenation of .data of the first n opcodes of seq (ghost; unfolded by cd_unfold)"""
        return V("bytes", CD(eng.as_seq(seq, st), eng.as_int(n), st.comp("fickle.Opcode._data", Val)))

    @K.spec("cd_unfold")
    def cd_unfold(eng, st, seq, i):
        """definitional unfolding: CD(s, 0) = b''  and  CD(s, i+1) = CD(s, i) ++ DATA(s[i])  (0 <= i < |s|)"""
        s_ = eng.as_seq(seq, st)
        h = st.comp("fickle.Opcode._data", Val)
        ii = eng.as_int(i)
        return vbool(z3.And(CD(s_, z3.IntVal(0), h) == z3.Empty(Bytes),
                            z3.Implies(z3.And(ii >= 0, ii < z3.Length(s_)),
                                       CD(s_, ii + 1, h) == z3.Concat(CD(s_, ii, h), data_term(st, Val.r(s_[ii]))))))

    @K.spec("DUMPS")
    def dumps_spec(eng, st, p):
        s_ = items_of(eng, st, p)
        return V("bytes", CD(s_, z3.Length(s_), st.comp("fickle.Opcode._data", Val)))

    @K.spec("caches_clear")
    def caches_clear(eng, st, p):
        a = eng.spec_value("p._ast", st, {"p": p})
        pr = eng.spec_value("p._properties", st, {"p": p})
        return vbool(z3.And(Val.is_N(a.t), Val.is_N(pr.t)))

    @K.spec("inv_ast")
    def inv_ast(eng, st, p):
        """the part of the invariant the `ast` getter needs and keeps: private opcode list; _ast empty or current"""
        a = eng.spec_value("p._ast", st, {"p": p})
        cur = INTERPF(items_of(eng, st, p))
        lst = eng.spec_value("p._opcodes", st, {"p": p})
        private = z3.Not(z3.Select(st.comp("list.nodeowned"), lst.t))
        return vbool(z3.And(private, z3.Or(Val.is_N(a.t), z3.And(a.t == cur, DECOMP(items_of(eng, st, p))))))

    @K.spec("inv")
    def inv(eng, st, p):
        """class invariant: each cache is empty or current"""
        a = eng.spec_value("p._ast", st, {"p": p})
        pr = eng.spec_value("p._properties", st, {"p": p})
        cur = INTERPF(items_of(eng, st, p))
        of = st.read("fickle.ASTProperties._of", Val.r(pr.t), Val)
        lst = eng.spec_value("p._opcodes", st, {"p": p})
        private = z3.Not(z3.Select(st.comp("list.nodeowned"), lst.t))
        return vbool(z3.And(private, z3.Or(Val.is_N(a.t), z3.And(a.t == cur, DECOMP(items_of(eng, st, p)))),
                            z3.Or(Val.is_N(pr.t), z3.And(z3.Not(Val.is_N(a.t)), Val.is_R(pr.t), of == a.t))))

    @K.spec("inv_props")
    def inv_props(eng, st, p):
        """C04's strengthening of the invariant: a cached ASTProperties holds exactly what NodeVisitor collects from the cached tree"""
        pr = eng.spec_value("p._properties", st, {"p": p})
        return vbool(z3.Or(Val.is_N(pr.t), props_ok_term(eng, st, Val.r(pr.t))))

    @K.spec("list_insert")
    def list_insert(eng, st, seq, index, x):
        s_ = eng.as_seq(seq, st)
        n = z3.Length(s_)
        ii = eng.as_int(index)
        j = z3.If(ii < 0, z3.If(ii + n < 0, 0, ii + n), z3.If(ii > n, n, ii))
        return V("seq", z3.Concat(z3.SubSeq(s_, 0, j), z3.Unit(box(x)), z3.SubSeq(s_, j, n - j)))

    @K.spec("list_set")
    def list_set(eng, st, seq, index, x):
        s_ = eng.as_seq(seq, st)
        n = z3.Length(s_)
        ii = eng.as_int(index)
        j = z3.If(ii < 0, ii + n, ii)
        return V("seq", z3.Concat(z3.SubSeq(s_, 0, j), z3.Unit(box(x)), z3.SubSeq(s_, j + 1, n - j - 1)))

    @K.spec("list_del")
    def list_del(eng, st, seq, index):
        s_ = eng.as_seq(seq, st)
        n = z3.Length(s_)
        ii = eng.as_int(index)
        j = z3.If(ii < 0, ii + n, ii)
        return V("seq", z3.Concat(z3.SubSeq(s_, 0, j), z3.SubSeq(s_, j + 1, n - j - 1)))

    P = "self: fickle.Pickled"
    MUT = ["self._opcodes[]", "self._ast", "self._properties"]
    K.contract("fickle.Pickled.__init__", params=f"{P}, opcodes: iterable", modifies=["self._opcodes", "self._ast", "self._properties"],
               ensures=["self._opcodes == seq_of(opcodes)", "fresh_since_entry(self._opcodes)", "caches_clear(self)", "inv(self)"])
    K.contract("fickle.Pickled.__len__", params=P, returns="int", pure=True, ensures=["result == len(self._opcodes)"])
    K.contract("fickle.Pickled.__iter__", params=P, returns="iterator[fickle.Opcode]", ensures=["iterates(result, self._opcodes)", "fresh_since_entry(result)"])
    K.contract("fickle.Pickled.__getitem__", params=f"{P}, index: val", returns="val", pure=True,
               raises={"IndexError": "index_out_of_range(index, len(self._opcodes))"}, ensures=["getitem_eq(result, self._opcodes, index)"])
    K.contracts["fickle.Pickled.__getitem__"].returns_for_index = "fickle.Opcode"
    K.contract("fickle.Pickled.insert", params=f"{P}, index: int, opcode: fickle.Opcode", requires=["inv(self)"], modifies=MUT, allocates=False,
               ensures=["self._opcodes == list_insert(old(self._opcodes), index, opcode)", "caches_clear(self)", "inv(self)"])
    K.contract("fickle.Pickled.__setitem__", params=f"{P}, index: int, item: fickle.Opcode", requires=["inv(self)"], modifies=MUT, allocates=False,
               raises={"IndexError": "index_out_of_range(index, len(self._opcodes))"},
               ensures=["self._opcodes == list_set(old(self._opcodes), index, item)", "caches_clear(self)", "inv(self)"])
    K.contract("fickle.Pickled.__delitem__", params=f"{P}, index: int", requires=["inv(self)"], modifies=MUT, allocates=False,
               raises={"IndexError": "index_out_of_range(index, len(self._opcodes))"},
               ensures=["self._opcodes == list_del(old(self._opcodes), index)", "caches_clear(self)", "inv(self)"])
    K.contract("fickle.Pickled.nb_opcodes", params=P, returns="int", pure=True, ensures=["result == len(self._opcodes)"])
    K.contract("fickle.Pickled.opcodes", params=P, returns="iterator[fickle.Opcode]", ensures=["iterates(result, self._opcodes)", "fresh_since_entry(result)"])

    K.contract("fickle.Opcode.has_data", params="self: fickle.Opcode", returns="bool", pure=True, ensures=["result == (self._data is not None)"])
    K.contract("fickle.Opcode.data", params="self: fickle.Opcode", returns="bytes", pure=True, may_raise=["NotImplementedError", "Exception"],
               may_raise_if="self._data is None",
               ensures=["result == DATA(self)"])
    K.contract("fickle.Opcode.data.setter", params="self: fickle.Opcode, value: bytes", modifies=["self._data"], allocates=False,
               ensures=["self._data == value"])
    K.contract("fickle.Opcode.encode", params="self: fickle.Opcode", returns="bytes", pure=True, may_raise=["NotImplementedError", "Exception"],
               ensures=["result == ENCODED(self)"],
               notes="ENCODED names what encode() returns for this opcode object; what it is per opcode class is C15")

    @K.spec("ENCODED")
    def encoded(eng, st, op):
        return V("bytes", ENCODE(eng.as_ref(op, st)))

    K.contract("fickle.Pickled.dumps", params=P, returns="bytes", may_raise=["NotImplementedError", "Exception"],
               ensures=["result == DUMPS(self)"],
               loops={0: dict(invariant=["bytes_of(b) == CD(_seq, _i)"], modifies=["b[]"], lemmas=["cd_unfold(_seq, _i)"], allocates=False)})
    K.contract("fickle.Pickled.dump", params=f"{P}, file: stream", may_raise=["NotImplementedError", "Exception"], modifies=["file.written"],
               ensures=["file.written == old(file.written) + DUMPS(self)"],
               loops={0: dict(invariant=["file.written == old(file.written) + CD(_seq, _i)"], modifies=["file.written"],
                              lemmas=["cd_unfold(_seq, _i)"], allocates=False)})

    @K.spec("bytes_of")
    def bytes_of(eng, st, b):
        return V("bytes", st.read("bytearray.data", eng.as_ref(b, st)))

    # derived views: computed from the opcode list through the caches
    K.contract("fickle.Pickled.ast", params=P, returns="val", requires=["inv_ast(self)"], may_raise_if="self._ast is None", modifies=["self._ast", "@list.items:nodeowned", "@ast.lineno",
                                                                                              "@ast.col_offset", "@iterator.pos"],
               may_raise=ERR, exact_raises=False,
               ensures_raise={"*": ["inv_ast(self)", "self._properties is old(self._properties)", "self._opcodes == old(self._opcodes)"]},
               ensures=["result is self._ast", "result == INTERP(self)", "result is not None", "self._opcodes == old(self._opcodes)",
                        "inv_ast(self)", "self._properties is old(self._properties)",
                        "implies(old(self._ast) is not None, result is old(self._ast))"])
    K.contract("fickle.ASTProperties.__init__", params="self: fickle.ASTProperties",
               modifies=["self.imports", "self.calls", "self.non_setstate_calls", "self.likely_safe_imports"],
               ensures=["fresh_since_entry(self.imports)", "fresh_since_entry(self.calls)", "fresh_since_entry(self.non_setstate_calls)",
                        "fresh_since_entry(self.likely_safe_imports)", "private(self.imports)", "private(self.calls)",
                        "private(self.non_setstate_calls)", "self.imports is not self.calls", "self.imports is not self.non_setstate_calls",
                        "self.calls is not self.non_setstate_calls"])
    K.contract("fickle.Pickled.properties", params=P, returns="fickle.ASTProperties", requires=["inv(self)"], may_raise_if="self._ast is None",
               modifies=["self._ast", "self._properties", "@list.items:nodeowned", "@ast.lineno", "@ast.col_offset", "@iterator.pos"],
               may_raise=ERR, exact_raises=False,
               ensures_raise={"*": ["inv(self)", "self._opcodes == old(self._opcodes)"]},
               ensures=["result is self._properties", "self._opcodes == old(self._opcodes)", "inv(self)"])
    for v in ("has_import", "has_call", "has_non_setstate_call"):
        K.contract(f"fickle.Pickled.{v}", params=P, returns="bool", requires=["inv(self)"], may_raise_if="self._ast is None",
                   modifies=["self._ast", "self._properties", "@list.items:nodeowned", "@ast.lineno", "@ast.col_offset", "@iterator.pos"],
                   may_raise=ERR, exact_raises=False, ensures=["self._opcodes == old(self._opcodes)", "inv(self)"],
                   ensures_raise={"*": ["inv(self)", "self._opcodes == old(self._opcodes)"]})

    @K.external_method("fickle.ASTProperties", "visit")
    def _visit(eng, st, recv, args, kw, node):
        """ast.NodeVisitor.visit (trusted): walks the tree calling visit_* — abstracted as 'these properties are those of that tree'"""
        tree = box(eng.materialize(args[0], st))
        st.write("fickle.ASTProperties._of", recv.t, tree, Val)
        for f in ("imports", "calls", "non_setstate_calls"):
            lst = eng.spec_value(f"p.{f}", st, {"p": recv})
            st.set_items(lst.t, PROPS_OF[f](tree))
        ls = eng.spec_value("p.likely_safe_imports", st, {"p": recv})
        st.write("set.has", eng.as_ref(ls, st), LSAFE_OF(tree))
        st.havoc_at("set.card", eng.as_ref(ls, st))
        st.log.append(("visit", recv, args[0], getattr(node, "lineno", 0)))
        return [(st, VNONE)]

    # Interpreter.interpret *defines* INTERP: the module it builds is a function of the opcode sequence (determinism / frames: C13)
    if "fickle.Interpreter.interpret" in K.contracts:
        K.contracts["fickle.Interpreter.interpret"].defines.append("result == INTERP(pickled)")
        K.contracts["fickle.Interpreter.interpret"].defines.append("DECOMPILES(pickled)")
        K.trusted.append(("INTERP", "definition: the module Interpreter.interpret returns is named INTERP(opcode sequence); that it is a function "
                                    "of the opcode sequence alone is what C13's frame/determinism obligations establish"))
