"""Sidecar: Interpreter.step / run / to_ast, the generic frame contract every opcode `run` obeys, and tracing.Trace (C09 passivity, C13 frames)."""
import z3
from pyvc.sorts import V, Val, VNONE, vbool, vint, fresh, Str, Int

RUN_FRAME = ["interpreter.stack._stack[]", "interpreter.memory[]", "interpreter.module_body._list[]", "interpreter._var_counter",
             "interpreter._opcodes", "@list.items:nodeowned", "@ast.lineno", "@iterator.pos"]
STEP_FRAME = ["self.stack._stack[]", "self.memory[]", "self.module_body._list[]", "self._var_counter", "self._opcodes", "self.stack.opcode",
              "self._module", "@list.items:nodeowned", "@ast.lineno", "@ast.col_offset", "@iterator.pos"]
ERR = ["ValueError", "IndexError", "KeyError", "NotImplementedError", "TypeError", "AttributeError", "OverflowError"]


def register(K):
    K.fieldsof("iterator", seq="int", pos="int")
    K.fieldsof("tracing.Trace", interpreter="fickle.Interpreter")

    # frame contract of *any* opcode run (behavioural supertype; every concrete run is verified against it):
    # it writes only the interpreter's own state, list objects (in-place APPEND/ADDITEMS on list nodes) and line numbers
    K.contract("fickle.Opcode.run", params="self: fickle.Opcode, interpreter: fickle.Interpreter", returns="val",
               modifies=RUN_FRAME, may_raise=ERR, exact_raises=False,
               ensures=["interpreter._var_counter >= old(interpreter._var_counter)"],       # variable numbers are never re-used (C18)
               logs=[("opcode-run", ["self", "interpreter"])])

    K.contract("fickle.Pickled.__iter__", params="self: fickle.Pickled", returns="iterator[fickle.Opcode]", ensures=["iterates(result, self._opcodes)", "fresh_since_entry(result)"])
    K.contract("fickle.Pickled.__len__", params="self: fickle.Pickled", returns="int", pure=True, ensures=["result == len(self._opcodes)"])
    K.contract("fickle.Pickled.__getitem__", params="self: fickle.Pickled, index: val", returns="val", pure=True,
               raises={"IndexError": "index_out_of_range(index, len(self._opcodes))"}, ensures=["getitem_eq(result, self._opcodes, index)"])
    K.contracts["fickle.Pickled.__getitem__"].returns_for_index = "fickle.Opcode"

    @K.spec("iterates")
    def iterates(eng, st, it, lst):
        """`it` is a fresh list iterator positioned at the start of list object `lst`"""
        r = eng.as_ref(eng.materialize(it, st), st)
        return vbool(z3.And(st.read("iterator.seq", r, Int) == eng.as_ref(lst, st), st.read("iterator.pos", r, Int) == 0))

    K.contract("fickle.Interpreter.__init__",
               params="self: fickle.Interpreter, pickled: fickle.Pickled, first_variable_id: int = 0, result_variable: str = 'result'",
               modifies=["self.pickled", "self.memory", "self.stack", "self.module_body", "self.result_variable", "self._module",
                         "self._var_counter", "self._opcodes"],
               ensures=["self.pickled is pickled", "self._var_counter == first_variable_id", "self.result_variable == result_variable",
                        "self._module is None", "len(self.stack._stack) == 0", "len(self.module_body._list) == 0", "len(self.memory) == 0",
                        "iterates(self._opcodes, pickled._opcodes)", "fresh_since_entry(self._opcodes)", "fresh_since_entry(self.stack)", "fresh_since_entry(self.module_body)",
                        "fresh_since_entry(self.memory)", "fresh_since_entry(self.stack._stack)", "fresh_since_entry(self.module_body._list)"])
    K.contract("fickle.Interpreter.next_variable_id", params="self: fickle.Interpreter", returns="int", pure=True,
               ensures=["result == self._var_counter"])
    K.contract("fickle.Interpreter.step", params="self: fickle.Interpreter", returns="fickle.Opcode",
               modifies=STEP_FRAME, may_raise=ERR + ["StopIteration"], exact_raises=False,
               logs=[("step", ["self", "result"])],
               ensures=["stepped(self, old(self._opcodes), result)", "self._var_counter >= old(self._var_counter)"],
               ensures_raise={"StopIteration": ["self._module is not None", "module_has_whole_body(self._module, self.module_body._list)",
                                                "self._var_counter >= old(self._var_counter)"]},
               loops={0: dict(invariant=[], modifies=["@ast.lineno", "@ast.col_offset"])})
    K.contract("fickle.Interpreter.run", params="self: fickle.Interpreter", modifies=STEP_FRAME, may_raise=ERR, exact_raises=False,
               ensures=["self._module is not None", "self._var_counter >= old(self._var_counter)"],
               loops={0: dict(invariant=["self._var_counter >= old(self._var_counter)"], modifies=STEP_FRAME)})
    K.contract("fickle.Interpreter.to_ast", params="self: fickle.Interpreter", returns="val", modifies=STEP_FRAME, may_raise=ERR,
               exact_raises=False,
               ensures=["result is self._module", "result is not None",
                        "implies(old(self._module) is not None, result is old(self._module))", "self._var_counter >= old(self._var_counter)"],
               logs=[("to_ast", ["self"])])
    K.contract("fickle.Interpreter.interpret", params="pickled: fickle.Pickled", returns="val", may_raise=ERR, exact_raises=False,
               modifies=["@list.items:nodeowned", "@ast.lineno", "@ast.col_offset", "@iterator.pos"], ensures=["result is not None"])

    @K.spec("module_has_whole_body")
    def module_has_whole_body(eng, st, module, body):
        """the finished ast.Module holds every statement of the module body, in order (nothing anchored is dropped at the end)"""
        m = eng.as_ref(module, st)
        b = st.read("ast.body", m, Val)
        return vbool(z3.And(Val.is_R(b), st.items(Val.r(b)) == eng.as_seq(body, st), st.cls_of(m) == __import__("pyvc.state", fromlist=["clsid"]).clsid("ast.Module")))

    @K.spec("stepped")
    def stepped(eng, st, interp, old_it, result):
        """step consumed exactly one opcode: the iterator advanced by one and `result` is the element it passed"""
        it_now = eng.spec_value("i._opcodes", st, {"i": interp})
        r_old = eng.as_ref(old_it, st)
        o = eng.old_state
        pos0 = o.read("iterator.pos", r_old, Int)
        lst = o.read("iterator.seq", r_old, Int)
        seq0 = o.items(lst)
        return vbool(z3.And(pos0 >= 0, pos0 < z3.Length(seq0), Val.R(eng.as_ref(result, st)) == seq0[pos0]))

    # ---- tracing ---------------------------------------------------------------------------------------------------------
    K.contract("tracing.Trace.__init__", params="self: tracing.Trace, interpreter: fickle.Interpreter", modifies=["self.interpreter"],
               allocates=False, ensures=["self.interpreter is interpreter"])
    for h, ps in (("on_pop", "popped_value: val"), ("on_push", "pushed_value: val"), ("on_memoize", "index: val, value: val"),
                  ("on_update_memo", "index: val, old_value: val, new_value: val"), ("on_statement", "statement: val"),
                  ("on_opcode", "opcode: fickle.Opcode")):
        K.contract(f"tracing.Trace.{h}", params=f"self: tracing.Trace, {ps}", effects=["stdout"], ensures=[],
                   logs=[(h, [p.split(":")[0].strip() for p in ps.split(",")])])
    K.contract("tracing.Trace.run", params="self: tracing.Trace", returns="val",
               modifies=["self.interpreter.stack._stack[]", "self.interpreter.memory[]", "self.interpreter.module_body._list[]",
                         "self.interpreter._var_counter", "self.interpreter._opcodes", "self.interpreter.stack.opcode",
                         "self.interpreter._module", "@list.items:nodeowned", "@ast.lineno", "@ast.col_offset", "@iterator.pos"],
               may_raise=ERR, exact_raises=False,
               ensures=["result is self.interpreter._module", "result is not None",
                        "self.interpreter._var_counter >= old(self.interpreter._var_counter)"],
               loops={0: dict(invariant=["self.interpreter is old(self.interpreter)", "self.interpreter._var_counter >= old(self.interpreter._var_counter)"],
                              modifies=["self.interpreter.stack._stack[]", "self.interpreter.memory[]", "self.interpreter.module_body._list[]",
                                        "self.interpreter._var_counter", "self.interpreter._opcodes", "self.interpreter.stack.opcode",
                                        "self.interpreter._module", "@list.items:nodeowned", "@ast.lineno", "@ast.col_offset", "@iterator.pos"]),
                      1: dict(invariant=[], modifies=[]), 2: dict(invariant=[], modifies=[]), 3: dict(invariant=[], modifies=[]),
                      4: dict(invariant=[], modifies=[]), 5: dict(invariant=[], modifies=[])})

    @K.external("ast.unparse")
    def _unparse(eng, st, args, kw, node):
        return [(st, V("str", fresh("unparsed", Str)))]

    @K.external("ast.Module")
    def _module(eng, st, args, kw, node):
        return eng.new_ast_node("ast.Module", args, kw, st, node)
