"""Sidecar: loader.load — the checked loader (C02, C10)."""


def register(K):
    K.fieldsof("module:pickle", load="val", loads="val", Unpickler="val")
    K.fieldsof("exception.UnsafeFileError", filepath="val", info="val")
    K.contract("exception.UnsafeFileError.__init__", params="self: exception.UnsafeFileError, filepath: val, info: val",
               modifies=["self.filepath", "self.info"], allocates=False,
               ensures=["self.filepath is filepath", "self.info is info"])
    K.contract("loader.load",
               params="file: val, max_acceptable_severity: analysis.Severity = Severity.LIKELY_SAFE, print_results: val = False, "
                      "json_output_path: val = None, *args: empty, **kwargs: val",
               returns="val",
               requires=["pickle.loads is stock_loads()", "is_bytes_or_stream(file)"],
               may_raise=["exception.UnsafeFileError", "Exception"],
               modifies=["@list.items:nodeowned", "@ast.lineno", "@ast.col_offset", "@iterator.pos", "@stream.position"],
               ensures=[])
