"""Sidecar: specification vocabulary shared by every contract (ghost constants, sequence helpers, freshness)."""
import z3
from pyvc.sorts import V, Val, SeqV, Int, vbool, vint, box


def register(K):
    GH = {}

    def ghost(name, sort):
        n = z3.simplify(name.t).as_string()
        if n not in GH:
            GH[n] = z3.Const("ghost." + n, sort)
        return GH[n]

    @K.spec("ghost_seq")
    def ghost_seq(eng, st, name):
        return V("seq", ghost(name, SeqV))

    @K.spec("ghost_val")
    def ghost_val(eng, st, name):
        return V("val", ghost(name, Val))

    @K.spec("ghost_int")
    def ghost_int(eng, st, name):
        return vint(ghost(name, Int))

    @K.spec("empty_seq")
    def empty_seq(eng, st):
        return V("seq", z3.Empty(SeqV))

    @K.spec("seq1")
    def seq1(eng, st, x):
        return V("seq", z3.Unit(box(eng.materialize(x, st))))

    @K.spec("fresh_since_entry")
    def fresh_since_entry(eng, st, x):
        """the object was allocated by this call (so nothing that existed before can alias it)"""
        base = eng.old_state.alloc_ptr() if eng.old_state is not None else st.alloc_ptr()
        if x.k == "iter":
            x = eng.materialize(x, st)
        return vbool(eng.as_ref(x, st) >= base)

    @K.spec("yielded")
    def yielded(eng, st):
        """ghost: the values the generator under verification has yielded so far"""
        return V("gen", st.yielded if st.yielded is not None else z3.Empty(SeqV), elem=getattr(eng.cur_contract, "yields", None))

    @K.spec("is_data")
    def is_data(eng, st, x):
        """a pickletools-decoded opcode argument: a number, string, bytes, bool or None — never an object reference"""
        return vbool(z3.Not(Val.is_R(x.t)) if x.k == "val" else z3.BoolVal(x.k not in ("ref",)))

    @K.spec("rev")
    def rev(eng, st, x):
        return V("seq", eng.rules.REV(eng.as_seq(x, st)))

    @K.spec("fresh_list")
    def fresh_list(eng, st, x, interp):
        """a list handed over by the caller that is neither of the interpreter's backing lists (it was built by the caller for this call)"""
        s_ = eng.spec_value("i.stack._stack", st, {"i": interp})
        b_ = eng.spec_value("i.module_body._list", st, {"i": interp})
        r = eng.as_ref(x, st)
        return vbool(z3.And(r != s_.t, r != b_.t))

    @K.spec("index_out_of_range")
    def oor(eng, st, index, n):
        if index.k == "slice":
            return vbool(False)
        i = eng.as_int(index)
        return vbool(z3.Or(i < -n.t, i >= n.t))

    @K.spec("getitem_eq")
    def getitem_eq(eng, st, result, seq, index):
        s = eng.as_seq(seq, st)
        if index.k == "slice":
            lo, hi, step = index.xs
            sl = eng.slice_of(V("seq", s, elem=seq.elem), lo, hi, step, st)[0][1]
            return vbool(eng.as_seq(result, st) == sl.t)
        i = eng.as_int(index)
        n = z3.Length(s)
        return vbool(box(result) == s[z3.If(i < 0, i + n, i)])
