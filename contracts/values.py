"""Sidecar: value structure of the nodes the data-building opcodes push (C05, S5).

The decompiled program rebuilds the VM's value when each opcode pushes (or updates, in place) the display node whose Python meaning is
what the VM builds from the same operands: a Tuple / List / Set display of the operand nodes in VM order, a Dict display pairing them
key, value, key, value..., a Constant holding the opcode's argument; and the memo hands back the very node it was given (sharing is by
reference).  Node identity stands for 'same object'."""
import z3
from pyvc.sorts import V, Val, SeqV, vbool, box
from pyvc.state import clsid


def register(K):
    def fld(st, r, name):
        return st.read(f"ast.{name}", r, Val)

    def node_ref(eng, st, x):
        return eng.as_ref(x, st), (Val.is_R(x.t) if x.k == "val" else z3.BoolVal(True))

    @K.spec("node_is")
    def node_is(eng, st, x, name):
        r, isref = node_ref(eng, st, x)
        return vbool(z3.And(isref, st.cls_of(r) == clsid("ast." + z3.simplify(name.t).as_string())))

    def children(eng, st, x, field):
        r, _ = node_ref(eng, st, x)
        f = fld(st, r, field)
        # ghost invariant of the heap model: whatever an AST node field refers to carries the node-owned flag (set at every store into a field)
        st.assume(z3.Implies(Val.is_R(f), z3.Select(st.comp("list.nodeowned"), Val.r(f))))
        return f, st.items(Val.r(f))

    @K.spec("dict_lists_distinct")
    def dict_lists_distinct(eng, st, x):
        """a Dict display keeps its keys and its values in two different list objects (true of every Dict node fickling constructs)"""
        r, isref = node_ref(eng, st, x)
        k, v = fld(st, r, "keys"), fld(st, r, "values")
        return vbool(z3.Implies(z3.And(isref, st.cls_of(r) == clsid("ast.Dict")), z3.And(Val.is_R(k), Val.is_R(v), Val.r(k) != Val.r(v))))

    @K.spec("children_of")
    def children_of(eng, st, x, field):
        """the sequence held by a list-valued field (elts / keys / values) of a display node"""
        f, items = children(eng, st, x, z3.simplify(field.t).as_string())
        return V("seq", items)

    @K.spec("children_are")
    def children_are(eng, st, x, field, seq):
        f, items = children(eng, st, x, z3.simplify(field.t).as_string())
        return vbool(z3.And(Val.is_R(f), items == eng.as_seq(seq, st)))

    @K.spec("const_is")
    def const_is(eng, st, x, v):
        r, isref = node_ref(eng, st, x)
        return vbool(z3.And(isref, st.cls_of(r) == clsid("ast.Constant"), fld(st, r, "value") == box(eng.materialize(v, st))))

    @K.spec("evens")
    def evens(eng, st, s_):
        return V("seq", eng.rules.EVENS(eng.as_seq(s_, st)))

    @K.spec("odds")
    def odds(eng, st, s_):
        return V("seq", eng.rules.ODDS(eng.as_seq(s_, st)))

    @K.spec("memo_holds")
    def memo_holds(eng, st, memo, key, node):
        r = eng.as_ref(memo, st)
        k = box(key)         # the key object the code stores under (the opcode's argument as it is)
        return vbool(z3.And(z3.Select(st.read("dict.has", r), k), z3.Select(st.read("dict.map", r), k) == box(eng.materialize(node, st))))

    @K.spec("memo_at")
    def memo_at(eng, st, memo, key):
        d = memo.xs if memo.k == "snap" else None
        k = box(key)
        mp = d["dict.map"] if d is not None else st.read("dict.map", eng.as_ref(memo, st))
        return V("val", z3.Select(mp, k))
