"""Sidecar: analysis pipeline (context, analyzer, check_safety, is_likely_safe)."""
import z3
from pyvc.sorts import V, Val, vint, vbool, vref, fresh, Int, SeqV

SEV = "analysis.Severity"
RES = "analysis.AnalysisResult"


def register(K):
    K.fieldsof("analysis.AnalysisContext", pickled="fickle.Pickled", reported_shortened_code="set", previous_results=f"list[{RES}]",
               results_by_analysis="defaultdict")
    K.fieldsof("analysis.Analyzer", analyses="tuple[analysis.Analysis]")
    # the metaclass property AnalyzerMeta.default_instance (creates Analyzer(Analysis.ALL) once) is abstracted as a field of the class object
    K.fieldsof("classobj:analysis.Analyzer", default_instance="analysis.Analyzer")
    K.trusted.append(("analysis.AnalyzerMeta.default_instance", "metaclass property abstracted as a class-object field holding one Analyzer"))

    # every analysis: a generator of findings; a finding is an AnalysisResult whose severity is never LIKELY_SAFE
    ERR = ["ValueError", "IndexError", "KeyError", "NotImplementedError", "TypeError", "AttributeError", "OverflowError"]
    PK = ["@list.items:nodeowned", "@ast.lineno", "@ast.col_offset", "@iterator.pos"]
    # every analysis: a generator of findings; a finding is an AnalysisResult whose severity is never LIKELY_SAFE.  It may read the derived
    # views of the pickle (building the caches), writes the de-dup set of the context, and nothing else; it raises only if decompilation does
    K.contract("analysis.Analysis.analyze", params="self: analysis.Analysis, context: analysis.AnalysisContext", returns="gen", yields=RES,
               requires=["inv(context.pickled)"],
               modifies=["context.reported_shortened_code[]", "context.pickled._ast", "context.pickled._properties"] + PK,
               may_raise=ERR + ["Exception"], exact_raises=False, may_raise_if="context.pickled._ast is None",
               ensures=["forall('j', len(result), 'doc_rank(result[j].severity) >= 1')", "inv(context.pickled)",
                        "context.pickled._opcodes == old(context.pickled._opcodes)",
                        "implies(old(context.pickled._ast) is not None, context.pickled._ast is old(context.pickled._ast))"],
               ensures_raise={"*": ["inv(context.pickled)", "context.pickled._opcodes == old(context.pickled._opcodes)"]},
               notes="base contract inherited by the nine analyses (behavioural subtyping)")

    K.contract("analysis.AnalysisContext.__init__", params="self: analysis.AnalysisContext, pickled: fickle.Pickled",
               modifies=["self.pickled", "self.reported_shortened_code", "self.previous_results", "self.results_by_analysis"],
               ensures=["self.pickled is pickled", "len(self.previous_results) == 0", "len(self.reported_shortened_code) == 0",
                        "fresh_since_entry(self.previous_results)", "fresh_since_entry(self.reported_shortened_code)",
                        "private(self.previous_results)", "self.previous_results is not self.pickled._opcodes"])
    K.contract("analysis.AnalysisContext.analyze", params="self: analysis.AnalysisContext, analysis: analysis.Analysis",
               returns=f"list[{RES}]", may_raise=ERR + ["Exception"], exact_raises=False, may_raise_if="self.pickled._ast is None",
               requires=["inv(self.pickled)", "private(self.previous_results)", "self.previous_results is not self.pickled._opcodes"],
               modifies=["self.previous_results[]", "self.reported_shortened_code[]", "self.results_by_analysis[]", "self.pickled._ast",
                         "self.pickled._properties"] + PK,
               ensures=["self.previous_results == old(self.previous_results) + result",
                        "forall('j', len(result), 'doc_rank(result[j].severity) >= 1')", "inv(self.pickled)", "private(self.previous_results)", "self.previous_results is not self.pickled._opcodes",
                        "self.pickled is old(self.pickled)", "self.pickled._opcodes == old(self.pickled._opcodes)",
                        "implies(old(self.pickled._ast) is not None, self.pickled._ast is old(self.pickled._ast))"],
               ensures_raise={"*": ["inv(self.pickled)", "self.pickled._opcodes == old(self.pickled._opcodes)",
                                    "self.previous_results == old(self.previous_results)"]})
    K.contract("analysis.AnalysisContext.results", params="self: analysis.AnalysisContext", returns="analysis.AnalysisResults",
               ensures=["result.pickled is self.pickled", "result.results == self.previous_results"])

    K.contract("analysis.Analyzer.analyze", params="self: analysis.Analyzer, pickled: fickle.Pickled", returns="analysis.AnalysisResults",
               may_raise=ERR + ["Exception"], exact_raises=False, requires=["inv(pickled)"],
               modifies=["pickled._ast", "pickled._properties"] + PK,
               ensures=["result.pickled is pickled", "inv(pickled)", "pickled._opcodes == old(pickled._opcodes)",
                        "forall('j', len(result.results), 'doc_rank(result.results[j].severity) >= 1')"],
               ensures_raise={"*": ["inv(pickled)", "pickled._opcodes == old(pickled._opcodes)"]},
               loops={0: dict(invariant=["context.pickled is pickled", "inv(pickled)", "pickled._opcodes == old(pickled._opcodes)",
                                         "private(context.previous_results)", "context.previous_results is not pickled._opcodes",
                                         "forall('j', len(context.previous_results), 'doc_rank(context.previous_results[j].severity) >= 1')"],
                              modifies=["context.previous_results[]", "context.reported_shortened_code[]", "context.results_by_analysis[]",
                                        "pickled._ast", "pickled._properties"] + PK)})

    K.contract("analysis.AnalysisResults.to_string", params="self: analysis.AnalysisResults, verbosity: analysis.Severity = Severity.POSSIBLY_UNSAFE",
               returns="str", pure=True, ensures=[])
    K.contract("analysis.AnalysisResults.detailed_results", params="self: analysis.AnalysisResults", returns="dict", ensures=[],
               loops={0: dict(invariant=[], modifies="infer")})
    K.contract("analysis.AnalysisResults.to_dict", params="self: analysis.AnalysisResults, verbosity: analysis.Severity = Severity.POSSIBLY_UNSAFE",
               returns="dict",
               ensures=["'severity' in result", "result['severity'] == self.severity.name"])

    K.contract("analysis.check_safety",
               params="pickled: fickle.Pickled, analyzer: analysis.Analyzer? = None, verbosity: analysis.Severity = Severity.POSSIBLY_UNSAFE, "
                      "json_output_path: val = None",
               returns="analysis.AnalysisResults", may_raise=ERR + ["OSError", "Exception"], exact_raises=False, requires=["inv(pickled)"],
               modifies=["pickled._ast", "pickled._properties"] + PK,
               ensures_raise={"*": ["inv(pickled)", "pickled._opcodes == old(pickled._opcodes)"]},
               ensures=["result.pickled is pickled", "inv(pickled)", "pickled._opcodes == old(pickled._opcodes)",
                        "forall('j', len(result.results), 'doc_rank(result.results[j].severity) >= 1')"])
    K.contract("analysis.is_likely_safe", params="filepath: val", returns="bool", may_raise=["OSError", "Exception"], modifies=PK + ["@stream.position"], ensures=[])
