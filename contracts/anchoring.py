"""Sidecar: specification vocabulary for C03 — "every import / call the VM would perform is anchored in module_body".

An *event* of the VM step (S3) is anchored when one of the statements the opcode appended to the module body has the required shape:
  import(m, n)        ->  ast.ImportFrom(module == m, names == [ast.alias(name == n)])
  call(f, args)       ->  ast.Assign(_, value = C) or ast.Expr(value = C) with C = ast.Call(func is the node f, args as the VM passes them)
  build(obj, state)   ->  x = obj ; x.__setstate__(state)
  persistent_load(p)  ->  a statement whose value is UNPICKLER.persistent_load(p)
Callee and argument nodes are compared by identity with the symbolic stack operands (the symbolic value *is* the node)."""
import z3
from pyvc.sorts import V, Val, SeqV, Int, Str, vbool, vint, box
from pyvc.state import clsid

MAXNEW = 3      # an opcode appends at most this many statements


def register(K):
    def cls_is(st, r, name):
        return st.cls_of(r) == clsid(name)

    def fld(st, r, name):
        return st.read(f"ast.{name}", r, Val)

    def new_stmts(eng, st, interp, oldbody):
        body = eng.as_seq(eng.spec_value("i.module_body._list", st, {"i": interp}), st)
        old = eng.as_seq(oldbody, st)
        n0 = z3.Length(old)
        return body, old, n0

    @K.spec("body_append_only")
    def body_append_only(eng, st, interp, oldbody):
        body, old, n0 = new_stmts(eng, st, interp, oldbody)
        return vbool(z3.And(z3.Length(body) >= n0, z3.Length(body) <= n0 + MAXNEW, z3.SubSeq(body, 0, n0) == old))

    def is_call_stmt(st, s, call_pred):
        """statement s (Val) is Assign/Expr whose value is an ast.Call c with call_pred(c)"""
        r = Val.r(s)
        v = fld(st, r, "value")
        c = Val.r(v)
        return z3.And(Val.is_R(s), z3.Or(cls_is(st, r, "ast.Assign"), cls_is(st, r, "ast.Expr")), Val.is_R(v), cls_is(st, c, "ast.Call"), call_pred(c))

    def args_match_star(eng, st, c, argsnode):
        """ast.Call.args is list(args.elts) when args is a Tuple node, else [Starred(args)]"""
        al = fld(st, c, "args")
        items = st.items(Val.r(al))
        a = Val.r(box(argsnode))
        is_tuple = z3.And(Val.is_R(box(argsnode)), cls_is(st, a, "ast.Tuple"))
        elts = st.items(Val.r(fld(st, a, "elts")))
        s0 = Val.r(items[0])
        starred = z3.And(z3.Length(items) == 1, Val.is_R(items[0]), cls_is(st, s0, "ast.Starred"), fld(st, s0, "value") == box(argsnode))
        return z3.And(Val.is_R(al), z3.If(is_tuple, items == elts, starred))

    def args_match_seq(eng, st, c, seq):
        al = fld(st, c, "args")
        return z3.And(Val.is_R(al), st.items(Val.r(al)) == seq)

    def exists_new(body, n0, pred, lo=0):
        return z3.Or([z3.And(z3.Length(body) > n0 + k, pred(body[n0 + k], k)) for k in range(lo, MAXNEW)])

    @K.spec("anchored_call_star")
    def anchored_call_star(eng, st, interp, oldbody, callee, argsnode):
        body, old, n0 = new_stmts(eng, st, interp, oldbody)
        return vbool(exists_new(body, n0, lambda s, k: is_call_stmt(
            st, s, lambda c: z3.And(fld(st, c, "func") == box(callee), args_match_star(eng, st, c, argsnode)))))

    @K.spec("anchored_call_star_kw")
    def anchored_call_star_kw(eng, st, interp, oldbody, callee, argsnode, kwnode):
        body, old, n0 = new_stmts(eng, st, interp, oldbody)
        return vbool(exists_new(body, n0, lambda s, k: is_call_stmt(
            st, s, lambda c: z3.And(fld(st, c, "func") == box(callee), args_match_star(eng, st, c, argsnode),
                                    kwargs_carry(eng, st, c, kwnode)))))

    def kwargs_carry(eng, st, c, kwnode):
        """the keyword part of the call refers to the kwargs operand (as **operand or as the operand itself)"""
        kw = fld(st, c, "keywords")
        items = st.items(Val.r(kw))
        k0 = Val.r(items[0])
        as_double_star = z3.And(Val.is_R(kw), z3.Length(items) == 1, Val.is_R(items[0]), cls_is(st, k0, "ast.keyword"),
                                fld(st, k0, "value") == box(kwnode))
        return z3.Or(kw == box(kwnode), as_double_star)

    @K.spec("anchored_call_seq")
    def anchored_call_seq(eng, st, interp, oldbody, callee, argseq):
        body, old, n0 = new_stmts(eng, st, interp, oldbody)
        seq = eng.as_seq(argseq, st)
        return vbool(exists_new(body, n0, lambda s, k: is_call_stmt(
            st, s, lambda c: z3.And(fld(st, c, "func") == box(callee), args_match_seq(eng, st, c, seq)))))

    def is_import(st, s, module, name):
        r = Val.r(s)
        names = st.items(Val.r(fld(st, r, "names")))
        a0 = Val.r(names[0])
        return z3.And(Val.is_R(s), cls_is(st, r, "ast.ImportFrom"), fld(st, r, "module") == Val.S(module), Val.is_R(fld(st, r, "names")),
                      z3.Length(names) == 1, Val.is_R(names[0]), cls_is(st, a0, "ast.alias"), fld(st, a0, "name") == Val.S(name))

    BUILTINS = ("__builtin__", "__builtins__", "builtins")

    @K.spec("is_builtins_module")
    def is_builtins_module(eng, st, m):
        return vbool(z3.Or([m.t == z3.StringVal(b) for b in BUILTINS]))

    @K.spec("anchored_import")
    def anchored_import(eng, st, interp, oldbody, module, name):
        """from <module> import <name> among the new statements — not owed for the builtins aliases (resolved in the ambient builtins)"""
        body, old, n0 = new_stmts(eng, st, interp, oldbody)
        owed = z3.Not(z3.Or([module.t == z3.StringVal(b) for b in BUILTINS]))
        return vbool(z3.Implies(owed, exists_new(body, n0, lambda s, k: is_import(st, s, module.t, name.t))))

    @K.spec("anchored_import_then_call_named")
    def anchored_import_then_call_named(eng, st, interp, oldbody, module, name, argseq):
        """INST: the import (when owed) comes before the call statement; the callee is a Name node spelling `name`"""
        body, old, n0 = new_stmts(eng, st, interp, oldbody)
        seq = eng.as_seq(argseq, st)
        owed = z3.Not(z3.Or([module.t == z3.StringVal(b) for b in BUILTINS]))

        def call_named(c):
            f = fld(st, c, "func")
            return z3.And(Val.is_R(f), cls_is(st, Val.r(f), "ast.Name"), fld(st, Val.r(f), "id") == Val.S(name.t), args_match_seq(eng, st, c, seq))
        opts = []
        for kc in range(MAXNEW):
            call_at = z3.And(z3.Length(body) > n0 + kc, is_call_stmt(st, body[n0 + kc], call_named))
            imp_before = z3.Or([z3.And(z3.Length(body) > n0 + ki, is_import(st, body[n0 + ki], module.t, name.t)) for ki in range(kc)] or
                               [z3.BoolVal(False)])
            opts.append(z3.And(call_at, z3.Implies(owed, imp_before)))
        return vbool(z3.Or(opts))

    @K.spec("anchored_build")
    def anchored_build(eng, st, interp, oldbody, obj, state):
        """x = <obj> ; x.__setstate__(<state>)  as two consecutive new statements"""
        body, old, n0 = new_stmts(eng, st, interp, oldbody)
        opts = []
        for k in range(MAXNEW - 1):
            a, e = body[n0 + k], body[n0 + k + 1]
            ar, er = Val.r(a), Val.r(e)
            tl = st.items(Val.r(fld(st, ar, "targets")))
            t0 = Val.r(tl[0])
            call = Val.r(fld(st, er, "value"))
            fn = Val.r(fld(st, call, "func"))
            recv = Val.r(fld(st, fn, "value"))
            args = st.items(Val.r(fld(st, call, "args")))
            opts.append(z3.And(
                z3.Length(body) > n0 + k + 1, Val.is_R(a), cls_is(st, ar, "ast.Assign"), fld(st, ar, "value") == box(obj),
                z3.Length(tl) == 1, cls_is(st, t0, "ast.Name"),
                Val.is_R(e), cls_is(st, er, "ast.Expr"), cls_is(st, call, "ast.Call"), cls_is(st, fn, "ast.Attribute"),
                fld(st, fn, "attr") == Val.S(z3.StringVal("__setstate__")), cls_is(st, recv, "ast.Name"),
                fld(st, recv, "id") == fld(st, t0, "id"), z3.Length(args) == 1, args[0] == box(state)))
        return vbool(z3.Or(opts))

    @K.spec("anchored_persistent_load")
    def anchored_persistent_load(eng, st, interp, oldbody, pid):
        body, old, n0 = new_stmts(eng, st, interp, oldbody)

        def pl(c):
            f = fld(st, c, "func")
            fr = Val.r(f)
            base = Val.r(fld(st, fr, "value"))
            args = st.items(Val.r(fld(st, c, "args")))
            return z3.And(Val.is_R(f), cls_is(st, fr, "ast.Attribute"), fld(st, fr, "attr") == Val.S(z3.StringVal("persistent_load")),
                          cls_is(st, base, "ast.Name"), fld(st, base, "id") == Val.S(z3.StringVal("UNPICKLER")),
                          z3.Length(args) == 1, args[0] == box(pid))
        return vbool(exists_new(body, n0, lambda s, k: is_call_stmt(st, s, pl)))

    @K.spec("const_str")
    def const_str(eng, st, node):
        """the str value of an ast.Constant operand (STACK_GLOBAL operands)"""
        return V("str", Val.s(fld(st, eng.as_ref(node, st), "value")))

    @K.spec("is_const_str")
    def is_const_str(eng, st, node):
        r = eng.as_ref(node, st)
        isref = Val.is_R(node.t) if node.k == "val" else z3.BoolVal(True)
        return vbool(z3.And(isref, cls_is(st, r, "ast.Constant"), Val.is_S(fld(st, r, "value"))))

    @K.spec("seq_head")
    def seq_head(eng, st, s):
        return V("val", eng.as_seq(s, st)[0])

    @K.spec("seq_tail")
    def seq_tail(eng, st, s):
        q = eng.as_seq(s, st)
        return V("seq", z3.SubSeq(q, 1, z3.Length(q) - 1))
