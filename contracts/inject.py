"""Sidecar: the injection helpers of fickle.Pickled (C08) — structure of the rewritten opcode sequence.

kept(s)      the subsequence of s made of opcode objects that existed when the verified function was entered (ghost filter; ground rules
             below: it distributes over the concatenations list.insert builds, a sequence of old objects is kept whole)
no_new_stop(s)  every element of s is such an old object or is not a Stop opcode"""
import z3
from pyvc.sorts import V, Val, SeqV, Int, vbool, vint, box
from pyvc.state import clsid, ALLOC0
import pyvc.state as _state

ERR = ["ValueError", "IndexError", "KeyError", "NotImplementedError", "TypeError", "AttributeError", "OverflowError", "struct.error", "UnicodeError"]
MUT = ["self._opcodes[]", "self._ast", "self._properties"]
KEPT = z3.Function("KEPT_OLD", SeqV, SeqV)
T = z3.Int("ghost.kept_threshold")      # rigid: "old" means allocated before this point; each contract below holds for every T <= its entry


def register(K):
    def old_ref(x):
        return z3.And(Val.is_R(x), Val.r(x) < T)

    @K.spec("threshold_ok")
    def threshold_ok(eng, st):
        """the threshold of `kept` is not later than the present allocation pointer (as a precondition: not later than the callee's entry)"""
        return vbool(T <= st.alloc_ptr())

    @K.spec("is_new")
    def is_new(eng, st, x):
        return vbool(eng.as_ref(x, st) >= T)

    @K.spec("kept")
    def kept(eng, st, s_):
        return V("seq", KEPT(eng.as_seq(s_, st)), elem=getattr(s_, "elem", None))

    @K.spec("no_new_stop")
    def no_new_stop(eng, st, s_):
        stops = [clsid(c) for c in eng.repo.subclasses("fickle.Stop")]
        cls_arr = st.comp("cls")
        p = eng.rules.forall_pred("OLD_OR_NOT_STOP", lambda x, cls_arr=cls_arr: z3.Or(old_ref(x), z3.And(Val.is_R(x), *[z3.Select(cls_arr, Val.r(x)) != c for c in stops])))
        return vbool(p(eng.as_seq(s_, st)))

    @K.spec("all_new")
    def all_new(eng, st, s_):
        """every element is an object allocated since the verified function was entered"""
        p = eng.rules.forall_pred("ALL_NEW", lambda x: z3.And(Val.is_R(x), Val.r(x) >= T))
        return vbool(p(eng.as_seq(s_, st)))

    @K.ground_rules
    def kept_rules(eng):
        def gen(rules, exprs):
            out, seen = [], set()
            below = rules.preds.get("BELOW0")
            nostop = rules.preds.get("OLD_OR_NOT_STOP")
            todo = [t for t in rules.subterms(exprs) if z3.is_app(t) and t.decl().name() == "KEPT_OLD"]
            extracts = {}
            # sequences named by an equation of the path (a list after a call is a fresh symbol equated with what the callee's contract builds)
            eqs = {}
            for e in exprs:
                for c in (e.children() if z3.is_app(e) and e.decl().kind() == z3.Z3_OP_AND else [e]):
                    if z3.is_eq(c) and c.arg(0).sort() == SeqV:
                        eqs.setdefault(c.arg(0).get_id(), []).append(c.arg(1))
                        eqs.setdefault(c.arg(1).get_id(), []).append(c.arg(0))
            while todo:
                t = todo.pop()
                if t.get_id() in seen:
                    continue
                seen.add(t.get_id())
                a = t.arg(0)
                k = a.decl().kind() if z3.is_app(a) else None
                out.append(z3.Length(t) <= z3.Length(a))
                for other in eqs.get(a.get_id(), [])[:4]:
                    todo.append(KEPT(other))
                if below is not None:
                    out.append(z3.Implies(z3.And(T >= ALLOC0, below[0](a)), t == a))   # objects that existed at entry are kept whole
                if k == z3.Z3_OP_SEQ_EMPTY:
                    out.append(t == z3.Empty(SeqV))
                elif k == z3.Z3_OP_SEQ_UNIT:
                    out.append(t == z3.If(old_ref(a.arg(0)), a, z3.Empty(SeqV)))
                elif k == z3.Z3_OP_SEQ_CONCAT:
                    parts = [KEPT(c) for c in a.children()]
                    out.append(t == z3.Concat(*parts))
                    todo += parts
                elif k == z3.Z3_OP_SEQ_EXTRACT:
                    extracts.setdefault(a.arg(0).get_id(), []).append(a)
                    todo.append(KEPT(a.arg(0)))
            # a sequence split at j: kept(s) = kept(s[:j]) ++ kept(s[j:])
            for ts in extracts.values():
                for e1 in ts:
                    for e2 in ts:
                        if e1.get_id() == e2.get_id():
                            continue
                        s_ = e1.arg(0)
                        off1 = z3.simplify(e1.arg(1))
                        if z3.is_int_value(off1) and off1.as_long() == 0 and e2.arg(1).eq(e1.arg(2)):
                            j = e1.arg(2)
                            out.append(z3.Implies(z3.And(j >= 0, j <= z3.Length(s_), e2.arg(2) == z3.Length(s_) - j),
                                                  KEPT(s_) == z3.Concat(KEPT(e1), KEPT(e2))))
                            if nostop is not None:
                                out.append(z3.Implies(z3.And(j >= 0, j <= z3.Length(s_), e2.arg(2) == z3.Length(s_) - j),
                                                      nostop[0](s_) == z3.And(nostop[0](e1), nostop[0](e2))))
            if below is not None and nostop is not None:
                for t in rules.subterms(exprs):
                    if z3.is_app(t) and t.decl().name() == "OLD_OR_NOT_STOP":
                        out.append(z3.Implies(z3.And(T >= ALLOC0, below[0](t.arg(0))), t))
            return out
        return gen

    P = "self: fickle.Pickled"
    # the primitive, strengthened for this check (and verified here): inserting a new non-STOP object changes neither what is kept nor the last element
    ci = K.contracts["fickle.Pickled.insert"]
    ci.requires = ci.requires + ["threshold_ok()"]
    ci.ensures = ci.ensures + ["implies(is_new(opcode), kept(self._opcodes) == kept(old(self._opcodes)))",
                               "implies(is_new(opcode) and not isinstance(opcode, Stop) and no_new_stop(old(self._opcodes)), no_new_stop(self._opcodes))",
                               "implies(len(old(self._opcodes)) >= 1 and index < len(old(self._opcodes)) and index >= -len(old(self._opcodes)), "
                               "self._opcodes[-1] is old(self._opcodes)[-1])",
                               "len(self._opcodes) == len(old(self._opcodes)) + 1"]
    STRUCT = ["kept(self._opcodes) == kept(old(self._opcodes))", "implies(no_new_stop(old(self._opcodes)), no_new_stop(self._opcodes))",
              "len(self._opcodes) >= len(old(self._opcodes))", "inv(self)"]
    LAST = "self._opcodes[-1] is old(self._opcodes)[-1]"
    K.contract("fickle.ConstantOpcode.new", params="cls: cls:fickle.ConstantOpcode, obj: val", returns="fickle.ConstantOpcode",
               may_raise=ERR, exact_raises=False, ensures=["fresh_since_entry(result)"],
               trusted="which class is chosen and what it encodes is C15; here: a new constant opcode object (never a Stop), or a refusal")
    K.contract("fickle.Pickled._is_constant_type", params=f"{P}, obj: val", returns="bool", pure=True, ensures=[])
    K.contract("fickle.Pickled._encode_python_obj", params=f"{P}, obj: val", returns="list[fickle.Opcode]", may_raise=ERR, exact_raises=False,
               requires=["threshold_ok()"], ensures=["fresh_since_entry(result)", "no_new_stop(result)", "all_new(result)"],
               loops={0: dict(invariant=["allocated_by_call(res)", "no_new_stop(res)", "all_new(res)"], modifies=["res[]"]),
                      1: dict(invariant=["allocated_by_call(res)", "no_new_stop(res)", "all_new(res)"], modifies=["res[]"])})
    K.contract("fickle.Pickled.insert_python_obj", params=f"{P}, index: int, obj: val", returns="int", may_raise=ERR, exact_raises=False,
               requires=["threshold_ok()", "inv(self)", "0 <= index", "index < len(self._opcodes)"], modifies=MUT,
               ensures=STRUCT + [LAST, "result >= 0", "len(self._opcodes) == len(old(self._opcodes)) + result"],
               ensures_raise={"*": ["inv(self)", "self._opcodes == old(self._opcodes)"]},
               loops={0: dict(invariant=["inv(self)", "kept(self._opcodes) == kept(old(self._opcodes))",
                                         "implies(no_new_stop(old(self._opcodes)), no_new_stop(self._opcodes))",
                                         "len(self._opcodes) == len(old(self._opcodes)) + _i", LAST],
                              modifies=MUT)})
    FRAME = MUT + ["@list.items:nodeowned", "@ast.lineno", "@ast.col_offset", "@iterator.pos"]
    K.contract("fickle.Pickled.insert_python",
               params="self: fickle.Pickled, *args: val, module: str = 'builtins', attr: str = 'eval', run_first: bool = True, "
                      "use_output_as_unpickle_result: bool = False",
               returns="int", requires=["threshold_ok()", "inv(self)", "len(self._opcodes) >= 1"], may_raise=ERR, exact_raises=False, modifies=FRAME,
               raises={}, ensures=STRUCT + [LAST, "len(self._opcodes) >= len(old(self._opcodes)) + 4"],
               ensures_raise={"*": ["inv(self)"]},
               loops={0: dict(invariant=["0 <= i", "self._opcodes == old(self._opcodes)", "inv(self)"], modifies=[]),
                      1: dict(invariant=["inv(self)", "kept(self._opcodes) == kept(old(self._opcodes))",
                                         "implies(no_new_stop(old(self._opcodes)), no_new_stop(self._opcodes))", LAST,
                                         "2 <= i", "i < len(self._opcodes)", "len(self._opcodes) >= len(old(self._opcodes))"],
                              modifies=MUT)})
    K.contract("fickle.Pickled.append_python",
               params="self: fickle.Pickled, *args: val, module: str = 'builtins', attr: str = 'eval', pop_result: bool = False",
               returns="val", requires=["threshold_ok()", "inv(self)", "len(self._opcodes) >= 1"], may_raise=ERR, exact_raises=False, modifies=MUT,
               ensures=STRUCT + [LAST, "len(self._opcodes) >= len(old(self._opcodes)) + 4"], ensures_raise={"*": ["inv(self)"]},
               loops={0: dict(invariant=["inv(self)", "kept(self._opcodes) == kept(old(self._opcodes))",
                                         "implies(no_new_stop(old(self._opcodes)), no_new_stop(self._opcodes))", LAST,
                                         "len(self._opcodes) >= len(old(self._opcodes))"], modifies=MUT)})
    K.contract("fickle.Pickled.insert_magic_int", params="self: fickle.Pickled, magic: int, index: int = -1", returns="val",
               requires=["threshold_ok()", "inv(self)", "len(self._opcodes) >= 1", "index == -1 or (0 <= index and index < len(self._opcodes))"],
               may_raise=ERR, exact_raises=False, modifies=MUT,
               ensures=STRUCT + [LAST, "len(self._opcodes) == len(old(self._opcodes)) + 2"], ensures_raise={"*": ["inv(self)"]})
