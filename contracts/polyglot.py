"""Sidecar: fickling.polyglot — format identification (decision table), read-only-ness, polyglot hygiene (C17)."""
import z3
from pyvc.sorts import V, Val, VNONE, SeqV, Str, Bool, vbool, vint, vref, vstr, box, fresh

PROPS = ["is_torch_zip", "is_tar", "is_valid_pickle", "is_numpy", "is_numpy_pickle", "is_standard_zip", "is_standard_not_torch",
         "has_constants_pkl", "has_data_pkl", "has_version", "has_model_json", "has_attributes_pkl"]


def register(K):
    @K.spec("prop")
    def prop(eng, st, d, name):
        """the boolean stored under a key of the properties dict"""
        r = eng.as_ref(d, st)
        v = z3.Select(st.read("dict.map", r), box(name))
        return vbool(z3.And(Val.is_B(v), Val.b(v)))

    @K.spec("is_properties")
    def is_properties(eng, st, d):
        """a properties dict as find_file_properties builds it: the twelve keys, each holding a bool"""
        r = eng.as_ref(d, st)
        has, mp = st.read("dict.has", r), st.read("dict.map", r)
        return vbool(z3.And(*[z3.And(z3.Select(has, Val.S(z3.StringVal(k))), Val.is_B(z3.Select(mp, Val.S(z3.StringVal(k))))) for k in PROPS]))

    K.contract("polyglot.find_file_properties", params="file_path: val, print_properties: val = False", returns="dict[str,bool]",
               may_raise=["OSError", "Exception"], exact_raises=False, effects=["fs-read(file)", "stdout"],
               ensures=["is_properties(result)", "fresh_since_entry(result)"],
               trusted="opens the file read-only and asks torch / tarfile / zipfile / numpy what it is (effects clause checked separately); "
                       "abstracted as: a dict of twelve booleans")
    K.contract("polyglot.check_if_legacy_format", params="file: val", returns="bool", effects=["fs-read(file)", "stdout"], ensures=[],
               trusted="tarfile scan for the members pickle / storages / tensors; the contract speaks of the truthiness of what it returns (True / False / None)")
    K.contract("polyglot.check_if_model_archive_format", params="file: val, properties: dict", returns="bool", effects=["fs-read(file)", "stdout"],
               ensures=[], trusted="zip member suffix scan (.json, .pt / .pth, .py)")

    @K.spec("expected_zip_formats")
    def expected(eng, st, d):
        """the documented table (README / module docstring) in the documented order of precedence, as a function of the five markers"""
        def p(name):
            return prop(eng, st, d, vstr(name)).t
        rows = [("TorchScript v1.4", z3.And(p("has_data_pkl"), p("has_constants_pkl"), p("has_version"))),
                ("TorchScript v1.3", z3.And(p("has_data_pkl"), p("has_constants_pkl"))),
                ("TorchScript v1.0", p("has_model_json")),
                ("TorchScript v1.1", z3.And(p("has_model_json"), p("has_attributes_pkl"))),
                ("PyTorch v1.3", p("has_data_pkl"))]
        parts = [z3.If(z3.And(p("is_torch_zip"), c), z3.Unit(Val.S(z3.StringVal(n))), z3.Empty(SeqV)) for n, c in rows]
        return V("seq", z3.Concat(*parts), elem="str")
