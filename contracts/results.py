"""Sidecar: analysis.AnalysisResult / AnalysisResults (aggregation of findings into one severity)."""
SEV = "analysis.Severity"


def register(K):
    K.fieldsof("analysis.AnalysisResult", severity=SEV, message="val", analysis_name="val", trigger="val")
    K.fieldsof("analysis.AnalysisResults", pickled="fickle.Pickled", results="tuple[analysis.AnalysisResult]")

    K.contract("analysis.AnalysisResult.__init__",
               params="self: analysis.AnalysisResult, severity: analysis.Severity, message: val = None, analysis_name: val = None, trigger: val = None",
               modifies=["self.severity", "self.message", "self.analysis_name", "self.trigger"], allocates=False,
               ensures=["self.severity is severity", "self.message is message", "self.analysis_name is analysis_name",
                        "self.trigger is trigger"])
    K.contract("analysis.AnalysisResult.__bool__", params="self: analysis.AnalysisResult", returns="bool", pure=True,
               ensures=["result == (self.severity is Severity.LIKELY_SAFE)"])
    K.contract("analysis.AnalysisResult.__str__", params="self: analysis.AnalysisResult", returns="str", pure=True, ensures=[])

    K.contract("analysis.AnalysisResults.__init__",
               params="self: analysis.AnalysisResults, pickled: fickle.Pickled, results: list[analysis.AnalysisResult]",
               modifies=["self.pickled", "self.results"],
               ensures=["self.pickled is pickled", "self.results == results"])
    K.contract("analysis.AnalysisResults.severity", params="self: analysis.AnalysisResults", returns=SEV, pure=True,
               ensures=["implies(len(self.results) == 0, result is Severity.LIKELY_SAFE)",
                        "forall('j', len(self.results), 'doc_rank(self.results[j].severity) <= doc_rank(result)')",
                        "implies(len(self.results) > 0, exists('k', len(self.results), 'self.results[k].severity is result'))"])
