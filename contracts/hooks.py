"""Sidecar: hook.py / context.py — state-transformer contracts on the four pickle-module bindings (C12, C02 arming, C07)."""
import z3
from pyvc.sorts import V, Val, vbool, vint, vref, Int, box
from pyvc.state import static_ref


def register(K):
    # the four bindings are mutable module attributes, held in the heap
    K.fieldsof("module:pickle", load="val", loads="val", Unpickler="val")
    K.fieldsof("module:_pickle", load="val", loads="val", Unpickler="val")
    K.fieldsof("module:hook", _original_pickle_load="val", _original_pickle_loads="val")
    K.fieldsof("context.FicklingContextManager", original_pickle_load="val", max_acceptable_severity="val")
    K.fieldsof("function", code="int")

    @K.axiom
    def import_time_capture(eng, st):
        """import-time facts of fickling.hook: it captured the stock pickle.load / pickle.loads (checked against the live import by C12)"""
        hk = z3.IntVal(static_ref("module:hook"))
        return [st.read("module:hook._original_pickle_load", hk, Val) == Val.R(static_ref("ext:pickle.load")),
                st.read("module:hook._original_pickle_loads", hk, Val) == Val.R(static_ref("ext:pickle.loads"))]

    @K.spec("stock_loads")
    def stock_loads(eng, st):
        return V("ref", z3.IntVal(static_ref("ext:pickle.loads")), cls="function")

    @K.spec("stock_load")
    def stock_load(eng, st):
        return V("ref", z3.IntVal(static_ref("ext:pickle.load")), cls="function")

    @K.spec("is_checked_load")
    def is_checked(eng, st, f):
        """the binding is fickling's checked loader (loader.load)"""
        return vbool(eng.py_is(f, V("func", z3.IntVal(static_ref("func:loader.load")), cls="loader.load"), st))

    def code_is(eng, st, f, qual):
        r = eng.as_ref(f, st)
        isref = Val.is_R(f.t) if f.k == "val" else z3.BoolVal(True)
        return z3.And(isref, st.read("function.code", r, Int) == static_ref("code:" + qual))

    OUTER = "hook.activate_safe_ml_environment"

    def capture_chain(eng, start, var="also_allow"):
        """through which nested closures `start` reaches the variable `var` of the activation: [] when its body mentions it, [g] when it
        calls the nested function g that does (read from the working tree, at most two levels); None when it does not reach it"""
        import ast as _ast
        nested = {q.rsplit(".", 1)[-1]: fn for q, fn in eng.repo.qual.items() if q.startswith(OUTER + ".<locals>.") and q.count(".<locals>.") == 1}

        def names(fn):
            return {n.id for n in _ast.walk(fn) if isinstance(n, _ast.Name) and isinstance(n.ctx, _ast.Load)}
        if start not in nested:
            return None
        if var in names(nested[start]):
            return []
        for g in sorted(names(nested[start]) & set(nested)):
            if var in names(nested[g]):
                return [g]
            for h in sorted(names(nested[g]) & set(nested)):
                if var in names(nested[h]):
                    return [g, h]
        return None

    def ml_closure(eng, st, f, also_allow, which):
        """the binding is the closure `which` created by activate_safe_ml_environment(also_allow): its code is that nested def and the
        activation's also_allow is what its environment (directly, or through the nested helper it calls) holds"""
        chain = capture_chain(eng, which)
        if chain is None:
            return vbool(z3.BoolVal(False))
        conj = [code_is(eng, st, f, f"{OUTER}.<locals>.{which}")]
        r = eng.as_ref(f, st)
        for g in chain:
            cell = st.read(f"function.cell.{g}", r, Val)
            conj.append(Val.is_R(cell))
            conj.append(st.read("function.code", Val.r(cell), Int) == static_ref(f"code:{OUTER}.<locals>.{g}"))
            r = Val.r(cell)
        conj.append(st.read("function.cell.also_allow", r, Val) == box(eng.materialize(also_allow, st)))
        return vbool(z3.And(conj))

    @K.spec("is_ml_load")
    def is_ml_load(eng, st, f, also_allow):
        return ml_closure(eng, st, f, also_allow, "new_load")

    @K.spec("is_ml_loads")
    def is_ml_loads(eng, st, f, also_allow):
        return ml_closure(eng, st, f, also_allow, "new_loads")

    K.contract("hook.run_hook", params="", modifies=["pickle.load"], allocates=False,
               ensures=["is_checked_load(pickle.load)"])
    K.contract("hook.always_check_safety", params="", modifies=["pickle.load"], allocates=False,
               ensures=["is_checked_load(pickle.load)"])
    K.contract("hook.activate_safe_ml_environment", params="also_allow: val = None",
               modifies=["pickle.load", "_pickle.load", "pickle.loads", "_pickle.loads"],
               ensures=["is_ml_load(pickle.load, also_allow)", "is_ml_load(_pickle.load, also_allow)",
                        "is_ml_loads(pickle.loads, also_allow)", "is_ml_loads(_pickle.loads, also_allow)"])
    K.contract("hook.remove_hook", params="", modifies=["pickle.load", "_pickle.load", "pickle.loads", "_pickle.loads"], allocates=False,
               ensures=["pickle.load is _original_pickle_load", "_pickle.load is _original_pickle_load",
                        "pickle.loads is _original_pickle_loads", "_pickle.loads is _original_pickle_loads"])
    K.contract("context.FicklingContextManager.__init__",
               params="self: context.FicklingContextManager, max_acceptable_severity: val = Severity.LIKELY_SAFE",
               modifies=["self.original_pickle_load", "self.max_acceptable_severity"], allocates=False,
               ensures=["self.original_pickle_load is pickle.load"])
    K.contract("context.FicklingContextManager.__enter__", params="self: context.FicklingContextManager",
               returns="context.FicklingContextManager", modifies=["pickle.load"],
               ensures=["result is self", "is_checked_load(pickle.load)"])
    K.contract("context.FicklingContextManager.__exit__", params="self: context.FicklingContextManager, exc_type: val, exc_val: val, exc_tb: val",
               returns="none", modifies=["pickle.load"], allocates=False,
               ensures=["pickle.load is self.original_pickle_load"])
    K.contract("context.check_safety", params="", returns="context.FicklingContextManager",
               ensures=["fresh_since_entry(result)", "result.original_pickle_load is pickle.load"])
