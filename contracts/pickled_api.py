"""Sidecar: the contracts of fickle.Pickled that *callers* (loader, cli, analysis faces) rely on.
Pickled.load / dumps are verified against these in C06/C14; here they are the callee contracts of the faces."""
import z3
from pyvc.sorts import V, Val, vbool, vint, fresh, Int, Bytes, SeqV, Bool


def register(K):
    K.fieldsof("fickle.Pickled", _opcodes="list[fickle.Opcode]", _ast="val", _properties="val")
    K.fieldsof("fickle.Opcode", arg="val", pos="val", _data="val")
    K.fieldsof("fickle.StackedPickle", pickled="tuple[fickle.Pickled]")

    # PARSED(stream content at entry) — the bytes of the first pickle in the stream when load was called
    K.contract("fickle.Pickled.load", params="pickled: val", returns="fickle.Pickled",
               may_raise=["fickle.PickleDecodeError", "NotImplementedError", "Exception"],
               effects=["read(arg)", "seek(arg)"],
               ensures=["fresh_since_entry(result)", "DUMPS(result) == FIRST_PICKLE_AT_CALL(pickled)", "inv(result)", "caches_clear(result)"])
    K.contract("fickle.StackedPickle.load", params="pickled: val", returns="fickle.StackedPickle",
               may_raise=["fickle.PickleDecodeError", "NotImplementedError", "Exception"], effects=["read(arg)", "seek(arg)"],
               ensures=["fresh_since_entry(result)"])
    K.contract("fickle.StackedPickle.__len__", params="self: fickle.StackedPickle", returns="int", pure=True,
               ensures=["result == len(self.pickled)"])
    K.contract("fickle.StackedPickle.__getitem__", params="self: fickle.StackedPickle, index: val", returns="val", pure=True,
               raises={"IndexError": "index_out_of_range(index, len(self.pickled))"},
               ensures=["getitem_eq(result, self.pickled, index)"])
    K.contracts["fickle.StackedPickle.__getitem__"].returns_for_slice = "tuple[fickle.Pickled]"
    K.contracts["fickle.StackedPickle.__getitem__"].returns_for_index = "fickle.Pickled"

    _first = {}

    @K.spec("FIRST_PICKLE_AT_CALL")
    def first_pickle(eng, st, stream):
        """bytes of the first pickle in `stream` at the moment of the call (each call site gets its own snapshot symbol: the stream
        content is havocked after every call, DESIGN C02)"""
        key = (id(st), len(st.pc))
        t = st.ghost.get(("first_pickle", stream.t.get_id() if stream.t is not None else 0))
        if t is None:
            t = fresh("FIRST_PICKLE", Bytes)
            st.ghost = dict(st.ghost)
            st.ghost[("first_pickle", stream.t.get_id() if stream.t is not None else 0)] = t
        return V("bytes", t)
